/-
C12 — UDP datagram boundaries, addressing and multicast membership.

Model: `Sonic.Model.Datagram` (packet.go, multicast/peer.go, multicast/reactor.go, net/ipv4/multicast*.go at API
granularity + the kernel's receive queues, option record and IGMPv3 source filters).  Monitor:
`Sonic.Spec.Datagram`.  Everything here quantifies over ALL scripts (`List Op`): any number of sockets of the three
kinds, any interleaving of sends, reads, buffer replacements, polls, setters (succeeding or failing), membership
calls (well-formed or not, succeeding or failing) and closes.  The only hypothesis, `OpOk`, is that a buffer handed to
a read is not empty (a zero-length buffer turns every datagram into the EOF case the property excludes).

What is NOT proven here and is carried by the correspondence check on the real kernel: that Linux's multicast
filtering and routing behave as the model says (RFC 3376 / net/ipv4/igmp.c as modelled).
-/
import Sonic.Lemmas.DatagramRefine

namespace Sonic.Props.C12
open Sonic.Spec.Datagram Sonic.Model.Datagram Sonic.Lemmas.Datagram

/-- Scripts the theorems are about: buffers handed to reads are non-empty. -/
def ScriptOk (ops : List Op) : Prop := ∀ op ∈ ops, OpOk op = true
instance (ops : List Op) : Decidable (ScriptOk ops) := by unfold ScriptOk; exact inferInstance

/-! ## The main refinement -/

/-- For every script, the property monitor accepts the whole trace of the model: every completed read carries
exactly one datagram that was queued to that socket and not read before (its bytes truncated to the buffer, its
length, its sender's address and port, in the buffer most recently designated); every write queues exactly one
datagram to exactly the sockets the destination and the memberships allow; no getter differs from the kernel record
except `Loop()` before the first successful `SetLoop`; and the coupling invariant holds at the end. -/
theorem C12_trace_accepted (ops : List Op) (hok : ScriptOk ops) :
    ∃ st, Sonic.Spec.Datagram.run Sonic.Spec.Datagram.init (Model.Datagram.run World.init ops) = .ok st
      ∧ R (runW World.init ops) st :=
  run_refines R.init ops hok

theorem C12_monitor_accepts (ops : List Op) (hok : ScriptOk ops) :
    accepts Sonic.Spec.Datagram.init (Model.Datagram.run World.init ops) = true := by
  obtain ⟨st, h, _⟩ := C12_trace_accepted ops hok
  simp [accepts, h]

/-- The coupling invariant holds in every reachable state (same statement, for an arbitrary prefix). -/
theorem C12_inv_reachable (ops : List Op) (hok : ScriptOk ops) : ∃ st, R (runW World.init ops) st := by
  obtain ⟨st, _, h⟩ := C12_trace_accepted ops hok
  exact ⟨st, h⟩

/-! ## One read per datagram -/

/-- One receive of the model, stated outright: it takes exactly the oldest queued datagram off the queue and reports
`n = min(len(datagram), len(buffer))`, the datagram's source address (for a non-empty datagram) and the datagram's
first `n` bytes in the buffer most recently designated; the read is no longer registered afterwards. -/
theorem C12_one_read_per_datagram {s : Nat} {m m' : MSock} {cur len : Nat} {ev : Ev} (hlen : 0 < len)
    (hc : ∃ pre, m.cands = pre ++ [(cur, len)]) (hinc : m.cands.Pairwise (fun a b => a.1 < b.1))
    (h : recv s m cur len = some (m', ev)) :
    ∃ d q, m.rxq = d :: q ∧ m'.rxq = q ∧ m'.read = none ∧
      ∃ err n src bufs, ev = .done s err n src bufs ∧ n = min d.data.length len ∧ bufs.lookup cur = some (d.data.take n)
        ∧ (d.data ≠ [] → err = .nil ∧ src = some d.src) := by
  unfold recv at h
  cases hq : m.rxq with
  | nil => simp [hq] at h
  | cons d q =>
    simp only [hq] at h
    obtain ⟨pre, hpre⟩ := hc
    have hlook := lookup_shown m.cands pre cur len (d.data.take (min d.data.length len))
      (fun c => prefill c.1 (min (min d.data.length len) c.2)) hpre hinc
    refine ⟨d, q, rfl, ?_⟩
    split at h
    · rename_i hn
      have hn : min d.data.length len = 0 := by simpa using hn
      have hd : d.data = [] := (min_eq_zero_iff_nil hlen).1 hn
      split at h <;>
      · simp only [Option.some.injEq, Prod.mk.injEq] at h
        obtain ⟨h1, h2⟩ := h
        subst h1; subst h2
        refine ⟨rfl, rfl, _, _, _, _, rfl, hn.symm, ?_, fun hne => absurd hd hne⟩
        rw [← hn]; exact hlook
    · simp only [Option.some.injEq, Prod.mk.injEq] at h
      obtain ⟨h1, h2⟩ := h
      subst h1; subst h2
      exact ⟨rfl, rfl, _, _, _, _, rfl, rfl, hlook, fun _ => ⟨rfl, rfl⟩⟩

/-- … and across whole scripts: every completion in the trace of any script is matched by the monitor with exactly
one datagram delivered to that socket and not matched before (this is `C12_monitor_accepts`; the clause of the
monitor is `Spec.Datagram.step … (.done …)`), and after a poll no socket with a registered read still has a datagram
queued. -/
theorem C12_poll_leaves_nothing_completable (w : World) (st : S) (h : R w st) :
    ∀ s ∈ List.range maxSock, Drained (pollAll w (List.range maxSock)).1 s := by
  obtain ⟨_, _, _, hd, _⟩ := accept_pollAll h (List.range maxSock)
  exact hd

/-! ## One datagram per write -/

/-- One `sendto` of the model, stated outright.  If the kernel accepts it, exactly one datagram — the caller's bytes,
the given destination, the kernel's source address for this socket — is appended to the receive queue of exactly the
sockets in `arrived`, every other queue is untouched, and for a unicast destination at most one socket receives it.
If the kernel refuses it, nothing changes anywhere. -/
theorem C12_one_datagram_per_write (w : World) (s : Nat) (tx : MSock) (dsta : Addr) (data : List UInt8) (pick : Nat) :
    (sendErr tx.kern dsta data = .nil →
      ∃ arrived src, (sendTo w s tx dsta data pick).2 = [.sent s dsta data .nil data.length src arrived]
        ∧ (∀ r, ((sendTo w s tx dsta data pick).1.socks r).map (·.rxq)
            = (w.socks r).map fun m => if arrived.contains r then m.rxq ++ [{ src := src, dst := dsta, data := data }] else m.rxq)
        ∧ (isMulticast dsta.ip = false → arrived.length ≤ 1))
    ∧ (sendErr tx.kern dsta data ≠ .nil → (sendTo w s tx dsta data pick).1 = w
        ∧ ∃ src, (sendTo w s tx dsta data pick).2 = [.sent s dsta data (sendErr tx.kern dsta data) 0 src []]) := by
  constructor
  · intro herr
    unfold sendTo
    simp only [herr, bne_self_eq_false, Bool.false_eq_true, if_false]
    refine ⟨_, _, rfl, fun r => ?_, fun hm => ?_⟩
    · simp only [enqueue]
      cases w.socks r with
      | none => rfl
      | some m =>
        simp only [Option.map]
        congr 1
        split <;> (split <;> rfl)
    · simp only [hm, Bool.false_eq_true, if_false]
      rcases ucArrived_cases w dsta pick with ⟨h0, _⟩ | ⟨x, hx, _⟩
      · simp [h0]
      · simp [hx]
  · intro herr
    have hne : (sendErr tx.kern dsta data != Errc.nil) = true := by simpa using herr
    unfold sendTo
    simp only [hne, if_true]
    exact ⟨trivial, _, rfl⟩

/-! ## Getters equal the kernel's record -/

/-- A getters observation agrees with the kernel's record (local address, TTL, loopback, outbound interface). -/
def gettersOk : Ev → Bool
  | .getters _ api kern =>
      api.localAddr == kern.name && api.ttl == kern.ttl && api.loop == kern.loop && api.outIp == kern.mcIf
        && api.outIf.getD 0 == kern.mcIf
  | _ => true

/-- The same without the loopback clause. -/
def gettersOkButLoop : Ev → Bool
  | .getters _ api kern =>
      api.localAddr == kern.name && api.ttl == kern.ttl && api.outIp == kern.mcIf && api.outIf.getD 0 == kern.mcIf
  | _ => true

/-- The full statement: after any sequence of operations every getter equals the kernel record. -/
def C12_getters_eq_kernel : Prop :=
  ∀ ops : List Op, ScriptOk ops → (Model.Datagram.run World.init ops).all gettersOk = true

/-- It is false on this tree: a freshly constructed peer reports `Loop() = false` while the kernel has
`IP_MULTICAST_LOOP = 1` (`ipv4.GetMulticastLoop` returns true iff the option is 0). -/
theorem C12_getters_full_false : ¬ C12_getters_eq_kernel := by
  intro h
  have := h [.newPeer 0 0 true] (by decide)
  revert this
  decide


theorem getters_ok_of_step {st st' : S} {e : Ev} (h : Sonic.Spec.Datagram.step st e = .ok st') : gettersOkButLoop e = true := by
  cases e with
  | getters s api kern =>
    simp only [Sonic.Spec.Datagram.step] at h
    cases hs : st.socks s with
    | none => simp [hs] at h
    | some t =>
      simp only [hs] at h
      by_cases h1 : api.localAddr = kern.name
      · by_cases h2 : api.ttl = kern.ttl
        · by_cases h3 : api.outIp = kern.mcIf
          · by_cases h4 : api.outIf.getD 0 = kern.mcIf
            · simp [gettersOkButLoop, h1, h2, h3, h4]
            · simp [h1, h2, h3, h4] at h
          · simp [h1, h2, h3] at h
        · simp [h1, h2] at h
      · simp [h1] at h
  | _ => rfl

theorem getters_ok_of_run {tr : List Ev} {st st' : S} (h : Sonic.Spec.Datagram.run st tr = .ok st') :
    tr.all gettersOkButLoop = true := by
  induction tr generalizing st with
  | nil => rfl
  | cons e r ih =>
    simp only [Sonic.Spec.Datagram.run] at h
    cases hs : Sonic.Spec.Datagram.step st e with
    | error k => simp [hs] at h
    | ok st1 =>
      simp only [hs] at h
      simp only [List.all_cons, Bool.and_eq_true]
      exact ⟨getters_ok_of_step hs, ih h⟩

/-- What does hold, for every script: local address, TTL and outbound interface/address reported by the getters
always equal `getsockname` / `getsockopt`, after any sequence of setters, successful or failing; and the monitor —
which rejects a `Loop()` that differs from `IP_MULTICAST_LOOP` once a `SetLoop` has succeeded on that peer — accepts
the trace, recording nothing but the known deviation (`Loop()` before the first successful `SetLoop`). -/
theorem C12_getters_partial (ops : List Op) (hok : ScriptOk ops) :
    (Model.Datagram.run World.init ops).all gettersOkButLoop = true
    ∧ ∃ st, Sonic.Spec.Datagram.run Sonic.Spec.Datagram.init (Model.Datagram.run World.init ops) = .ok st
        ∧ ∀ n ∈ st.notes, n = "loop-getter-inverted" := by
  obtain ⟨st, hrun, hR⟩ := C12_trace_accepted ops hok
  exact ⟨getters_ok_of_run hrun, st, hrun, hR.notes⟩

/-- The same as an invariant of the reachable states of the model: the peer's cache equals the kernel record in
the address, TTL and outbound fields. -/
theorem C12_getters_cache_inv (ops : List Op) (hok : ScriptOk ops) (s : Nat) (m : MSock)
    (hm : (runW World.init ops).socks s = some m) (hk : m.kind = .peer) :
    m.cache.ttl = m.kern.ttl ∧ m.cache.localAddr = m.kern.name ∧ m.cache.outIp = m.kern.mcIf
      ∧ m.cache.outIf.getD 0 = m.kern.mcIf := by
  obtain ⟨st, hR⟩ := C12_inv_reachable ops hok
  have := hR.socks s
  rw [hm] at this
  cases ht : st.socks s with
  | none => rw [ht] at this; simp [OptR] at this
  | some t =>
    rw [ht] at this
    have hr : SockR _ m t := this
    obtain ⟨a, b, c, d, _⟩ := hr.getters hk
    exact ⟨a, b, c, d⟩

/-! ## Delivery ↔ membership -/

/-- A membership script: well-formed calls; `reaches = false` marks a call that fails without reaching the kernel's
membership code (interface that cannot be resolved, descriptor that is not a socket). -/
def membRun : KMembs × Memb → List (MOp × Bool) → KMembs × Memb
  | x, [] => x
  | x, (op, reaches) :: r =>
    if reaches then membRun ((kMemb x.1 op).1, mstep x.2 op ((kMemb x.1 op).2 == .nil)) r
    else membRun (x.1, mstep x.2 op false) r

def membInit : KMembs × Memb := (fun _ => none, Memb.empty)

theorem membRun_R {x : KMembs × Memb} (h : MembR x.1 x.2) (sc : List (MOp × Bool)) :
    MembR (membRun x sc).1 (membRun x sc).2 := by
  induction sc generalizing x with
  | nil => exact h
  | cons c r ih =>
    obtain ⟨op, reaches⟩ := c
    simp only [membRun]
    by_cases hr : reaches = true
    · simp only [hr, if_true]; exact ih (kMemb_refines h op)
    · simp only [hr, Bool.false_eq_true, if_false]; exact ih (h.fail op)

/-- Over all membership scripts: what the kernel's per-socket filter (the model of `ip_mc_sf_allow`, with
`IP_MULTICAST_ALL = 0`) lets through was joined and not left, and its source passes the filter (not blocked /
source-joined). -/
theorem C12_delivery_only (sc : List (MOp × Bool)) (g src : Ip)
    (h : kAllow (membRun membInit sc).1 g src = true) : passes (membRun membInit sc).2 g src = true :=
  kAllow_sound (membRun_R MembR.init sc) g src h

/-- Over all membership scripts: delivered ↔ group joined, not since left, source passes the filter — provided the
last membership call for that group did not fail (Linux switches the filter mode of an any-source membership as a side
effect of a failing `IP_DROP_SOURCE_MEMBERSHIP`, after which nothing is delivered until the next successful call). -/
theorem C12_delivery (sc : List (MOp × Bool)) (g src : Ip) (hs : (membRun membInit sc).2.unsure g = false) :
    kAllow (membRun membInit sc).1 g src = passes (membRun membInit sc).2 g src :=
  kAllow_complete (membRun_R MembR.init sc) g src hs

/-- `passes` spelled out: the group has a live membership whose filter lets the source pass. -/
theorem passes_iff (a : Memb) (g src : Ip) :
    passes a g src = true ↔ ∃ f, a.filt g = some f ∧
      (match f with | .exclude l => src ∉ l | .include l => src ∈ l) := by
  unfold passes
  cases h : a.filt g with
  | none => simp
  | some f => cases f <;> simp

/-- Decision logic of the kernel model, stated outright. -/
theorem C12_join_delivers_all (k k' : KMembs) (g : Ip) (h : kMemb k (.join g) = (k', .nil)) (src : Ip) :
    kAllow k' g src = true := by
  simp only [kMemb, joinGroup] at h
  cases hk : k g with
  | some f => simp [hk] at h
  | none => simp [hk] at h; subst h; simp [kAllow, upd]

theorem C12_leave_stops_delivery (k k' : KMembs) (g : Ip) (h : kMemb k (.leave g) = (k', .nil)) (src : Ip) :
    kAllow k' g src = false := by
  simp only [kMemb, leaveGroup] at h
  cases hk : k g with
  | none => simp [hk] at h
  | some f => simp [hk] at h; subst h; simp [kAllow, upd]

theorem C12_block_stops_source (k k' : KMembs) (g s : Ip) (h : kMemb k (.block g s) = (k', .nil)) :
    kAllow k' g s = false := by
  simp only [kMemb, mcSource] at h
  cases hk : k g with
  | none => simp [hk] at h
  | some f =>
    simp only [hk, Bool.not_true, Bool.false_eq_true, if_false] at h
    split at h
    · simp at h
    · split at h
      · simp at h
      · simp only [Prod.mk.injEq, and_true] at h
        subst h
        simp [kAllow, upd]

/-! ## Non-vacuity -/

/-- A script that meets the hypothesis and exercises the clauses: two peers and a raw second-source sender, a
membership, a deferred read whose buffer is replaced, a multicast datagram truncated into the replacing buffer, a
blocked source, a unicast datagram, failing setters, `SetLoop`, a second read, close. -/
def demo : List Op :=
  [.newPeer 0 0 true, .newPeer 1 3221225986 false, .newRaw 2 .tx3,
   .join 0 (.ip 4009754625) none none, .read 0 4, .setBuf 0 2,
   .send 1 (.group 4009754625) [1, 2, 3] 0, .poll,
   .block 0 (.ip 4009754625) (.ip 3221225987), .send 2 (.group 4009754625) [9] 0, .send 1 (.sock 0) [7, 8] 0,
   .brk 0, .setTTL 0 9, .mend 0, .setLoop 0 true, .get 0, .read 0 1, .close 0]

example : ScriptOk demo := by decide

/-- The datagram of 3 bytes completes the deferred read with n = 2, sender 192.0.2.2:11, bytes `01 02` in the
replacing buffer 1 while buffer 0 keeps its fill pattern. -/
example : (Model.Datagram.run World.init demo).contains
    (.done 0 .nil 2 (some ⟨3221225986, 11⟩) [(0, prefill 0 2), (1, [1, 2])]) = true := by decide

/-- The blocked source's datagram reaches nobody; the unicast one reaches socket 0 only. -/
example : (Model.Datagram.run World.init demo).contains
    (.sent 2 ⟨4009754625, 1⟩ [9] .nil 1 ⟨3221225987, 12⟩ []) = true := by decide
example : (Model.Datagram.run World.init demo).contains
    (.sent 1 ⟨2130706433, 1⟩ [7, 8] .nil 2 ⟨3221225986, 11⟩ [0]) = true := by decide

/-- The monitor is not trivially accepting: the same completion with a wrong length, a wrong sender port, the
bytes in the stale buffer, or a delivery to a socket that never joined are rejected. -/
def pre : List Ev := (Model.Datagram.run World.init demo).take 10

example : accepts Sonic.Spec.Datagram.init (pre ++ [.done 0 .nil 2 (some ⟨3221225986, 11⟩) [(0, prefill 0 2), (1, [1, 2])]]) = true := by decide
example : accepts Sonic.Spec.Datagram.init (pre ++ [.done 0 .nil 3 (some ⟨3221225986, 11⟩) [(0, prefill 0 2), (1, [1, 2])]]) = false := by decide
example : accepts Sonic.Spec.Datagram.init (pre ++ [.done 0 .nil 2 (some ⟨3221225986, 12⟩) [(0, prefill 0 2), (1, [1, 2])]]) = false := by decide
example : accepts Sonic.Spec.Datagram.init (pre ++ [.done 0 .nil 2 (some ⟨3221225986, 11⟩) [(0, [1, 2]), (1, prefill 1 2)]]) = false := by decide
example : accepts Sonic.Spec.Datagram.init
    ((Model.Datagram.run World.init demo).take 6 ++ [.sent 1 ⟨4009754626, 1⟩ [5] .nil 1 ⟨3221225986, 11⟩ [0]]) = false := by decide
example : accepts Sonic.Spec.Datagram.init
    [.opened 0 ⟨0, 1⟩ ⟨true, 1, 0, false, ⟨0, 1⟩⟩, .getters 0 ⟨true, 7, none, 0, false, ⟨0, 1⟩⟩ ⟨true, 1, 0, false, ⟨0, 1⟩⟩] = false := by decide

end Sonic.Props.C12
