import Sonic.Model.Datagram

namespace Sonic.Props.C12
open Sonic.Spec.Datagram Sonic.Model.Datagram

theorem placeholder : True := trivial

end Sonic.Props.C12
