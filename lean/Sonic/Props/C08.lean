/-
C08 — WebSocket ping/pong and closing handshake follow the RFC 6455 state machine.

Model: `Sonic.Model.WsStream` (codec/websocket/stream.go at frame granularity, blocking and asynchronous paths).
Monitor: `Sonic.Spec.WsStream` (RFC 6455 §5.5/§7 over the observable history).
All theorems quantify over every maximum message size and every sequence of peer events and local calls (no bound
on the length); the step theorems hold from every model state that meets their explicit hypotheses.
-/
import Sonic.Lemmas.WsFacts

set_option linter.unusedSimpArgs false

namespace Sonic.Props.C08
open Sonic.Spec.WsStream Sonic.Model.WsStream Sonic.Lemmas.WsOut Sonic.Lemmas.WsRefine Sonic.Lemmas.WsFacts

/-- Usage precondition on a script: the application writes text/binary messages and does not send Close frames
through WriteFrame (`Lemmas.WsRefine.OpOk`). -/
def OpsOk (ops : List Op) : Prop := ∀ op ∈ ops, OpOk op

instance (ops : List Op) : Decidable (OpsOk ops) := by unfold OpsOk; exact inferInstance

theorem R_init (max : Nat) : R (new max) (init max) :=
  ⟨⟨rfl, rfl, rfl, rfl, rfl, rfl, rfl, fun _ => noClose_nil⟩, rfl, rfl⟩

/-- Simulation: from coupled states the monitor accepts the model's whole trace, and the final states are coupled. -/
theorem run_refines : ∀ (ops : List Op) (m : M) (s : S), R m s → OpsOk ops →
    ∃ s', exec s (run m ops) = some s' ∧ accepts s (run m ops) = true ∧ R (final m ops) s'
  | [], m, s, hR, _ => ⟨s, rfl, rfl, hR⟩
  | op :: ops, m, s, hR, hok => by
    obtain ⟨s1, h1, hR1⟩ := step_refines m s op hR (hok op (by simp))
    obtain ⟨s', h2, h3, hR'⟩ := run_refines ops (Model.WsStream.step m op).1 s1 hR1 (fun o ho => hok o (by simp [ho]))
    refine ⟨s', ?_, ?_, ?_⟩
    · simp only [run, exec, h1]; exact h2
    · simp only [run, accepts, h1]; exact h3
    · simpa [final] using hR'

/-- **Main theorem.** For every maximum message size and every sequence of peer events {any frame — data, ping, pong,
valid or invalid close, every framing violation, frames over the maximum —, transport EOF, transport error} and local
calls {NextFrame, NextMessage, Write, WriteFrame, Flush, Close, blocking and asynchronous}, the RFC 6455 monitor accepts
everything the model of stream.go returns, reports through `State()`/`Pending()`, and puts on the wire. -/
theorem C08_refines (max : Nat) (ops : List Op) (h : OpsOk ops) :
    accepts (init max) (run (new max) ops) = true := by
  obtain ⟨_, _, hacc, _⟩ := run_refines ops _ _ (R_init max) h
  exact hacc

/-- No operation sequence makes the client panic. -/
theorem C08_no_panic (max : Nat) (ops : List Op) (h : OpsOk ops) :
    ∀ x ∈ run (new max) ops, x.2 ≠ Obs.panic := by
  have hacc := C08_refines max ops h
  generalize run (new max) ops = tr at hacc
  generalize init max = s at hacc
  induction tr generalizing s with
  | nil => intro x hx; cases hx
  | cons y r ih =>
    intro x hx
    obtain ⟨op, ob⟩ := y
    simp only [accepts] at hacc
    cases hs : Spec.WsStream.step s op ob with
    | none => simp [hs] at hacc
    | some s' =>
      simp only [hs] at hacc
      rcases List.mem_cons.1 hx with hx | hx
      · subst hx
        intro hp
        simp only at hp
        subst hp
        simp [Spec.WsStream.step] at hs
      · exact ih s' hacc x hx

/-- **At most one Close frame, and nothing after it.** In every reachable state the sequence `wire ++ pending`
(everything the client has written or queued) contains at most one Close frame and no frame at all behind it. This is
the clause that failed before commit ae6a367 (a violation received in `closedByUs` queued a second Close). -/
theorem C08_one_close_on_wire (max : Nat) (ops : List Op) (h : OpsOk ops) :
    ((out (final (new max) ops)).filter OutFrame.isClose).length ≤ 1 ∧
    ∀ pre x post, out (final (new max) ops) = pre ++ x :: post → x.isClose = true → post = [] := by
  obtain ⟨s', _, _, hR⟩ := run_refines ops _ _ (R_init max) h
  exact ⟨closeLast_count hR.1.cl, closeLast_nothing_after hR.1.cl⟩

/-- While the client is `active` no Close frame has been written or queued. -/
theorem C08_no_close_while_active (max : Nat) (ops : List Op) (h : OpsOk ops)
    (ha : (final (new max) ops).state = .active) : ∀ x ∈ out (final (new max) ops), x.isClose = false := by
  obtain ⟨s', _, _, hR⟩ := run_refines ops _ _ (R_init max) h
  exact hR.1.nc ha

/-- **`State()` reflects the stage.** After every history the monitor's stage (open / our Close is out / the peer's
Close was answered / our Close was acknowledged / aborted) and the reported state agree as tabulated by `stateOk`:
open ↔ `active`, closing ↔ `closedByUs`, peer-closed ↔ `closedByPeer`, acked ↔ `closeAcked`, aborted ↔ `terminated`;
in the two completed stages `terminated` is also reported once a read has returned end-of-stream (the asynchronous read
path sets it, the blocking one does not — both are in the model). The state is never `handshake`. -/
theorem C08_state_reflects (max : Nat) (ops : List Op) (h : OpsOk ops) :
    ∃ s, exec (init max) (run (new max) ops) = some s ∧
      stateOk s.stage s.ended (final (new max) ops).state = true ∧ (final (new max) ops).state ≠ .handshake := by
  obtain ⟨s', h1, _, hR⟩ := run_refines ops _ _ (R_init max) h
  refine ⟨s', h1, hR.1.st, ?_⟩
  intro hx
  have := hR.1.st
  rw [hx] at this
  cases hs : s'.stage <;> simp [stateOk, hs] at this

/-- The table itself. -/
theorem stateOk_table (ended : Bool) (st : StreamState) :
    (stateOk .opened ended st = true ↔ st = .active) ∧
    (stateOk .closing ended st = true ↔ st = .closedByUs) ∧
    (stateOk .peerClosed ended st = true ↔ st = .closedByPeer ∨ (ended = true ∧ st = .terminated)) ∧
    (stateOk .acked ended st = true ↔ st = .closeAcked ∨ (ended = true ∧ st = .terminated)) ∧
    (stateOk .aborted ended st = true ↔ st = .terminated) := by
  cases st <;> cases ended <;> simp [stateOk]

/-- **Ping/Pong.** A conforming Ping read by NextFrame/AsyncNextFrame is delivered without error; while `active` exactly
one Pong with the identical payload is appended behind everything submitted before (so Pongs go out in arrival order),
otherwise nothing is appended. A conforming Pong is delivered and never answered. A message written afterwards is
appended behind, and `Write` leaves nothing pending: the Pong is on the wire ahead of it. -/
theorem C08_pong (m : M) (async : Bool) (f : InFrame) (rest : List InFrame) (hq : m.inq = f :: rest)
    (hr : canRead m = true) (hconf : isViolation f = false) (hmax : f.payload.length ≤ m.max) :
    (f.op = 9 → ∃ m', nextFrame async m = some (m', .nil, some f) ∧ m'.state = m.state ∧
        out m' = out m ++ (if m.state = .active then [pong f.payload] else [])) ∧
    (f.op = 10 → ∃ m', nextFrame async m = some (m', .nil, some f) ∧ m'.state = m.state ∧ out m' = out m) ∧
    (∀ ty payload, m.state = .active → payload.length ≤ m.max →
        out (write m ty payload).1 = out m ++ [{ fin := true, op := ty % 16, masked := true, payload := payload }] ∧
        (write m ty payload).1.pending = [] ∧ (write m ty payload).2 = .nil) := by
  have h := nextFrame_conform m async f rest hq hr hconf hmax
  refine ⟨?_, ?_, ?_⟩
  · intro h9
    refine ⟨_, h, ?_, ?_⟩
    · unfold conform; simp only [h9, if_true]; split <;> rfl
    · unfold conform; simp only [h9, if_true]
      have hs : (deq (flush m) rest).state = m.state := rfl
      rw [hs]
      by_cases ha : m.state = .active
      · simp only [ha, if_true]
        rw [out_prepareWrite]; simp [out, deq, flush, pong]
      · simp only [ha, if_false]; simp [out, deq, flush]
  · intro h10
    refine ⟨_, h, ?_, ?_⟩
    · unfold conform; simp [h10]; rfl
    · unfold conform; simp [h10, out, deq, flush]
  · intro ty payload ha hlen
    have hgt : ¬ payload.length > m.max := by omega
    unfold write
    simp only [hgt, if_false, ha, beq_self_eq_true, if_true]
    refine ⟨?_, ?_, ?_⟩
    · rw [out_flush, out_prepareWrite]
    · first | rfl | trivial
    · first | rfl | trivial

/-- Once the closing handshake is over (or the transport ended) reads report end-of-stream without consuming anything
and every application write is refused; `Close` reports an error too. Nothing is written or queued. -/
theorem closed_refuses (m : M) (hs : m.state = .closedByPeer ∨ m.state = .closeAcked ∨ m.state = .terminated) :
    (∀ async, ∃ m', nextFrame async m = some (m', .eof, none) ∧ m'.inq = m.inq ∧ out m' = out m) ∧
    (∀ ty p, (write m ty p).2 ≠ .nil ∧ (write m ty p).1 = m) ∧
    (∀ fin op p, writeFrame m fin op p = (m, .cancelled)) ∧
    (∀ code reason, close m code reason = (m, .eof)) := by
  have hcr : canRead m = false := by
    rcases hs with h | h | h <;> simp [canRead, h]
  have hna : (m.state == StreamState.active) = false := by
    rcases hs with h | h | h <;> simp [h]
  refine ⟨?_, ?_, ?_, ?_⟩
  · intro async
    obtain ⟨m', h1, h2, h3, _⟩ := nextFrame_gated m async hcr
    exact ⟨m', h1, h2, h3⟩
  · intro ty p
    unfold write
    by_cases hb : p.length > m.max
    · simp [hb]
    · simp [hb, hna]
  · intro fin op p; unfold writeFrame; simp [hna]
  · intro code reason; unfold close
    rcases hs with h | h | h <;> simp [h]

/-- **Close from the peer.** A conforming Close read while `active` is delivered without error, the state becomes
`closedByPeer`, and exactly one Close frame is appended whose status code is the peer's (1000 if it carried none, 1002 if
its payload was invalid: one byte, a code that may not be sent, a reason that is not UTF-8). From then on
`closed_refuses` applies: reads report end-of-stream, writes are refused. -/
theorem C08_peer_close (m : M) (async : Bool) (f : InFrame) (rest : List InFrame) (hq : m.inq = f :: rest)
    (ha : m.state = .active) (hconf : isViolation f = false) (hop : f.op = 8) (hmax : f.payload.length ≤ m.max) :
    ∃ m' reply, nextFrame async m = some (m', .nil, some f) ∧ m'.state = .closedByPeer ∧
      out m' = out m ++ [reply] ∧ reply.fin = true ∧ reply.op = 8 ∧ reply.masked = true ∧
      reply.payload.take 2 = u16 (replyCode f.payload) ∧
      (replyCode f.payload = if f.payload = [] then 1000
        else if f.payload.length < 2 ∨ utf8Valid (f.payload.drop 2) = false ∨
          validCloseCode (closeCodeOf f.payload) = false then 1002 else closeCodeOf f.payload) := by
  have hr : canRead m = true := by simp [canRead, ha]
  have h := nextFrame_conform m async f rest hq hr hconf hmax
  have hs : (deq (flush m) rest).state = .active := ha
  have h9 : f.op ≠ 9 := by omega
  refine ⟨_, { fin := true, op := 8, masked := true, payload := replyPayload f.payload }, h, ?_, ?_, rfl, rfl, rfl,
    reply_match f.payload, ?_⟩
  · unfold conform; simp only [h9, hop, if_false, if_true, hs]; rfl
  · unfold conform; simp only [h9, hop, if_false, if_true, hs]
    show out (prepareWrite _ _) = _
    rw [out_prepareWrite]; simp [out, deq, flush]
  · unfold replyCode
    by_cases h0 : f.payload = []
    · simp [h0]
    · have hl : f.payload.length ≠ 0 := by simpa using h0
      simp only [hl, h0, if_false]
      by_cases h1 : f.payload.length < 2 <;> by_cases h2 : utf8Valid (f.payload.drop 2) = false <;>
        by_cases h3 : validCloseCode (closeCodeOf f.payload) = false <;> simp [h1, h2, h3]

/-- **Close started locally.** `Close`/`AsyncClose` on an `active` stream appends exactly one Close frame with the given
code and reason, flushes, and moves to `closedByUs`. In `closedByUs` application writes and a second `Close` are
refused while reads continue: a conforming data frame is still delivered, a Ping is delivered but not answered, and the
peer's Close completes the handshake (`closeAcked`) without a second Close frame. -/
theorem C08_local_close (m : M) :
    (m.state = .active → ∀ code reason,
      (close m code reason).2 = .nil ∧ (close m code reason).1.state = .closedByUs ∧
      (close m code reason).1.pending = [] ∧
      out (close m code reason).1 = out m ++ [{ fin := true, op := 8, masked := true, payload := u16 code ++ reason }]) ∧
    (m.state = .closedByUs →
      (∀ ty p, (write m ty p).2 ≠ .nil ∧ (write m ty p).1 = m) ∧
      (∀ fin op p, writeFrame m fin op p = (m, .cancelled)) ∧
      (∀ code reason, close m code reason = (m, .cancelled)) ∧
      (∀ async f rest, m.inq = f :: rest → isViolation f = false → f.payload.length ≤ m.max →
        ∃ m', nextFrame async m = some (m', .nil, some f) ∧ out m' = out m ∧
          m'.state = (if f.op = 8 then .closeAcked else .closedByUs))) := by
  constructor
  · intro ha code reason
    unfold close
    simp only [ha]
    refine ⟨?_, ?_, ?_, ?_⟩
    · first | rfl | trivial
    · first | rfl | trivial
    · first | rfl | trivial
    · rw [out_flush]
      show out (prepareWrite _ _) = _
      rw [out_prepareWrite]; simp [out]
  · intro hc
    have hna : (m.state == StreamState.active) = false := by simp [hc]
    refine ⟨?_, ?_, ?_, ?_⟩
    · intro ty p
      unfold write
      by_cases hb : p.length > m.max
      · simp [hb]
      · simp [hb, hna]
    · intro fin op p; unfold writeFrame; simp [hna]
    · intro code reason; unfold close; simp [hc]
    · intro async f rest hq hconf hmax
      have hr : canRead m = true := by simp [canRead, hc]
      have h := nextFrame_conform m async f rest hq hr hconf hmax
      have hs : (deq (flush m) rest).state = .closedByUs := hc
      have hsa : ¬ (deq (flush m) rest).state = .active := by rw [hs]; simp
      refine ⟨_, h, ?_, ?_⟩
      · unfold conform
        by_cases h9 : f.op = 9
        · simp [h9, hc, out, deq, flush]
        · by_cases h8 : f.op = 8
          · simp [h8, hc, out, deq, flush]
          · simp [h9, h8, out, deq, flush]
      · unfold conform
        by_cases h9 : f.op = 9
        · simp [h9, hc, deq, flush]
        · by_cases h8 : f.op = 8
          · simp [h8, hc, deq, flush]
          · simp [h9, h8, hc, deq, flush]

/-- **Unexpected end of the transport.** When the transport ends while the closing handshake is not complete, the
frame API returns `EOF` together with a Close frame carrying 1006 (which is *not* sent), the message API returns `EOF`,
the state becomes `terminated`, and nothing is written. -/
theorem C08_abnormal (m : M) (async : Bool) (hr : canRead m = true) (hq : m.inq = []) (he : m.rerr = false)
    (heof : m.eof = true) :
    (∃ m', nextFrame async m = some (m', .eof, some close1006) ∧ m'.state = .terminated ∧ out m' = out m) ∧
    close1006.op = 8 ∧ close1006.payload = u16 1006 ∧
    (∀ buf fuel a, ∃ m', nextMessage async buf (fuel + 1) m a = some (m', .eof, a) ∧ m'.state = .terminated ∧
      out m' = out m) := by
  have hr' : canRead (flush m) = true := hr
  have hq' : (flush m).inq = [] := hq
  have he' : (flush m).rerr = false := he
  have hf' : (flush m).eof = true := heof
  have hnf : nextFrame async m = some ({ flush m with state := .terminated }, .eof, some close1006) := by
    unfold nextFrame
    simp only [hr', Bool.not_true, Bool.false_eq_true, if_false]
    unfold nextFrameInner readNext
    simp only [hq', he', hf', Bool.false_eq_true, if_false, if_true]
    cases async <;> simp
  refine ⟨⟨_, hnf, rfl, ?_⟩, rfl, rfl, ?_⟩
  · simp [out, flush]
  · intro buf fuel a
    refine ⟨{ flush m with state := .terminated }, ?_, rfl, by simp [out, flush]⟩
    rw [nextMessage]
    simp [hnf]

/-! ## Non-vacuity -/

/-- A script that meets `OpsOk`, reaches every part of the machine, and whose trace the monitor accepts (by the
theorem) — computed here as well. -/
def demo : List Op :=
  [.peer { fin := true, rsv := 0, op := 9, masked := false, payload := [1, 2] }, .nextFrame false,
   .write false 1 [104, 105],
   .close true 1000 [],
   .peer { fin := true, rsv := 4, op := 1, masked := false, payload := [0] }, .nextMsg true 8,
   .peer { fin := true, rsv := 0, op := 8, masked := false, payload := u16 1000 }, .nextFrame true, .nextFrame false]

example : OpsOk demo := by decide
example : accepts (init 16) (run (new 16) demo) = true := by decide
example : (final (new 16) demo).state = .closeAcked := by decide
example : out (final (new 16) demo) =
    [pong [1, 2], { fin := true, op := 1, masked := true, payload := [104, 105] },
     { fin := true, op := 8, masked := true, payload := u16 1000 }] := by decide

/-- The monitor is not trivially accepting: the pre-ae6a367 behaviour (a second Close queued after a violation in
`closedByUs`) is rejected, as are an unanswered Ping, an answered Pong and a wrong close code. -/
example : accepts (init 16)
    [(.close false 1000 [], .ok (.call .nil) ⟨.closedByUs, 0, [{ fin := true, op := 8, masked := true, payload := u16 1000 }]⟩),
     (.peer { fin := true, rsv := 4, op := 1, masked := false, payload := [] }, .ok .none ⟨.closedByUs, 0, []⟩),
     (.nextFrame false, .ok (.frame (.proto .rsv) none) ⟨.closedByUs, 1, []⟩)] = false := by decide
example : accepts (init 16)
    [(.peer { fin := true, rsv := 0, op := 9, masked := false, payload := [7] }, .ok .none ⟨.active, 0, []⟩),
     (.nextFrame false, .ok (.frame .nil (some { fin := true, rsv := 0, op := 9, masked := false, payload := [7] }))
        ⟨.active, 0, []⟩)] = false := by decide
example : accepts (init 16)
    [(.peer { fin := true, rsv := 0, op := 10, masked := false, payload := [7] }, .ok .none ⟨.active, 0, []⟩),
     (.nextFrame false, .ok (.frame .nil (some { fin := true, rsv := 0, op := 10, masked := false, payload := [7] }))
        ⟨.active, 1, []⟩)] = false := by decide
example : accepts (init 16)
    [(.peer { fin := true, rsv := 0, op := 8, masked := false, payload := u16 1001 }, .ok .none ⟨.active, 0, []⟩),
     (.nextFrame false, .ok (.frame .nil (some { fin := true, rsv := 0, op := 8, masked := false, payload := u16 1001 }))
        ⟨.closedByPeer, 1, []⟩),
     (.flush false, .ok (.call .nil) ⟨.closedByPeer, 0, [{ fin := true, op := 8, masked := true, payload := u16 1000 }]⟩)]
    = false := by decide

end Sonic.Props.C08
