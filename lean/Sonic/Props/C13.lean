/-
C13 — No descriptor leaks, no foreign close, owners of in-flight operations stay alive.

Three layers.

1. **Path table** (`Sonic.Gen.Resources`, regenerated from the Go sources by `tools/respaths` on every run): every
   control-flow path of every constructor / connect / accept / handshake function and of every `Close` method, as a
   list of acquire / release events.  The theorems below quantify over *every path of every function in that table*
   and are closed by `decide`: the table is the quantifier's domain, so this is a proof about the extracted paths —
   deleting one `Close` from an error path, or a `closed` guard, changes the table and breaks them.
2. **Descriptor-table model** (`Sonic.Model.Resources`): objects with guarded `Close`, arbitrary kernel allocation;
   no close ever hits a descriptor the closing object does not own at that moment, for all interleavings of creation
   and repeated Close (unbounded induction).
3. **Registry invariant** over the loop model (`Sonic.Model.Loop`): an object with a registered interest is held by
   the IO registry in every reachable state (the garbage collector cannot free what epoll still points to).

Outside the theorems (checked on the real code by the `fds` harness component): which calls acquire or release is a
configured list; closing a live descriptor succeeds; the Go collector honours reachability.
-/
import Sonic.Lemmas.ResFds
import Sonic.Lemmas.ResRefine
import Sonic.Lemmas.LoopReg

namespace Sonic.Props.C13
open Sonic.Model.ResPath Sonic.Gen.Resources

/-! ## 1. The path table -/

/-- The single failure path in the table that returns a live descriptor *together with* the error:
`listener.accept` ends in `return conn, syscall.SetNonblock(conn.RawFd(), true)`, so if `SetNonblock` failed on the
connection just accepted the caller would get both the connection and the error (it can still close it). Not
provokable from outside; kept visible here instead of being hidden in the extractor. -/
def handedException (f : Func) (p : Path) : Bool :=
  p.term == .fail [0] && p.evs.getLast? == some (.step "syscall.SetNonblock" false) && f.name == "sonic.listener.accept"

/-- What `C13_no_leak` says about one path. -/
def noLeak (f : Func) (p : Path) : Bool :=
  !p.term.isFail || (p.balanced && (p.term.ids.isEmpty || handedException f p))

/-- **No leak on failure.** For every listed function and every path through it that ends in a failure return (any
step failed, including every `EMFILE` point and the ones that cannot be provoked from outside): the path never
releases something it does not hold, and when it returns every resource it acquired has been released — descriptors,
the temporary file's name, the memory mapping alike. (One named exception hands the descriptor to the caller.) -/
theorem C13_no_leak : ∀ f ∈ constructors, ∀ p ∈ f.paths, p.term.isFail = true →
    ∃ live, run [] p.evs = some live ∧ sameSet live p.term.ids = true ∧
      (p.term.ids = [] ∨ handedException f p = true) := by
  have h : (constructors.all fun f => f.paths.all (noLeak f)) = true := by decide
  intro f hf p hp hfail
  have hp' := List.all_eq_true.1 (List.all_eq_true.1 h f hf) p hp
  simp only [noLeak, hfail, Bool.not_true, Bool.false_or, Bool.and_eq_true, Bool.or_eq_true, List.isEmpty_iff] at hp'
  obtain ⟨hb, hx⟩ := hp'
  unfold Path.balanced at hb
  cases hr : run [] p.evs with
  | none => simp [hr] at hb
  | some live => exact ⟨live, rfl, by simpa [hr] using hb, hx⟩

open Sonic.Model.Resources in
/-- **… the descriptor table afterwards equals the table before.** For every failure path that hands nothing to its
caller, and *every* set `T` of descriptors open beforehand: interpreting the path's descriptor events against `T` with
the kernel's lowest-free allocation succeeds and ends with exactly the descriptors of `T` open again (this includes
the k-th allocation failing with `EMFILE`, for every k: each acquisition has its own failure path in the table). -/
theorem C13_no_leak_table : ∀ f ∈ constructors, ∀ p ∈ f.paths, p.term = .fail [] → ∀ T : List Nat,
    ∃ T', runFds (T, []) p.evs = some (T', []) ∧ ∀ fd, fd ∈ T' ↔ fd ∈ T := by
  intro f hf p hp ht T
  obtain ⟨live, hrun, hsame, _⟩ := C13_no_leak f hf p hp (by rw [ht]; rfl)
  have hl : live = [] := by
    cases live with
    | nil => rfl
    | cons a r => rw [ht] at hsame; simp [sameSet, Term.ids] at hsame
  rw [hl] at hrun
  exact runFds_restores p.evs hrun T

open Sonic.Model.Resources in
/-- A successful `NewIO` on a table with holes takes the two lowest free numbers (non-vacuity of the table semantics). -/
example : runFds ([0, 1, 2, 4], []) [.acquire 0 .fd "syscall.EpollCreate1", .call 0 "internal.NewEventFd" [(1, .fd)]]
    = some ([5, 3, 0, 1, 2, 4], [(1, 5), (0, 3)]) := by decide

/-- The exception really is a single path of `listener.accept`. -/
theorem C13_handed_only_accept :
    ((constructors.flatMap fun f => f.paths.filter (fun p => p.term.isFail && !p.term.ids.isEmpty)).length = 1) := by decide

/-- **On success the object owns exactly what is left open.** Every ok-return leaves live precisely the resources
reachable from the returned values (or the receiver), and at least one. -/
theorem C13_ok_owns_exactly : ∀ f ∈ constructors, ∀ p ∈ f.paths, p.term.isFail = false →
    ∃ live, run [] p.evs = some live ∧ sameSet live p.term.ids = true ∧ p.term.ids ≠ [] := by
  have h : (constructors.all fun f => f.paths.all fun p => p.term.isFail || (p.balanced && !p.term.ids.isEmpty)) = true := by decide
  intro f hf p hp hok
  have hp' := List.all_eq_true.1 (List.all_eq_true.1 h f hf) p hp
  simp only [hok, Bool.false_or, Bool.and_eq_true, Bool.not_eq_true', List.isEmpty_eq_false_iff] at hp'
  obtain ⟨hb, hne⟩ := hp'
  unfold Path.balanced at hb
  cases hr : run [] p.evs with
  | none => simp [hr] at hb
  | some live => exact ⟨live, rfl, by simpa [hr] using hb, hne⟩

/-- **The interprocedural summaries are sound.** Whenever a path records "callee `g` succeeded and handed over
resources of classes `cs`", `g` is an earlier entry of the same table, has a success path, and *every* success path of
`g` owns resources of exactly those classes; a failed call contributes nothing, which is `C13_no_leak` for `g`. -/
theorem C13_calls_justified : ∀ i, ∀ f, constructors[i]? = some f → ∀ p ∈ f.paths, ∀ e ∈ p.evs,
    callJustified constructors i e = true := by
  have h : ((List.range constructors.length).all fun i =>
      match constructors[i]? with
      | some f => f.paths.all fun p => p.evs.all (callJustified constructors i)
      | none => false) = true := by decide
  intro i f hi p hp e he
  have hlt : i < constructors.length := by
    rcases Nat.lt_or_ge i constructors.length with h1 | h1
    · exact h1
    · rw [List.getElem?_eq_none h1] at hi; cases hi
  have h1 := List.all_eq_true.1 h i (List.mem_range.2 hlt)
  simp only [hi] at h1
  exact List.all_eq_true.1 (List.all_eq_true.1 h1 p hp) e he

/-- **Every configured function was translated** (nothing fell back to a hand-written step list, nothing was skipped),
and the table lists exactly the configured functions. -/
theorem C13_table_complete :
    untranslatable = [] ∧ (constructors.map (·.name) ++ closeOnce.map (·.name)) = configured ∧
    closeTwice.map (·.name) = closeOnce.map (·.name) ∧
    (constructors.all fun f => !f.paths.isEmpty) = true ∧ (closeOnce.all fun f => !f.paths.isEmpty) = true ∧
    (closeTwice.all fun f => !f.paths.isEmpty) = true := by decide

/-- **Close releases exactly what the object owns** (table form). Every path of every `Close` method, entered with the
object's descriptors (or mapping) live, releases each of them exactly once and nothing else, whatever it returns. -/
theorem C13_close_exact : ∀ f ∈ closeOnce, ∀ p ∈ f.paths, run [] p.evs = some [] := by
  have h : (closeOnce.all fun f => f.paths.all fun p => run [] p.evs == some []) = true := by decide
  intro f hf p hp
  simpa using List.all_eq_true.1 (List.all_eq_true.1 h f hf) p hp

/-- **A second Close releases nothing** (table form): on every path of `Close(); Close()` no release hits a resource
that is no longer live — i.e. the closed flag (or `fd = -1`, `conn = nil`, `slice = nil`, the timer state) keeps the
stored descriptor number from being closed again after the kernel may have reused it. -/
theorem C13_close_twice_safe : ∀ f ∈ closeTwice, ∀ p ∈ f.paths, run [] p.evs = some [] := by
  have h : (closeTwice.all fun f => f.paths.all fun p => run [] p.evs == some []) = true := by decide
  intro f hf p hp
  simpa using List.all_eq_true.1 (List.all_eq_true.1 h f hf) p hp

/-- The interpreter does reject a double release: the listener's `Close(); Close()` path as it was before the repair
a913e9d (no guard) is not accepted. -/
example : run [] [.acquire 0 .fd "owned at entry", .release 0 "syscall.Close", .mark "again", .release 0 "syscall.Close"] = none := by decide

/-- … and it does report a leak: `ConnectTCP` as it was before ee61305 (no Close when `connect` fails). -/
example : Path.balanced { evs := [.call 6 "internal.CreateSocketTCP" [(0, .fd)], .step "connect" false], term := .fail [], line := 0 } = false := by decide

/-- The table is not trivial: more than twenty functions with more than a hundred distinct paths, a dozen Close methods. -/
example : 20 ≤ constructors.length ∧ 10 ≤ closeOnce.length ∧ 100 ≤ (constructors.flatMap (·.paths)).length := by decide

/-! ## 2. Close / create interleavings over the descriptor table -/

open Sonic.Model.Resources in
/-- **No foreign close.** For every interleaving — any list of operations, any object count, any descriptor numbers the
kernel chooses to hand out (lowest free or otherwise), any number of repeated `Close` calls — every `close(fd)` the
library issues targets a descriptor that the closing object owns at that moment. -/
theorem C13_no_foreign_close (ops : List Op) (w : World) (h : run true {} ops = some w) :
    ∀ e ∈ w.log, e.foreign = false := by
  intro e he
  have := (run_inv {} w ops inv_init h).log e he
  simp [CloseEv.foreign, this]

open Sonic.Model.Resources in
/-- **The property monitor accepts the model** (refinement): for every operation list the model can execute, the
sequence of observations a process would make of it (numbers handed to each new object, descriptors open after every
operation) is accepted by `Sonic.Spec.Resources`, the monitor the real library's traces are checked with. -/
theorem C13_model_accepted (ops : List Op) (tr : List (Sonic.Spec.Resources.Op × Sonic.Spec.Resources.Obs))
    (h : trace {} ops = some tr) : Sonic.Spec.Resources.accepts {} tr = true :=
  trace_accepted ops {} {} tr inv_init rfl h

/-- The monitor is not trivially accepting: the observation of the unrepaired listener (after `Close; new pipe; Close`
the pipe's descriptor 5 is gone) is rejected as a foreign close; so is a Close that leaves the object's descriptor open. -/
example : Sonic.Spec.Resources.accepts {} [(.new 1 "listener", .created [5] [5]), (.close 1, .closed []),
    (.new 2 "pipe", .created [5, 6] [5, 6]), (.close 1, .closed [6])] = false := by decide
example : (match Sonic.Spec.Resources.step { open_ := [(5, 1), (6, 2)] } (.close 1) (.closed [5, 6]) with
    | .error k => k == "close-not-exact" | .ok _ => false) = true := by decide
example : Sonic.Spec.Resources.accepts {} [(.new 1 "listener", .created [5] [5]), (.close 1, .closed []),
    (.new 2 "pipe", .created [5, 6] [5, 6]), (.close 1, .closed [5, 6]), (.close 2, .closed [])] = true := by decide

open Sonic.Model.Resources in
/-- **Close is exact** (model form): the first `Close` of an object removes precisely its descriptors from the table,
a later one changes nothing at all. -/
theorem C13_close_exact_model (w w' : World) (k : Nat) (o : Obj) (hg : getObj w k = some o)
    (h : step true w (.close k) = some w') :
    (o.closed = true → w' = w) ∧
    (o.closed = false → ∀ fd a, (fd, a) ∈ w'.table ↔ ((fd, a) ∈ w.table ∧ fd ∉ o.fds)) := by
  simp only [step, hg] at h
  constructor
  · intro hc; simp [hc] at h; exact h.symm
  · intro hc
    simp [hc] at h
    cases h
    intro fd a
    simp [List.mem_filter]

open Sonic.Model.Resources in
/-- Without the guard (the code before a913e9d / ace3dfc) the same model exhibits the defect: listener 1 is closed, a
pipe (object 2) receives the freed number 5, the listener is closed again — and closes the pipe's descriptor. -/
theorem C13_unguarded_closes_foreign :
    ∃ w, run false {} [.new 1 [5], .close 1, .new 2 [5, 6], .close 1] = some w ∧ w.log.any (·.foreign) = true ∧
      isOpen w 5 = false :=
  ⟨_, rfl, by decide, by decide⟩

open Sonic.Model.Resources in
/-- The same script under the guard: the pipe keeps both descriptors. -/
example : (run true {} [.new 1 [5], .close 1, .new 2 [5, 6], .close 1, .close 1]).map (fun w => (isOpen w 5, isOpen w 6, w.log.length))
    = some (true, true, 1) := by decide

open Sonic.Model.Resources in
/-- **The kernel's policy is an instance**: the lowest free number is not open (so `Op.new` with lowest-free numbers is
always possible) and every smaller number is in use. -/
theorem C13_lowest_free (used : List Nat) :
    used.contains (lowestFree used) = false ∧ ∀ i, i < lowestFree used → used.contains i = true :=
  ⟨lowestFree_not_mem used, lowestFree_least used⟩

open Sonic.Model.Resources in
example : lowestFree [0, 1, 2, 5, 3, 7] = 4 ∧ allocN [0, 1, 2, 4] 3 = [3, 5, 6] := by decide

/-! ## 3. Owners of in-flight operations stay registered -/

open Sonic.Model.Loop in
/-- **Registered while interested.** In every state the event loop model can reach, by any history of API calls,
completions, cancellations, closes, polls, timers and posts, every stream / file / adapter / listener / packet
connection that still has a read or write interest registered with the poller (epoll holds a raw pointer to its slot)
is held by the IO registry — in particular after *one* of its two directions completed. Hence the owner of an
operation in flight is reachable, and the collector cannot free it, until the completion has been delivered. -/
theorem C13_registered_while_interested (evs : List Sonic.Spec.Loop.Ev) (w : World) (h : run {} evs = some w) :
    ∀ o ∈ w.objs, o.kind ≠ .timer → (o.evR || o.evW) = true → o.registered = true :=
  fun o hm => run_reg {} w evs regInv_init h o hm

open Sonic.Model.Loop Sonic.Spec.Loop in
/-- Non-vacuity: a deferred read and a deferred write on one connection, the write completes (poll dispatch), the read
is still in flight — interest and registry entry are both there. -/
example : (Sonic.Model.Loop.run {} [.obj 1 .stream, .callSetDisp 32, .ret .plain,
      .callStart 7 1 .read 4, .ret .plain, .callStart 8 1 .write 4, .ret .plain,
      .callSetDisp 0, .ret .plain, .callPoll, .enter 8 .ok 4 [] false]).map
      (fun w => w.objs.map fun o => (o.evR, o.evW, o.registered)) = some [(true, false, true)] := by decide

/-- The invariant is not a tautology of the model's vocabulary: an object record with an interest and no registry
entry — what `onWrite` produced before the repair 3b1c672 — violates it. -/
example : ¬ Sonic.Model.Loop.RegOk { id := 1, kind := .stream, evR := true, registered := false } := by
  intro h; exact absurd (h (by decide) (by decide)) (by decide)

end Sonic.Props.C13
