/-
C11 — MirroredBuffer is a contiguous-claim ring for every accepted size.

Theorems are stated about `Sonic.Gen.MirroredBuffer`, the index logic regenerated from
bytes/mirrored_buffer.go on every run, wrapped by `Sonic.Model.Mirrored` (hand-modelled: the
constructor's size rounding and the memory behind the double mapping), and about the abstract
monitor `Sonic.Spec.Mirrored` (a ring of exactly `size` physical cells, the queue of used cells).

Outside the theorems (OS behaviour, checked by the harness against the real mapping on every run):
that virtual position `v` of the double mapping is physical cell `v % size`, and that `Destroy`
releases the mappings and the backing file.
-/
import Sonic.Lemmas.MirroredRefine

namespace Sonic.Props.C11
open Sonic.Gen.MirroredBuffer Sonic.Spec.Mirrored Sonic.Model.Mirrored
open Sonic.Spec.Bip (imin cells mem_cells)

/-- **The compact monitor the driver executes is sound for the reference monitor**: any trace (of
the implementation, the model, anything) with non-negative amounts that the compact monitor
accepts is accepted by the cell-queue monitor. -/
theorem compact_sound (c : C) (s : S) (tr : List (Op × Obs)) (hR : R2 c s) (hops : ∀ x ∈ tr, OpOk x.1)
    (h : caccepts c tr = true) : accepts s tr = true := by
  induction tr generalizing c s with
  | nil => rfl
  | cons x r ih =>
    obtain ⟨op, ob⟩ := x
    simp only [caccepts] at h
    cases hc : cstep c op ob with
    | none => rw [hc] at h; exact absurd h (by simp)
    | some c' =>
      rw [hc] at h
      obtain ⟨s', h1, h2⟩ := compact_step_sound c c' s op ob hR (hops (op, ob) (List.mem_cons_self ..)) hc
      simp only [accepts, h1]
      exact ih c' s' h2 (fun y hy => hops y (List.mem_cons_of_mem _ hy)) h

theorem run_ops (m : St) (ops : List Op) : ∀ x ∈ run m ops, x.1 ∈ ops := by
  induction ops generalizing m with
  | nil => intro x hx; simp [run] at hx
  | cons op r ih =>
    intro x hx
    simp only [run, List.mem_cons] at hx
    rcases hx with rfl | hx
    · exact List.mem_cons_self ..
    · exact List.mem_cons_of_mem _ (ih _ x hx)

/-! ## The property -/

/-- **C11 (main theorem).** For every page size, every request (so every size the constructor
accepts: any positive multiple of the page size, power of two or not, rounded up or not) and every
sequence of New/Claim/Commit/Consume/UsedSpace/FreeSpace/Full/Size/Reset/Prefault/Destroy calls,
writes through claims and reads of the double mapping, with non-negative amounts of any magnitude,
everything the implementation (index logic as translated from mirrored_buffer.go) answers is accepted
by the cell-queue monitor: a claim is `min n free` contiguous bytes inside the double mapping that
start at the ring position after the newest committed byte and touch no used cell; a commit appends
exactly `min n free` cells consecutively on the ring; a consume frees exactly the oldest
`min n used` cells; used + free = size. -/
theorem C11_ring_for_every_accepted_size (ops : List Op) (hops : ∀ op ∈ ops, OpOk op) :
    accepts dead (run Model.Mirrored.init ops) = true := by
  apply compact_sound cdead dead _ R2_dead
  · intro x hx; exact hops _ (run_ops _ _ x hx)
  · exact run_accepted1 _ _ _ ⟨rfl, rfl, rfl, Or.inl ⟨rfl, rfl⟩⟩ hops

/-- The same, stated for a buffer of an arbitrary positive size directly (no page size involved):
the index logic is a ring for EVERY `size > 0` whose double mapping `2 * size` is an `int`. -/
theorem C11_ring_for_every_positive_size (size : Int) (h0 : 0 < size) (h1 : 2 * size ≤ Go.I64MAX)
    (ops : List Op) (hops : ∀ op ∈ ops, OpOk op) :
    accepts (fresh size) (run (live size) ops) = true := by
  apply compact_sound (cfresh size) (fresh size) _ (R2_fresh size h0)
  · intro x hx; exact hops _ (run_ops _ _ x hx)
  · exact run_accepted1 _ _ _ ⟨rfl, rfl, rfl, Or.inr ⟨mk size, rfl, inv_mk size h0 h1, rfl, rfl, rfl, rfl⟩⟩ hops

/-- The index invariant (`tail = (head + used) % size`, everything inside the ring) holds in every
reachable state, for every accepted size. -/
theorem C11_inv_reachable (ops : List Op) (hops : ∀ op ∈ ops, OpOk op) (b : MirroredBuffer)
    (h : (ops.foldl (fun m op => (Model.Mirrored.step m op).1) Model.Mirrored.init).buf = some b) : Inv b := by
  suffices hs : ∀ m c, R1 m c → ∀ b, (ops.foldl (fun m op => (Model.Mirrored.step m op).1) m).buf = some b → Inv b from
    hs _ cdead ⟨rfl, rfl, rfl, Or.inl ⟨rfl, rfl⟩⟩ b h
  clear h b
  induction ops with
  | nil =>
    intro m c hR b hb
    rcases hR.2.2.2 with ⟨h1, _⟩ | ⟨b', h1, h2, _⟩
    · rw [List.foldl_nil, h1] at hb; exact absurd hb (by simp)
    · rw [List.foldl_nil, h1] at hb; rw [← Option.some.inj hb]; exact h2
  | cons op r ih =>
    intro m c hR b hb
    obtain ⟨c', _, h2⟩ := step_refines1 m c op hR (hops op (List.mem_cons_self ..))
    exact ih (fun o ho => hops o (List.mem_cons_of_mem _ ho)) _ c' h2 b hb

/-- The used cells of an implementation state: `used` ring positions starting at `head`. -/
def usedCells (b : MirroredBuffer) : List Int := ringCells b.size b.head b.used

/-- **A claim never aliases a committed-but-unconsumed byte**, stated outright on the translated
code: `Claim n` returns exactly `min n free` contiguous bytes inside the double mapping, starting
at `tail`, and no virtual position of the claim is (through the mirroring `v ↦ v % size`) one of
the used cells `head, head+1, …, head+used-1 (mod size)`. -/
theorem C11_claim_free (b : MirroredBuffer) (n : Int) (hi : Inv b) (hn : 0 ≤ n) :
    (b.Claim n).valid = true ∧
    (b.Claim n).hi - (b.Claim n).lo = imin n (b.size - b.used) ∧
    (0 < imin n (b.size - b.used) → (b.Claim n).lo = b.tail ∧ (b.Claim n).hi ≤ 2 * b.size) ∧
    ∀ c ∈ usedCells b, ∀ v ∈ cells (b.Claim n).lo ((b.Claim n).hi - (b.Claim n).lo), v % b.size ≠ c := by
  obtain ⟨hv, hk, hlo⟩ := claim_facts b n hi hn
  have hi0 := hi
  unfold Inv at hi0
  have hk1 := imin_le_right n (b.size - b.used)
  refine ⟨hv, hk, fun hp => ⟨hlo hp, by have := hlo hp; omega⟩, ?_⟩
  intro c hc v hv'
  by_cases hp : 0 < imin n (b.size - b.used)
  · have hlo' := hlo hp
    have hcells : usedCells b = ringCells b.size (b.tail - b.used) b.used := by
      unfold usedCells
      apply ringCells_congr
      rw [hi0.2.2.2.2.2.2.2.2, Int.emod_sub_emod]
      congr 1; omega
    rw [hcells] at hc
    exact ring_disjoint (by omega) (by rw [hlo']) c hc v hv'
  · rw [hk, Sonic.Spec.Bip.cells_nonpos (by omega)] at hv'
    exact absurd hv' (by simp)

/-- **Successive commits occupy consecutive ring positions**: `Commit n` commits exactly
`k = min n free` bytes; the used cells afterwards are the used cells before followed by the `k`
cells behind the virtual positions `tail, tail+1, …` — the first `k` bytes of what `Claim` returns
in this state. -/
theorem C11_commit_consecutive (b : MirroredBuffer) (n : Int) (hi : Inv b) (hn : 0 ≤ n) :
    (b.Commit n).2 = imin n (b.size - b.used) ∧ Inv (b.Commit n).1 ∧
    (b.Commit n).1.size = b.size ∧
    usedCells (b.Commit n).1 = usedCells b ++ ringCells b.size b.tail (imin n (b.size - b.used)) := by
  have hinv := inv_commit b n hi hn
  have hi0 := hi
  unfold Inv at hi0
  have hk0 : 0 ≤ imin n (b.size - b.used) := imin_nonneg hn (by omega)
  rw [commit_facts b n hi hn] at hinv ⊢
  refine ⟨rfl, hinv, rfl, ?_⟩
  unfold usedCells
  dsimp only
  rw [← ringCells_append hi0.2.2.1 hk0]
  congr 1
  apply ringCells_congr
  rw [hi0.2.2.2.2.2.2.2.2, Int.emod_emod]

/-- **Consuming frees exactly the oldest bytes**: `Consume n` frees `k = min n used` bytes and the
used cells afterwards are the used cells before without their first `k`. -/
theorem C11_consume_oldest (b : MirroredBuffer) (n : Int) (hi : Inv b) (hn : 0 ≤ n) :
    (b.Consume n).2 = imin n b.used ∧ Inv (b.Consume n).1 ∧
    (b.Consume n).1.size = b.size ∧ (b.Consume n).1.tail = b.tail ∧
    usedCells (b.Consume n).1 = (usedCells b).drop (imin n b.used).toNat := by
  have hinv := inv_consume b n hi hn
  have hi0 := hi
  unfold Inv at hi0
  have hk0 : 0 ≤ imin n b.used := imin_nonneg hn (by omega)
  have hk1 := imin_le_right n b.used
  rw [consume_facts b n hi hn] at hinv ⊢
  refine ⟨rfl, hinv, rfl, rfl, ?_⟩
  unfold usedCells
  dsimp only
  rw [drop_ringCells hk0 hk1]
  apply ringCells_congr
  rw [Int.emod_emod]

/-- **Used plus free space always equals the size** (and `Full` says exactly that nothing is free). -/
theorem C11_used_plus_free (b : MirroredBuffer) (hi : Inv b) :
    b.UsedSpace + b.FreeSpace = b.Size ∧ (b.Full = true ↔ b.FreeSpace = 0) ∧
    0 ≤ b.UsedSpace ∧ 0 ≤ b.FreeSpace ∧ (usedCells b).length = b.UsedSpace.toNat := by
  rw [free_facts b hi]
  unfold Inv at hi
  unfold MirroredBuffer.UsedSpace MirroredBuffer.Size MirroredBuffer.Full usedCells
  rw [length_ringCells]
  simp only [decide_eq_true_eq]
  and_intros <;> first | rfl | omega | (constructor <;> intro h <;> omega)

/-- **The constructor's size arithmetic** (hand model `roundSize`, tied to the code by the
harness): an accepted request yields the smallest positive multiple of the page size that is at
least the request; requests that are not positive are rejected; every positive request that can be
rounded inside the `int` range is accepted. -/
theorem C11_size_rounding (page req : Int) (hp : 0 < page) (hp' : page ≤ Go.I64MAX) (hr : Go.InI64 req) :
    (∀ size, roundSize page req = some size → 0 < size ∧ size % page = 0 ∧ req ≤ size ∧ size < req + page) ∧
    (req ≤ 0 → roundSize page req = none) ∧
    (0 < req → req + page ≤ Go.I64MAX → ∃ size, roundSize page req = some size) := by
  refine ⟨fun size h => ?_, fun hneg => ?_, fun h1 h2 => roundSize_accepts page req hp h1 h2⟩
  · obtain ⟨f1, f2, f3, f4, _⟩ := roundSize_facts page req size hp hp' hr h
    exact ⟨f1, f2, f3, f4⟩
  · cases h : roundSize page req with
    | none => rfl
    | some size =>
      obtain ⟨f1, _, _, f4, _⟩ := roundSize_facts page req size hp hp' hr h
      have hmul : page ∣ size := Int.dvd_of_emod_eq_zero (by
        obtain ⟨_, f2, _⟩ := roundSize_facts page req size hp hp' hr h; exact f2)
      have := Int.le_of_dvd f1 hmul
      omega

/-! Non-vacuity: concrete non-trivial states and scripts meet the hypotheses, and the monitors do
reject wrong behaviour (so acceptance is not trivial). -/

-- a 3-cell ring (not a power of two) with the used cells wrapping around the end
example : Inv { size := 3, sizeMask := 2, head := 2, tail := 1, used := 2 } := by decide

example : ∀ op ∈ [Op.new 5 4, .claim 8, .commit 9223372036854775807, .consume 3, .read 0 4, .destroy], OpOk op := by
  decide

-- page size 4, request 9 (rounded up to 12 = 3 pages): fill, drain 5, claim across the end of the
-- ring, write through it, commit, read the same bytes back at the start of the ring
example : accepts dead (run Model.Mirrored.init
    [.new 9 4, .size, .commit 12, .full, .consume 5, .claim 7, .write 1, .commit 3, .used, .free,
     .read 0 3, .read 11 4, .consume 100, .claim 12, .destroy, .used]) = true := by
  decide

-- the reference monitor rejects: a claim over a used cell (what the 3-page defect did), a claim
-- that does not start behind the newest committed byte, a short grant, a wrong commit count, a
-- wrong used+free, a size that is not the next page multiple, a mapping that is still there
example : Spec.Mirrored.step { fresh 12 with q := [0, 1, 2, 3], next := 4 } (.claim 4) (.view 0 4) = none := by decide
example : Spec.Mirrored.step { fresh 12 with q := [0, 1, 2, 3], next := 4 } (.claim 4) (.view 5 4) = none := by decide
example : Spec.Mirrored.step { fresh 12 with q := [0, 1, 2, 3], next := 4 } (.claim 9) (.view 4 7) = none := by decide
example : Spec.Mirrored.step { fresh 12 with q := [0, 1, 2, 3], next := 4 } (.commit 9) (.int 9) = none := by decide
example : Spec.Mirrored.step { fresh 12 with q := [0, 1, 2, 3], next := 4 } .free (.int 9) = none := by decide
example : Spec.Mirrored.step dead (.new 9 4) (.created 16) = none := by decide
example : Spec.Mirrored.step (fresh 12) .destroy (.released true false) = none := by decide
-- … and so does the compact monitor on the same observations
example : cstep { cfresh 12 with used := 4, next := 4 } (.claim 4) (.view 0 4) = none := by decide
example : cstep { cfresh 12 with used := 4, next := 4 } (.claim 9) (.view 4 7) = none := by decide
-- the memory is one ring of cells: what is stored at virtual 13 of a 12-cell ring is read at virtual 1
example : load (store (zeros 12) 12 11 4 7) 12 0 3 = [8, 9, 10] := by decide

end Sonic.Props.C11
