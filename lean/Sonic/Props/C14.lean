/-
C14 — Inline completions never nest deeper than the dispatch limit.

Theorems about the loop model: `IO.Dispatched` always equals a base value (0, or what the program stored in the
public field while at top level) plus the number of inline-completion frames on the stack; an inline completion is
only taken while the counter is below `MaxCallbackDispatch`; hence at most `MaxCallbackDispatch` inline-completion
frames are ever nested, whatever mix of objects the chain runs over and however long it is; at the limit the
operation is deferred (registered with the poller); once the stack unwinds the counter is back at its base.
The remaining callback frames on a stack are those dispatched by the poller (one per `poll` frame), those delivered
by `Cancel`, and immediate failures of a deferred start (closed object / registration refused), which are not
immediately completed operations.
-/
import Sonic.Lemmas.LoopDisp

namespace Sonic.Props.C14
open Sonic.Model.Loop
open Sonic.Spec.Loop (Ev Ret Res OpKind ObjKind maxDispatch)

/-- The model accepts `evs` from `w` ending in `w'`, and the program stores into `IO.Dispatched` only at top level
and only non-negative values (`EvOk`). -/
inductive RunOk : World → List Ev → World → Prop where
  | nil (w : World) : RunOk w [] w
  | cons {w w1 w2 : World} {e : Ev} {es : List Ev} : EvOk w e → step w e = some w1 → RunOk w1 es w2 → RunOk w (e :: es) w2

theorem run_disp {w w' : World} {evs : List Ev} (h : RunOk w evs w') : ∀ b, DispInv b w → ∃ b', DispInv b' w' := by
  induction h with
  | nil w => intro b hI; exact ⟨b, hI⟩
  | cons hev hs _ ih =>
    intro b hI
    obtain ⟨b1, h1⟩ := step_disp b _ _ _ hI hev hs
    exact ih b1 h1

theorem disp_init : DispInv 0 ({} : World) := ⟨Int.le_refl 0, by simp [decFrames], by simp [DispOk]⟩

/-- **C14 (accounting).** In every reachable state the counter is a non-negative base plus the number of nested
inline completions, each of which was entered below the limit. -/
theorem C14_dispatch_accounting (evs : List Ev) (w : World) (h : RunOk {} evs w) : ∃ b, DispInv b w :=
  run_disp h 0 disp_init

/-- **C14 (depth bound).** However many operations complete immediately and are re-issued from their own
callbacks, over any mix of objects, at most `MaxCallbackDispatch` inline completions are nested. -/
theorem C14_inline_depth_bounded (evs : List Ev) (w : World) (h : RunOk {} evs w) :
    decFrames w.stack ≤ (maxDispatch : Int) := by
  obtain ⟨b, hb, _, hok⟩ := C14_dispatch_accounting evs w h
  exact decFrames_le b hb w.stack hok

/-- **C14 (back to zero).** Once the stack has unwound, the depth accounting is back at its base; with no explicit
store into the counter the base is zero. -/
theorem C14_counter_restored (evs : List Ev) (w : World) (h : RunOk {} evs w) (htop : w.stack = []) :
    ∃ b, 0 ≤ b ∧ w.dispatched = b := by
  obtain ⟨b, hb, hd, _⟩ := C14_dispatch_accounting evs w h
  exact ⟨b, hb, by rw [hd, htop]; simp [decFrames]⟩

def NoSetDisp : List Ev → Prop
  | [] => True
  | .callSetDisp _ :: _ => False
  | _ :: r => NoSetDisp r

theorem run_disp_zero {w w' : World} {evs : List Ev} (h : RunOk w evs w') (hn : NoSetDisp evs) :
    DispInv 0 w → DispInv 0 w' := by
  induction h with
  | nil w => exact id
  | @cons w w1 w2 e es hev hs _ ih =>
    intro hI
    have hne : ∀ n, e ≠ .callSetDisp n := by
      intro n he; subst he; exact hn
    have hn' : NoSetDisp es := by
      cases e <;> first | exact hn | exact absurd rfl (hne _)
    exact ih hn' (step_disp_same_base 0 w w1 e hI hev hs hne)

/-- With no explicit store into the counter, it is exactly the number of nested inline completions, and zero at
top level. -/
theorem C14_counter_zero_when_idle (evs : List Ev) (w : World) (h : RunOk {} evs w) (hn : NoSetDisp evs) :
    w.dispatched = decFrames w.stack ∧ (w.stack = [] → w.dispatched = 0) := by
  obtain ⟨_, hd, _⟩ := run_disp_zero h hn disp_init
  refine ⟨by omega, ?_⟩
  intro htop; rw [hd, htop]; simp [decFrames]

/-- **C14 (deferred at the limit).** When the counter has reached the limit, a start call cannot complete inline
through the counted path: the only callbacks the library can deliver inside the call are the failure of the deferred
start itself (closed object, registration refused). -/
theorem C14_deferred_at_limit (w w' : World) (op k : Nat) (kind : OpKind) (rest : List K) (o : Obj)
    (res : Res) (n : Int) (data : List UInt8) (early : Bool)
    (hst : w.stack = .startCall op k kind false :: rest) (hg : getObj w k = some o)
    (hlim : (maxDispatch : Int) ≤ w.dispatched)
    (hs : step w (.enter op res n data early) = some w') :
    (o.closed = true ∧ res = .eof) ∨ res = .err := by
  unfold step at hs
  simp only [hst, hg] at hs
  split at hs
  · cases hs
  · split at hs
    · rename_i hc
      simp only [Bool.and_eq_true, decide_eq_true_eq] at hc
      omega
    · split at hs
      · rename_i hc
        simp only [Bool.or_eq_true, Bool.and_eq_true, beq_iff_eq] at hc
        exact hc
      · cases hs

theorem runOk_of_run : ∀ (evs : List Ev) (w w' : World), run w evs = some w' → NoSetDisp evs → RunOk w evs w'
  | [], w, w', h, _ => by simp only [run] at h; cases h; exact .nil w
  | e :: es, w, w', h, hn => by
    simp only [run] at h
    cases hs : step w e with
    | none => simp [hs] at h
    | some w1 =>
      simp only [hs] at h
      have hne : ∀ n, e ≠ .callSetDisp n := by intro n he; subst he; exact hn
      have hn' : NoSetDisp es := by cases e <;> first | exact hn | exact absurd rfl (hne _)
      have hev : EvOk w e := by cases e <;> first | trivial | exact absurd rfl (hne _)
      exact .cons hev hs (runOk_of_run es w1 w' h hn')

/-! Non-vacuity: a poller-dispatched handler that starts a read completing inline, whose handler starts another one:
two nested inline completions, the counter is 2 inside and 0 again at top level. -/
example : ∃ w, run {} [.obj 1 .stream, .callStart 11 1 .read 8, .ret .plain, .callPoll, .enter 11 .ok 8 [] false,
                       .callStart 12 1 .read 4, .enter 12 .ok 4 [] false,
                       .callStart 13 1 .read 4, .enter 13 .ok 4 [] false] = some w
              ∧ w.dispatched = 2 ∧ decFrames w.stack = 2 := ⟨_, rfl, by decide, by decide⟩

example : ∃ w, run {} [.obj 1 .stream, .callStart 11 1 .read 8, .enter 11 .ok 8 [] false, .exit 11, .ret .plain] = some w
              ∧ w.dispatched = 0 ∧ w.stack = [] := ⟨_, rfl, by decide, by decide⟩

end Sonic.Props.C14
