/-
C17 — WebSocket reads and writes in flight together each complete exactly once.

Over the labelled transition system `Sonic.Model.WsAsync` (the asynchronous API of one stream over an adapter with a
single write reactor and a single read reactor; application calls issued at top level or from inside callbacks by an
arbitrary program `prog`; transport events: partial / complete / failed writes, reads that bring any number of frames,
end of stream), for EVERY sequence of labels, by the invariant of `Lemmas/WsAsyncStep.lean`.

What a theorem cannot exhibit — in which poll cycle the kernel reports readiness, how many bytes a `write(2)` accepts,
the real adapter and poller underneath — is observed by the `wsconc` harness on a real `AsyncAdapter` over a real TCP
connection and fed to this model as labels (tie D). Transport errors are modelled (`wrErr`, `rdErr`, `rdEof`); the
callback theorems hold with them, the wire theorems are stated for a transport that has not failed (`healthy`).
-/
import Sonic.Lemmas.WsAsyncStep
import Sonic.Lemmas.WsAsyncObsRun
import Sonic.Spec.WsAsync

namespace Sonic.Props.C17
open Sonic.Model.WsAsync

variable {prog : CbId → List Action}

/-- **The adapter's write reactor is never overwritten.** In every reachable state no write was ever started while
another one was in flight (`overwritten` is set by `startWrite` exactly in that case), a write is in flight exactly
while `asyncFlushing` is set, flush callers are parked only meanwhile, and the buffer handed to the transport is one
frame. This is what `asyncFlushing` buys (compare `C17_unserialised_drops_callback`). -/
theorem C17_single_write_in_flight {s : St} (h : Reach prog s) :
    s.overwritten = false ∧ s.flushing = s.wr.isSome ∧ (s.wr = none → s.waiters = []) ∧
    (∀ w, s.wr = some w → ∃ f, w.buf = [f]) := by
  have hI := (reach_inv h).core
  refine ⟨hI.notOver, hI.flushWr, fun hw => hI.idle (by rw [hI.flushWr, hw]; rfl), hI.one⟩

/-- every callback the library still owes is accounted for: handed to the API = invoked + owed -/
theorem ledger {s : St} (h : Reach prog s) (c : CbId) :
    s.started.count c = s.log.count c + (owedList s).countP (·.1 == c) := (reach_inv h).cbs c

/-- **At most once, always.** In every reachable state no callback has been invoked twice, and only callbacks that
were handed to the API have been invoked. -/
theorem C17_callbacks_at_most_once {s : St} (h : Reach prog s) :
    (∀ c, s.log.count c ≤ 1) ∧ (∀ c, c ∈ s.log → c ∈ s.started) := by
  have hI := reach_inv h
  constructor
  · intro c
    have h1 := hI.cbs c
    have h2 := hI.nodup.count (a := c)
    split at h2 <;> omega
  · intro c hc
    have h1 := hI.cbs c
    have : 0 < s.log.count c := List.count_pos_iff.2 hc
    exact List.count_pos_iff.1 (by omega)

theorem owed_nil_of_quiescent {s : St} (h : Reach prog s) (hq : quiescent s) : owedList s = [] := by
  obtain ⟨hst, hwr, hrd⟩ := hq
  have hI := (reach_inv h).core
  have hw : s.waiters = [] := hI.idle (by rw [hI.flushWr, hwr]; rfl)
  simp [owedList, wrCbs, rdCbs, hst, hwr, hrd, hw]

/-- **Exactly once at quiescence.** When nothing is executing and neither reactor is armed, every callback handed to
`AsyncNextFrame`, `AsyncNextMessage`, `AsyncWrite`, `AsyncWriteFrame`, `AsyncFlush` or `AsyncClose` has been invoked
exactly once — whatever the interleaving of calls (also from inside callbacks), peer frames, partial writes and
transport failures was. -/
theorem C17_callbacks_exactly_once {s : St} (h : Reach prog s) (hq : quiescent s) :
    ∀ c, c ∈ s.started → s.log.count c = 1 := by
  intro c hc
  have hI := reach_inv h
  have h1 := hI.cbs c
  rw [owed_nil_of_quiescent h hq] at h1
  have h2 := hI.nodup.count (a := c)
  simp only [hc, if_true] at h2
  simpa [h2] using h1.symm

/-- **No callback is parked without a reactor that will wake it.** Whenever no code is executing, a callback that was
handed to the API and has not run yet is either the reader the read reactor is armed for, or a write is in flight
(whose completion runs the owner and every waiter). In particular an application write never swallows the
continuation of a read and the read path's control replies never swallow the completion of a write. -/
theorem C17_pending_callback_has_reactor {s : St} (h : Reach prog s) (hst : s.stack = []) (c : CbId)
    (hc : c ∈ s.started) (hn : c ∉ s.log) : s.wr.isSome = true ∨ ∃ rk, s.rd = some (c, rk) := by
  have hI := reach_inv h
  cases hwr : s.wr with
  | some w => exact Or.inl rfl
  | none =>
    right
    have hw : s.waiters = [] := hI.core.idle (by rw [hI.core.flushWr, hwr]; rfl)
    have h1 := hI.cbs c
    have h2 : s.log.count c = 0 := List.count_eq_zero.2 hn
    have h3 : 0 < s.started.count c := List.count_pos_iff.2 hc
    cases hrd : s.rd with
    | none => simp [owedList, wrCbs, rdCbs, hst, hwr, hrd, hw] at h1; omega
    | some p =>
      obtain ⟨cb, rk⟩ := p
      simp only [owedList, wrCbs, rdCbs, hst, hwr, hrd, hw, List.flatMap_nil, List.append_nil, List.nil_append,
        List.countP_cons, List.countP_nil] at h1
      have : cb = c := by
        by_cases hcc : cb = c
        · exact hcc
        · simp [hcc] at h1; omega
      exact ⟨rk, by rw [this]⟩

/-- **A callback is entered only while it is owed.** The model takes an `enter cb` transition only for a callback that
was handed to the API and has not run yet (the transition-level form of "never twice, never invented"). -/
theorem C17_enter_only_owed {s s' : St} {cb : CbId} {r : Res} (h : Reach prog s)
    (hs : step true prog s (.enter cb r) = some s') : cb ∈ s.started ∧ cb ∉ s.log := by
  have hI := reach_inv h
  simp only [step] at hs
  split at hs
  · rename_i cb' r' isRead rest hst
    split at hs
    · rename_i hcr
      obtain ⟨rfl, rfl⟩ := hcr
      have h1 := hI.cbs cb
      have h2 := hI.nodup.count (a := cb)
      have h3 : 1 ≤ (owedList s).countP (·.1 == cb) := by
        simp [owedList, hst, List.flatMap_cons, taskCbs, List.countP_append]
        omega
      constructor
      · exact List.count_pos_iff.1 (by omega)
      · intro hl
        have : 0 < s.log.count cb := List.count_pos_iff.2 hl
        split at h2 <;> omega
    · cases hs
  · cases hs

/-- **At most one read is outstanding and it is owed exactly once**: the number of owed reader callbacks is 1 while a
read is outstanding and 0 otherwise (so the single read reactor is never armed for two readers). -/
theorem C17_one_reader {s : St} (h : Reach prog s) :
    (owedList s).countP (·.2) = if s.readBusy then 1 else 0 := (reach_inv h).reads

/-- **Wire order.** While the transport has not failed, the frames completely accepted by the transport, then the
frame in flight, then `pendingFrames` are exactly the submitted frames in submission order (nothing lost, repeated or
reordered: application frames in the order of the calls, a Pong / Close reply behind the frames queued before the
Ping / Close was read); and byte for byte the transport has received the complete frames one after the other followed
by a prefix of the frame in flight — bytes of different frames are never interleaved or repeated. -/
theorem C17_wire_order {s : St} (h : Reach prog s) (hh : s.healthy = true) :
    s.wire ++ wrBuf s ++ s.pending = s.submitted ∧ s.bytes = bufBytes s.wire ++ wrDone s :=
  ⟨(reach_inv h).wire.frames hh, (reach_inv h).wire.bytes hh⟩

/-- Once everything submitted has been flushed, the wire is exactly the submission sequence. -/
theorem C17_wire_complete {s : St} (h : Reach prog s) (hh : s.healthy = true) (hwr : s.wr = none) (hp : s.pending = []) :
    s.wire = s.submitted ∧ s.bytes = bufBytes s.submitted := by
  obtain ⟨h1, h2⟩ := C17_wire_order h hh
  simp only [wrBuf, wrDone, hwr, hp, List.append_nil] at h1 h2
  exact ⟨h1, by rw [h2, h1]⟩

/-! ### Running label lists (used by the acceptor and the witnesses) -/

theorem run_reach {s s' : St} (h : Reach prog s) : ∀ {ls : List Label}, run true prog s ls = some s' → Reach prog s'
  | [], hr => by simp only [run, Option.some.injEq] at hr; exact hr ▸ h
  | l :: r, hr => by
    simp only [run] at hr
    split at hr
    · rename_i s1 hs; exact run_reach (Reach.step l h hs) hr
    · cases hr

/-! ### Why the flag is needed: the code before commit 54ea8af (`ser = false`)

The historical witness: a Ping arrives; read #1 completes and its callback starts read #2, whose flush of the queued
Pong is in flight; the application calls AsyncWrite. Without serialisation the second `AsyncWriteAll` re-initialises
the adapter's write reactor: the first write's callback — the closure that would have started read #2 — is gone. -/

-- the `decide` proofs below compare tuples of seven components
set_option synthInstance.maxSize 1024

def ping2 : InFrame := { op := .ping, fin := true, len := 2, viol := false, closeOk := false }
def text1 : InFrame := { op := .text, fin := true, len := 1, viol := false, closeOk := false }

/-- the callback of read #1 starts read #2 -/
def rearm : CbId → List Action := fun cb => if cb = 1 then [.read 2] else []

def witnessOld : List Label :=
  [.call (.read 1), .tau, .ret,                         -- read #1: nothing to flush, the read reactor is armed
   .call .poll, .rdGot [ping2],                          -- the Ping arrives: a Pong is queued, read #1 completes
   .enter 1 .ok, .call (.read 2), .ret, .exit 1, .ret,   -- its callback starts read #2: the Pong flush is in flight
   .call (.write 3 11), .ret,                            -- AsyncWrite: a second AsyncWriteAll on the same reactor
   .call .poll, .wrote 19, .enter 3 .ok, .exit 3, .ret]  -- one write of Pong + message completes; only callback 3 runs

/-- **Without the serialisation a read continuation is dropped**: the model with `asyncFlushing` ignored reaches a
quiescent state with a healthy transport in which the write reactor was overwritten and callback 2 (read #2) was
handed to the API, never ran, and is owed by nobody any more. -/
theorem C17_unserialised_drops_callback :
    (run false rearm {} witnessOld).map
      (fun s => (decide (quiescent s), s.healthy, s.overwritten, s.started, s.log, (owedList s).map (·.1), s.pending.length)) =
    some (true, true, true, [1, 2, 3], [1, 3], [], 0) := by decide

/-- With a partially written first buffer the bytes already accepted are written again: a large write (10 bytes,
4 of them accepted) is in flight when the read path's Pong flush re-initialises the reactor with the whole buffer:
the transport receives bytes 0-3 of frame 2 twice, and callback 2 (the application write) is owed by nobody. -/
def witnessOldBytes : List Label :=
  [.call (.read 1), .tau, .ret,
   .call (.write 2 10), .ret,
   .call .poll, .wrote 4, .rdGot [ping2],
   .enter 1 .ok, .call (.read 3), .ret, .exit 1,
   .wrote 18, .tau, .ret]

def rearm3 : CbId → List Action := fun cb => if cb = 1 then [.read 3] else []

theorem C17_unserialised_repeats_bytes :
    (run false rearm3 {} witnessOldBytes).map
      (fun s => (s.healthy, s.overwritten, s.bytes.take 6, decide (s.bytes.Nodup), s.started, s.log, (owedList s).map (·.1))) =
    some (true, true, [(.app 2, 0), (.app 2, 1), (.app 2, 2), (.app 2, 3), (.app 2, 0), (.app 2, 1)], false, [1, 2, 3], [1], [3]) := by
  decide

/-! ### Non-vacuity: the same history on the code as it is

The same calls and peer events, with the labels the serialised code takes: the AsyncWrite waits behind the Pong flush,
the Pong and then the message reach the wire, read #2 is started, and after one more frame all three callbacks have run
exactly once. The state is reachable, quiescent and healthy, so every theorem above applies to it. -/

def witnessNew : List Label :=
  [.call (.read 1), .tau, .ret,
   .call .poll, .rdGot [ping2],
   .enter 1 .ok, .call (.read 2), .ret, .exit 1, .ret,
   .call (.write 3 11), .ret,                            -- queued behind the flush in flight
   .call .poll, .wrote 8, .ret,                          -- the Pong is out; the same flush goes on with the message
   .call .poll, .wrote 5, .ret,                          -- partially accepted
   .call .poll, .wrote 6, .tau, .enter 3 .ok, .exit 3, .ret,   -- complete: read #2 is started, then callback 3 runs
   .call .poll, .rdGot [text1], .enter 2 .ok, .exit 2, .ret]

example : (run true rearm {} witnessNew).map
      (fun s => (decide (quiescent s), s.healthy, s.overwritten, s.started, s.log, s.wire.map (·.tag), s.bytes.length)) =
    some (true, true, false, [1, 2, 3], [1, 3, 2], [.pong 0, .app 3], 19) := by decide

/-- the final state of `witnessNew` is reachable, quiescent and healthy -/
example : ∃ s, Reach rearm s ∧ quiescent s ∧ s.healthy = true ∧ s.started = [1, 2, 3] := by
  have hr : (run true rearm {} witnessNew).isSome = true := by decide
  obtain ⟨s, hs⟩ := Option.isSome_iff_exists.1 hr
  refine ⟨s, run_reach Reach.init hs, ?_, ?_, ?_⟩
  all_goals
    have : (run true rearm {} witnessNew).map (fun s => (decide (quiescent s), s.healthy, s.started)) = some (true, true, [1, 2, 3]) := by decide
    rw [hs] at this
    simp only [Option.map_some, Option.some.injEq, Prod.mk.injEq, decide_eq_true_eq] at this
  · exact this.1
  · exact this.2.1
  · exact this.2.2

/-- The model is not trivially accepting: a callback cannot be entered when the library has not invoked it. -/
example : run true rearm {} [.call (.read 1), .tau, .ret, .enter 1 .ok] = none := by decide

/-! ### The property monitor (`Spec/WsAsync.lean`) is not trivially accepting

It accepts a correct history and rejects: a callback entered twice, a callback that never ran although the run ended
with a healthy transport, frames on the wire in another order than they were submitted, a frame on the wire twice, a
Pong that overtakes a frame queued before the Ping was read. -/

section Monitor
open Sonic.Spec.WsAsync

def wf (cb op len : Nat) : WireFrame :=
  { fin := true, rsv := 0, op := op, masked := true, len := len, hash := fnv (pattern cb len), head := (pattern cb len).take 4 }

def aPing : Sonic.Spec.WsStream.InFrame := { fin := true, rsv := 0, op := 9, masked := false, payload := [7] }
def itsPong : WireFrame := { fin := true, rsv := 0, op := 10, masked := true, len := 1, hash := fnv [7], head := [7] }

example : accepts 1000 [.callFlush 1, .enter 1 .ok none none .active, .exit 1, .ret .active, .finish 0 true] = true := by decide
example : accepts 1000 [.callFlush 1, .enter 1 .ok none none .active, .exit 1, .enter 1 .ok none none .active] = false := by decide
example : accepts 1000 [.callRead 1, .ret .active, .finish 0 true] = false := by decide
example : accepts 1000 [.callWrite 1 1 2, .ret .active, .callWrite 2 2 3, .ret .active, .wire [wf 1 1 2, wf 2 2 3]] = true := by decide
example : accepts 1000 [.callWrite 1 1 2, .ret .active, .callWrite 2 2 3, .ret .active, .wire [wf 2 2 3, wf 1 1 2]] = false := by decide
example : accepts 1000 [.callWrite 1 1 2, .ret .active, .wire [wf 1 1 2, wf 1 1 2]] = false := by decide
example : accepts 1000 [.callRead 1, .ret .active, .callWrite 2 1 2, .ret .active, .peer aPing, .callPoll,
    .enter 1 .ok (some aPing) none .active, .exit 1, .ret .active, .wire [wf 2 1 2, itsPong]] = true := by decide
example : accepts 1000 [.callRead 1, .ret .active, .callWrite 2 1 2, .ret .active, .peer aPing, .callPoll,
    .enter 1 .ok (some aPing) none .active, .exit 1, .ret .active, .wire [itsPong, wf 2 1 2]] = false := by decide

end Monitor

/-! ### The property monitor accepts every history of the model (refinement)

`Sonic.Model.WsAsyncObs.otrace max prog {} {} ls` executes the observed labels `ls` on the model from the initial state
(each is a model label with the concrete data a trace line carries, or an event of the environment: the peer sends a
frame, the peer reports what it parsed, the run ends) and returns the events a process observes - exactly what the trace
driver feeds the monitor with for such a trace. For EVERY such run (any program of the callbacks, any length, transport
failures included) the monitor `Sonic.Spec.WsAsync` accepts these events: by the coupling invariant
`Sonic.Model.WsAsyncObs.Coup` between model, observer and monitor states (`Lemmas/WsAsyncObsRel.lean`), kept by every step
(`step_sim`), and induction over the run (`run_sim`). So the callback ledger (never twice, never unknown, no error
completion on a healthy transport, every callback run at a quiescent end), the wire order (what the peer parses is the
submitted frames in submission order, replies behind what was queued before) and the read results (what reads deliver is
the peer's stream) hold of every model history in the very form in which real traces are checked. -/

section Refinement
open Sonic.Model.WsAsyncObs

/-- **Refinement.** Every observed run of the model is accepted by the property monitor. -/
theorem C17_monitor_accepts_model (max : Nat) (prog : CbId → List Action) (ls : List OLabel) (evs : List Sonic.Spec.WsAsync.Ev)
    (h : otrace max prog {} {} ls = some evs) : Sonic.Spec.WsAsync.accepts max evs = true := by
  obtain ⟨m', hm⟩ := run_sim (max := max) (prog := prog) ls {} {} { max := max } evs init_inv (coup_init max) h
  unfold Sonic.Spec.WsAsync.accepts
  rw [show Sonic.Spec.WsAsync.run { max := max } evs = .ok m' from hm]

/-- The observed runs are the model's runs: an observed step takes the model transition its label stands for, and every
transition the model can take is observed (the observation function is total on them). -/
theorem C17_observed_steps_are_model_steps {max : Nat} {prog : CbId → List Action} {s s' : St} {o : Ob} {l : OLabel}
    {lab : Label} (hl : l.label max o = some lab) :
    (∀ o' evs, ostep max prog s o l = some (s', o', evs) → step true prog s lab = some s') ∧
    (step true prog s lab = some s' → ∃ o' evs, ostep max prog s o l = some (s', o', evs)) :=
  ⟨fun _ _ hs => ostep_model hs hl, fun hs => ostep_total hl hs⟩

/-- Non-vacuity: the history of `witnessNew` with concrete data - a Ping `07 07` arrives while read #1 is armed, the
callback of read #1 starts read #2 (the Pong flush is in flight), AsyncWrite of 5 bytes waits behind it, the peer parses
the Pong and then the message, a text frame completes read #2, the run ends at rest. The model executes it, the observer
produces 27 events (with both `wire` reports and the end-of-run check), and by the theorem the monitor accepts them. -/
def observedRun : List OLabel :=
  [.call (.read 1), .tau, .ret,
   .peer { fin := true, rsv := 0, op := 9, masked := false, payload := [7, 7] },
   .call .poll, .rdGot 1, .enter 1 .ok, .call (.read 2), .ret, .exit 1, .ret,
   .call (.write 3 1 5), .ret,
   .call .poll, .wrote 8, .ret, .drain 1,
   .call .poll, .wrote 5, .ret,
   .call .poll, .wrote 6, .tau, .enter 3 .ok, .exit 3, .ret, .drain 1,
   .peer { fin := true, rsv := 0, op := 1, masked := false, payload := [104, 105] },
   .call .poll, .rdGot 1, .enter 2 .ok, .exit 2, .ret, .finish]

example : (otrace 1000 rearm {} {} observedRun).map List.length = some 27 := by decide

example : ∃ evs, otrace 1000 rearm {} {} observedRun = some evs ∧ Sonic.Spec.WsAsync.accepts 1000 evs = true := by
  have h : (otrace 1000 rearm {} {} observedRun).isSome = true := by decide
  obtain ⟨evs, he⟩ := Option.isSome_iff_exists.1 h
  exact ⟨evs, he, C17_monitor_accepts_model 1000 rearm observedRun evs he⟩

/-- The observer does not observe what the model cannot do: a `drain` that reports a frame the transport has not
completely accepted is not an observed run. -/
example : otrace 1000 rearm {} {} [.call (.write 1 1 5), .ret, .drain 1] = none := by decide

/-- Why the monitor is told of transport failures (`transportErr`): the model (like `asyncFlush` in stream.go) completes
the write whose frame the transport refused with an error. A monitor that cannot see the failure rejects that history
as "write completed with an error on a healthy transport"; told of it, it accepts - and still rejects the same error
completion when the transport did not fail. -/
def failedWrite : List OLabel := [.call (.write 1 1 5), .ret, .call .poll, .wrErr, .enter 1 .err, .exit 1, .ret]

example : (otrace 1000 (fun _ => []) {} {} failedWrite).isSome = true := by decide
example : Sonic.Spec.WsAsync.accepts 1000 [.callWrite 1 1 5, .ret .active, .callPoll, .transportErr,
    .enter 1 .err none none .active, .exit 1, .ret .active] = true := by decide
example : Sonic.Spec.WsAsync.accepts 1000 [.callWrite 1 1 5, .ret .active, .callPoll,
    .enter 1 .err none none .active, .exit 1, .ret .active] = false := by decide

end Refinement

end Sonic.Props.C17
