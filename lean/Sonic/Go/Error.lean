/-
Go semantics prelude, part 2 (core Lean only): the `error` interface as far as translated code uses it.
Kept apart from `Prelude.lean` so that modules which do not need it are not rebuilt.
-/
import Sonic.Go.Prelude

namespace Go

/-- A Go `error` value: `nil`, or an error whose identity (`code`) is whatever its producer chose. Translated code only
ever compares errors with `nil` and passes them on. -/
inductive Error where
  | nil
  | err (code : Nat)
  deriving Repr, DecidableEq, Inhabited

end Go
