/-
Go semantics prelude for the translated / hand-written models (core Lean only).

Go's `int` is a 64-bit two's-complement integer.  Models compute over `Int` and pass every
arithmetic result through `wrap64`, so that a value that leaves the int64 range behaves as in Go
(wraps) instead of silently being a big integer.  Proofs discharge `wrap64 x = x` from invariants.
-/
namespace Go

def I64MAX : Int :=  9223372036854775807
def I64MIN : Int := -9223372036854775808
def TWO64  : Int := 18446744073709551616

/-- `x` is representable as a Go `int`. -/
def InI64 (x : Int) : Prop := I64MIN ≤ x ∧ x ≤ I64MAX
instance (x : Int) : Decidable (InI64 x) := by unfold InI64; exact inferInstance

/-- Reduce to the int64 range (exact two's-complement wrap for every `Int`). -/
def wrap64 (x : Int) : Int := (x + 9223372036854775808) % 18446744073709551616 - 9223372036854775808

theorem wrap64_id {x : Int} (h : InI64 x) : wrap64 x = x := by
  unfold wrap64; unfold InI64 I64MIN I64MAX at h; omega

theorem wrap64_in (x : Int) : InI64 (wrap64 x) := by
  unfold wrap64 InI64 I64MIN I64MAX; omega

def add (a b : Int) : Int := wrap64 (a + b)
def sub (a b : Int) : Int := wrap64 (a - b)
def mul (a b : Int) : Int := wrap64 (a * b)
def neg (a : Int) : Int := wrap64 (-a)
/-- Go `/` truncates toward zero (division by zero panics in Go; models guard it). -/
def div (a b : Int) : Int := wrap64 (Int.tdiv a b)
/-- Go `%`: sign follows the dividend. -/
def mod (a b : Int) : Int := Int.tmod a b

def land (a b : Int) : Int := (BitVec.ofInt 64 a &&& BitVec.ofInt 64 b).toInt
def lor  (a b : Int) : Int := (BitVec.ofInt 64 a ||| BitVec.ofInt 64 b).toInt
def shl  (a b : Int) : Int := (BitVec.ofInt 64 a <<< b.toNat).toInt
def shr  (a b : Int) : Int := (BitVec.ofInt 64 a).sshiftRight b.toNat |>.toInt

theorem add_id {a b : Int} (h : InI64 (a + b)) : add a b = a + b := wrap64_id h
theorem sub_id {a b : Int} (h : InI64 (a - b)) : sub a b = a - b := wrap64_id h

/-- A slice value: positions `[lo, hi)` of a backing array whose capacity ends at `capEnd`.
`valid = false` records that producing it would have panicked in Go (bounds out of range). -/
structure View where
  lo : Int
  hi : Int
  capEnd : Int
  valid : Bool
  isNil : Bool := false
  deriving Repr, DecidableEq

namespace View
def nil : View := { lo := 0, hi := 0, capEnd := 0, valid := true, isNil := true }
/-- The whole backing array of length `n` (len = cap = n). -/
def whole (n : Int) : View := { lo := 0, hi := n, capEnd := n, valid := true }
def len (v : View) : Int := v.hi - v.lo
/-- Go slice expression `v[a:b]` with optional bounds; Go checks `0 ≤ a ≤ b ≤ cap(v)`. -/
def slice (v : View) (a b : Option Int) : View :=
  let a' := a.getD 0
  let b' := b.getD (v.hi - v.lo)
  { lo := v.lo + a', hi := v.lo + b', capEnd := v.capEnd,
    valid := v.valid && decide (0 ≤ a' ∧ a' ≤ b' ∧ v.lo + b' ≤ v.capEnd) }
end View

end Go

/-! ### A robust replacement for `split at hr` on hypotheses `hr : (if c then a else b) = r`
(`split` fails when the condition is an equation that also occurs elsewhere). -/

theorem Go.ite_eq_elim {α : Type _} {c : Prop} [Decidable c] {a b r : α} (P : Prop)
    (h : (if c then a else b) = r) (h1 : c → a = r → P) (h2 : ¬ c → b = r → P) : P := by
  by_cases hc : c
  · rw [if_pos hc] at h; exact h1 hc h
  · rw [if_neg hc] at h; exact h2 hc h

set_option hygiene false in
/-- Split the top-level `if` on the left of `hr : (if c then a else b) = r`. -/
macro "isplit" : tactic =>
  `(tactic| (refine Go.ite_eq_elim _ hr (fun hc hr' => ?_) (fun hc hr' => ?_) <;> clear hr <;>
              (have hr := hr'; clear hr'; revert hc; intro _)))

set_option hygiene false in
/-- Close a goal of linear integer facts about one straight-line branch `hr : value = r` of a
translated function: substitute, reduce structure projections and slice bounds, expose the
64-bit wrap as `%` and call `omega`. -/
macro "go_close" : tactic =>
  `(tactic| (subst hr
             dsimp only [Go.View.slice, Go.View.whole, Go.View.nil, Go.View.len] at *
             simp only [Go.I64MAX, Go.I64MIN, Go.InI64, Option.getD_some, Option.getD_none, decide_eq_true_eq,
               Bool.true_and, Bool.and_true] at *
             simp only [Go.add, Go.sub, Go.neg, Go.wrap64, true_and, and_true] at *
             and_intros <;> first | trivial | omega))
