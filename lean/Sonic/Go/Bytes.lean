/-
Go semantics prelude, part 3 (core Lean only): byte slices and fixed-width unsigned integers, as far as the translated
websocket frame-header code (`Sonic/Gen/WsFrameBits.lean`) uses them.  Kept apart from `Prelude.lean` so that modules
which do not need it are not rebuilt.

* `byte`/`uint8`, `uint16`, `uint32`, `uint64` are Lean's `UInt8 … UInt64` (`& | ^ + - *` wrap as in Go; `&^` is
  `a &&& ~~~b`; the translator only admits shifts by a constant smaller than the width, for which Lean's `<<< >>>` and
  Go's agree).
* A slice value `[]byte` is `Go.Bytes`: the backing array *from the slice's first element to its capacity* (`arr`,
  `cap = arr.length`) and the length (`len`).  Reading or writing `b[i]` needs `0 ≤ i < len`; a slice expression
  `b[lo:hi]` needs `0 ≤ lo ≤ hi ≤ cap` — exactly Go's rules, so bytes past `len` but within `cap` (whatever an earlier
  use left there) can come back into view.  A violated rule is a run-time panic: the result is `Except.error`.
* Writes through a slice are visible to every alias in Go.  Translated code only ever writes through the receiver (or
  a sub-slice of it created in the same expression, see `putBEAt`), and threads the receiver, so no alias analysis is
  needed.
-/
import Sonic.Go.Prelude

namespace Go

/-- Run-time panics of the translated code. -/
inductive Panic where
  | indexRange     -- index out of range
  | sliceBounds    -- slice bounds out of range
  | makeLen        -- make([]T, n): len out of range
  deriving Repr, DecidableEq

/-- A `[]byte` value. -/
structure Bytes where
  arr : List UInt8
  len : Nat
  deriving Repr, DecidableEq

/-- Big-endian value of a byte string. -/
def beNat (l : List UInt8) : Nat := l.foldl (fun acc b => acc * 256 + b.toNat) 0

/-- The `k` low-order base-256 digits of `n`, most significant first. -/
def beBytes : Nat → Nat → List UInt8
  | 0, _ => []
  | k + 1, n => UInt8.ofNat (n / 256 ^ k % 256) :: beBytes k n

/-- `int(x)` for `x : uint64`: the same 64 bits read as two's complement (values ≥ 2^63 become negative). -/
def u64ToInt (x : UInt64) : Int := x.toBitVec.toInt

namespace Bytes

/-- A slice with `len = cap` holding exactly the bytes of `l`. -/
def ofList (l : List UInt8) : Bytes := { arr := l, len := l.length }

/-- The `len(b)` bytes the slice shows. -/
def toList (b : Bytes) : List UInt8 := b.arr.take b.len

/-- `nil`. -/
def nil : Bytes := { arr := [], len := 0 }

/-- `len(b)`. -/
def length (b : Bytes) : Int := b.len

/-- `cap(b)`. -/
def cap (b : Bytes) : Int := b.arr.length

/-- `b[i]`. -/
def idx (b : Bytes) (i : Int) : Except Panic UInt8 :=
  if 0 ≤ i ∧ i.toNat < b.len ∧ i.toNat < b.arr.length then pure (b.arr.getD i.toNat 0) else throw .indexRange

/-- `b[i] = v`. -/
def set (b : Bytes) (i : Int) (v : UInt8) : Except Panic Bytes :=
  if 0 ≤ i ∧ i.toNat < b.len ∧ i.toNat < b.arr.length then pure { b with arr := b.arr.set i.toNat v } else throw .indexRange

/-- `b[lo:hi]` (an absent `lo` is 0, an absent `hi` is `len(b)`); Go checks `0 ≤ lo ≤ hi ≤ cap(b)`. -/
def slice (b : Bytes) (lo hi : Option Int) : Except Panic Bytes :=
  let lo' := lo.getD 0
  let hi' := hi.getD b.len
  if 0 ≤ lo' ∧ lo' ≤ hi' ∧ hi' ≤ b.arr.length then pure { arr := b.arr.drop lo'.toNat, len := (hi' - lo').toNat }
  else throw .sliceBounds

/-- `binary.BigEndian.Uint16(b)`: `_ = b[1]`, then the first two bytes. -/
def uint16BE (b : Bytes) : Except Panic UInt16 :=
  if 2 ≤ b.len ∧ 2 ≤ b.arr.length then pure (UInt16.ofNat (beNat (b.arr.take 2))) else throw .indexRange

/-- `binary.BigEndian.Uint64(b)`: `_ = b[7]`, then the first eight bytes. -/
def uint64BE (b : Bytes) : Except Panic UInt64 :=
  if 8 ≤ b.len ∧ 8 ≤ b.arr.length then pure (UInt64.ofNat (beNat (b.arr.take 8))) else throw .indexRange

/-- `binary.BigEndian.PutUint<8k>(b[lo:], v)`: the sub-slice `b[lo:]` (needs `0 ≤ lo ≤ len(b)`), the bounds hint
`_ = s[k-1]` (needs `k ≤ len(b) - lo`), then `k` bytes of `b`'s array from position `lo` are overwritten. -/
def putBEAt (b : Bytes) (lo : Int) (k : Nat) (v : Nat) : Except Panic Bytes :=
  if ¬ (0 ≤ lo ∧ lo ≤ b.len) then throw .sliceBounds
  else if b.len - lo.toNat < k then throw .indexRange
  else if ¬ b.len ≤ b.arr.length then throw .sliceBounds    -- not a slice value (`len ≤ cap` always holds in Go)
  else pure { b with arr := b.arr.take lo.toNat ++ beBytes k v ++ b.arr.drop (lo.toNat + k) }

/-- `append(b, make([]T, n)...)`: `n` zero elements after position `len(b)`.  Within the capacity they overwrite the
array in place; beyond it the runtime allocates a new array (its extra capacity, if any, is zero-filled and can only
be seen through a later re-slice followed by the same kind of zero fill, so exactly `len(b) + n` elements are
modelled). -/
def appendZeros (b : Bytes) (n : Int) : Except Panic Bytes :=
  if n < 0 then throw .makeLen
  else pure { arr := b.arr.take b.len ++ List.replicate n.toNat 0 ++ b.arr.drop (b.len + n.toNat), len := b.len + n.toNat }

end Bytes
end Go
