import Driver.WsStreamSpec
import Sonic.Model.WsStream

/-! Model acceptor for `wsstream` traces: the model of stream.go must reproduce every observation. -/
namespace Driver.WsStream
open Sonic.Spec.WsStream Sonic.Model.WsStream Driver.WsStreamSpec

/-- Non-default branches reached by a step (coverage only). -/
def tagsOf (m m' : M) (op : Op) (ob : Obs) : List String :=
  let readTags (e : Err) (gated : Bool) : List String :=
    (match e with
      | .proto .rsv => ["viol-rsv"] | .proto .masked => ["viol-masked"] | .proto .ctlFin => ["viol-ctl-nofin"]
      | .proto .ctlBig => ["viol-ctl-big"] | .proto .opcode => ["viol-opcode"] | .unexpCont => ["frag-unexpected-cont"]
      | .expCont => ["frag-expected-cont"] | .tooBig => ["msg-too-big"] | .overMax => ["frame-over-max"]
      | .ioerr => ["transport-error"] | .nodata => [] | _ => []) ++
    (if e.isProto ∧ m.state = .closedByUs then ["violation-after-our-close"] else []) ++
    (if e.isProto ∧ m.state = .active then ["close-1002-queued"] else []) ++
    (if e = .eof ∧ gated then (match op with
        | .nextFrame true | .nextMsg true _ => ["gated-eof-async"] | _ => ["gated-eof-sync"]) else []) ++
    (if e = .eof ∧ !gated then ["abnormal-1006"] else []) ++
    (if m.state = .active ∧ m'.state = .closedByPeer then ["peer-close-answered"] else []) ++
    (if m.state = .closedByUs ∧ m'.state = .closeAcked then ["close-acked"] else []) ++
    (if m.state = .active ∧ m'.pending.any (fun f => f.op == 10) then ["pong-queued"] else []) ++
    (if m.state = .closedByUs ∧ m.inq.head?.map (·.op) = some 9 ∧ e = .nil then ["ping-after-our-close"] else [])
  match op, ob with
  | .nextFrame _, .ok (.frame e _) _ => readTags e (!canRead m)
  | .nextMsg _ _, .ok (.msg e _ _ _ _ ctl) _ =>
      readTags e (!canRead m || ctl.any (fun c => c.1 == 8)) ++ (if ctl.length > 0 then ["control-inside-message"] else []) ++
      (if e = .nil ∧ m.inq.length - m'.inq.length - ctl.length > 1 then ["fragmented-message"] else [])
  | .write _ _ _, .ok (.call e) _ | .writeFrame _ _ _ _, .ok (.call e) _ =>
      (if e = .cancelled then ["write-refused"] else []) ++ (if e = .tooBig then ["write-too-big"] else []) ++
      (if e = .nil ∧ m.pending.length > 0 then ["write-behind-control-reply"] else [])
  | .close _ _ _, .ok (.call e) _ =>
      (if e = .nil then ["local-close"] else if e = .cancelled then ["close-twice"] else ["close-after-end"])
  | .flush _, _ => (if m.pending.length > 0 then ["flush-sends"] else [])
  | _, _ => []

def check (sc : Driver.Script) : Driver.Result :=
  checkWith sc (fun n => some (Sonic.Model.WsStream.new n)) (fun m op ob res i =>
    match m with
    | none => (none, res)
    | some b =>
      let (b', mo) := Sonic.Model.WsStream.step b op
      if mo ≠ ob then
        (none, { res with modelDiff := res.modelDiff <|> some (i, s!"impl=[{showObs ob}] model=[{showObs mo}]") })
      else
        (some b', { res with tags := (tagsOf b b' op ob).foldl Driver.addTag res.tags })
  ) (fun m toks => match toks with
      | ["defer"] => none
      | ["setmax", n] => m.map fun b => { b with max := (nat? n).getD b.max }
      | _ => m)

end Driver.WsStream
