import Driver.ByteBufferSpec
import Sonic.Model.ByteBuffer

namespace Driver.ByteBuffer
open Sonic.Spec.ByteBuffer Sonic.Model.ByteBuffer Driver.ByteBufferSpec

/-- Non-default branches of the model reached by a step (coverage only). -/
def tagsOf (b b' : BB) (op : Op) (ob : Obs) : List String :=
  let rl := b.ri - b.si
  let wl := b.wi - b.ri
  (if b'.cap ≠ b.cap then ["grow"] else []) ++
  (if ob.ret.isNone then ["panic"] else []) ++
  (match op with
    | .reserve n => if n ≤ b.cap - b.wi then ["reserve-noop"] else []
    | .commit n => (if n > wl ∧ wl > 0 then ["commit-clamped"] else []) ++ (if n ≤ 0 then ["commit-nonpos"] else [])
        ++ (if 0 < n ∧ n < wl then ["commit-partial"] else [])
    | .consume n => (if n > rl ∧ rl > 0 then ["consume-clamped"] else []) ++ (if n < 0 then ["consume-neg"] else [])
        ++ (if 0 < n ∧ n < rl then ["consume-partial"] else [])
        ++ (if 0 < n ∧ rl > 0 ∧ b.si > 0 then ["consume-with-saved"] else [])
        ++ (if 0 < n ∧ rl > 0 ∧ wl > 0 then ["consume-with-pending"] else [])
    | .save n => (if n > rl ∧ rl > 0 then ["save-clamped"] else []) ++ (if n ≤ 0 then ["save-nonpos"] else [])
        ++ (if 0 < n ∧ n < rl then ["save-partial"] else [])
    | .discard i l =>
        (if l ≤ 0 then ["discard-nonpos"] else
         if 0 ≤ i ∧ i + l ≤ b.si then
           (if 0 < i ∧ i + l < b.si then ["discard-middle"] else if i = 0 ∧ l = b.si then ["discard-whole"] else ["discard-edge"])
           ++ (if b.wi > b.si then ["discard-with-tail"] else [])
         else ["discard-invalid-slot"])
    | .discardAll => if b.si > 0 then ["discardall"] else []
    | .savedSlot i l => if 0 ≤ i ∧ 0 ≤ l ∧ i + l ≤ b.si then (if l > 0 then ["savedslot"] else []) else ["savedslot-invalid-slot"]
    | .reset => if b.wi > 0 then ["reset"] else []
    | .read n => (if n = 0 then ["read-empty-dst"] else if rl = 0 then (if b.si > 0 then ["read-eof-with-saved"] else ["read-eof"])
        else if (n : Int) < rl then ["read-partial"] else ["read-all"])
    | .readByte => if rl = 0 then (if b.si > 0 then ["readbyte-eof-with-saved"] else ["readbyte-eof"]) else ["readbyte"]
    | .readFrom n _ e => if e ≠ .nil then ["readfrom-error"] else if (n : Int) > b.cap - b.wi then ["readfrom-clipped"] else if n > 0 then ["readfrom"] else []
    | .unreadByte => if wl > 0 then ["unreadbyte"] else ["unreadbyte-eof"]
    | .write bs | .writeString bs => if bs.isEmpty then ["write-empty"] else []
    | .writeByte _ => []
    | .writeTo rs => (if rl = 0 then ["writeto-empty"] else [])
        ++ (match ob.ret with
            | some (.wt n _ e) => (if e ≠ .nil then ["writeto-error"] else []) ++ (if 0 < n ∧ n < rl then ["writeto-partial"] else [])
                ++ (if rs.length > 1 ∧ n = rl ∧ rl > 1 then ["writeto-chunked"] else [])
            | _ => [])
    | .prepareRead n => (if n ≤ rl then (if n < 0 then ["prepareread-neg"] else ["prepareread-have"])
        else if n - rl ≤ wl then ["prepareread-commit"] else ["prepareread-needmore"])
    | .claim r _ => if 0 ≤ r ∧ r ≤ b.cap - b.wi then (if r = b.cap - b.wi then ["claim-exact-room"] else if r > 0 then ["claim"] else []) else ["claim-rejected"]
    | .claimFixed n _ => if 0 ≤ n ∧ n ≤ b.cap - b.wi then (if n = b.cap - b.wi then ["claimfixed-exact-room"] else if n > 0 then ["claimfixed"] else []) else ["claimfixed-rejected"]
    | .shrinkBy n => (if n > wl ∧ wl > 0 then ["shrinkby-clamped"] else []) ++ (if 0 < n ∧ n ≤ wl then ["shrinkby"] else [])
    | .shrinkTo n => (if n < 0 then ["shrinkto-neg"] else if n ≥ wl then ["shrinkto-noop"] else ["shrinkto"]))

/-- Is the reported capacity one the model allows?  (`append` may pick any capacity that fits.) -/
def envOk (b : BB) (op : Op) (c : Int) : Bool :=
  match op with
  | .reserve n => if n > b.cap - b.wi ∧ n - (b.cap - b.wi) ≤ MaxAlloc then decide (c ≥ b.wi + n) else true
  | .write bs | .writeString bs => if b.len + bs.length > b.cap then decide (c ≥ b.len + bs.length) else true
  | .writeByte _ => if b.len + 1 > b.cap then decide (c ≥ b.len + 1) else true
  | _ => true

/-- Model acceptor + monitor. The model state is `none` after the first divergence or panic. -/
def check (sc : Driver.Script) : Driver.Result :=
  checkWith sc (fun c => some (Sonic.Model.ByteBuffer.new c)) fun m op c ob res i =>
    match m with
    | none => (none, res)
    | some b =>
      let res := if envOk b op c then res
        else { res with envBad := res.envBad <|> some (i, s!"op=[{showOp op}] reported capacity {c} is smaller than what the call needed") }
      let (b', mo) := Sonic.Model.ByteBuffer.step b op c
      if mo ≠ ob then
        (none, { res with modelDiff := some (i, s!"op=[{showOp op}] impl=[{showObs ob}] model=[{showObs mo}]") })
      else
        let res := { res with tags := (tagsOf b b' op ob).foldl Driver.addTag res.tags }
        -- after a panic (other than the untouched-buffer panic of Reserve) the script has ended
        (if mo.ret.isNone ∧ mo.dump.isNone then none else some b', res)

end Driver.ByteBuffer
