import Driver.FrameCodecSpec
import Sonic.Model.FrameCodec

/-! Model acceptor + monitor for `codec` traces (property C19). -/
namespace Driver.FrameCodec
open Sonic.Spec.FrameCodec Sonic.Model.FrameCodec Driver.FrameCodecSpec

/-- Derive the capacity surpluses (`env` of `Model.step`) from the buffer sizes the implementation passed to
its transport reads (`? rd <avail>` lines): one per turn of the read loop that ends in a transport read.
Returns the surpluses, the number of transport reads the model issues, and a complaint if a size is not
one the model allows (capacity after `Reserve` below the requested one, or changed without `Reserve`). -/
def deriveEnv (limit : Nat) (async : Bool) : Nat → Conn → List Nat → List Nat → Nat → (List Nat × Nat × Option String)
  | 0, _, _, acc, k => (acc.reverse, k, none)
  | fuel + 1, c, avails, acc, k =>
    match decode limit 0 c.dec c.src with
    | (_, b, .needMore) =>
      match avails with
      | [] => (acc.reverse, k + 1, none)      -- the model issues one more transport read than the trace shows
      | a :: as =>
        let grew := b.cap ≠ c.src.cap
        let obsCap := a + b.data.length
        if obsCap < b.cap ∨ (¬ grew ∧ obsCap ≠ b.cap) then
          (acc.reverse, k + 1, some s!"transport read with a buffer of {a} bytes: capacity {obsCap}, the model requires {if grew then "at least" else "exactly"} {b.cap}")
        else
          let slack := obsCap - b.cap
          match readTurn limit slack async c with
          | (c', .again) => deriveEnv limit async fuel c' as (slack :: acc) (k + 1)
          | (_, .done _) => ((slack :: acc).reverse, k + 1, none)
    | _ => (acc.reverse, k, none)

/-- Non-default branches of the model reached by a step (coverage only). -/
def tagsOf (c c' : Conn) (op : Op) (ob : Obs) (nReads : Nat) : List String :=
  let rtags (o : RObs) : List String :=
    (match o.stat with
      | .item p => ["item"] ++ (if p.isEmpty then ["empty-payload"] else []) ++ (if o.rlen + o.wlen > p.length then ["coalesced"] else [])
                     ++ (if nReads ≥ 2 then ["item-over-several-reads"] else [])
      | .err .toobig => ["over-limit"]
      | .err .eof => ["eof"] ++ (if o.rlen + o.wlen > 0 then ["eof-mid-item"] else [])
      | .err .wouldblock => if o.rlen + o.wlen > 0 then (if o.rlen + o.wlen < 4 then ["block-in-prefix"] else ["block-in-payload"]) else []
      | .pending => if o.rlen + o.wlen > 0 then (if o.rlen + o.wlen < 4 then ["pending-in-prefix"] else ["pending-in-payload"]) else []
      | .busy => ["busy"]
      | _ => [])
    ++ (if c'.src.cap ≠ c.src.cap then ["src-grown"] else [])
    ++ (if c'.tr.inq.length = c.tr.inq.length ∧ nReads > 0 ∧ (c'.tr.inq.map List.length).sum < (c.tr.inq.map List.length).sum then ["segment-truncated-by-buffer"] else [])
  let wtags (o : WObs) : List String :=
    match o.stat with
    | .done => (if o.err = .wouldblock then ["write-wouldblock"] ++ (if o.n > 0 then ["write-partial-then-block"] else []) else [])
                 ++ (if o.err = .toobig then ["write-over-limit"] else [])
                 ++ (if o.err = .nil ∧ c.dst.data.length > 0 ∧ c.wpend.isNone then ["flush-leftover-first"] else [])
                 ++ (if c'.tr.plan.length + 1 < c.tr.plan.length then ["write-in-pieces"] else [])
    | .pending => ["write-pending"] ++ (if o.out ≠ [] then ["write-pending-partial"] else [])
    | _ => []
  match ob with
  | .r o => rtags o
  | .w o => wtags o
  | .wr w r => wtags w ++ rtags r
  | .ok => match op with
    | .feed _ => if c.rpend then ["feed-while-pending"] else []
    | _ => []

/-- Model acceptor + monitor. The model state is `none` after the first divergence. -/
def check (sc : Driver.Script) : Driver.Result :=
  checkWith sc (none : Option Conn)
    (fun outs _ res i =>
      let want := ["new", toString headerLen, toString maxPayloadLength, toString initialCap]
      if outs = want then (some Conn.new, res)
      else (none, { res with modelDiff := res.modelDiff <|> some (i, s!"op=[new] impl={outs} model={want}") }))
    (fun m op avails ob res i =>
      match m with
      | none => (none, res)
      | some c =>
        let limit := maxPayloadLength
        -- the state in which the read loop (if any) starts, and whether it is asynchronous
        let start : Option (Conn × Bool) :=
          match op with
          | .read => if c.rpend then none else some (c, false)
          | .aread => if c.rpend then none else some (c, true)
          | .pump =>
              let c1 := (pumpWrite c).1
              if c1.rpend then
                match transportRead true c1 with
                | (c2, .again) => some (c2, true)
                | _ => none
              else none
          | _ => none
        let (env, nReads, complaint) : List Nat × Nat × Option String :=
          match start with
          | some (c0, async) => deriveEnv limit async (fuelFor c0) c0 avails [] 0
          | none => ([], 0, none)
        let res := match complaint with
          | some msg => { res with envBad := res.envBad <|> some (i, msg) }
          | none => res
        let (c', mo) := Sonic.Model.FrameCodec.step limit c op env
        if mo ≠ ob then
          (none, { res with modelDiff := some (i, s!"op=[{showOp op}] impl=[{showObs ob}] model=[{showObs mo}]") })
        else if nReads ≠ avails.length then
          (none, { res with modelDiff := some (i, s!"op=[{showOp op}] the implementation issued {avails.length} transport reads, the model {nReads}") })
        else
          (some c', { res with tags := (tagsOf c c' op ob nReads).foldl Driver.addTag res.tags }))

end Driver.FrameCodec
