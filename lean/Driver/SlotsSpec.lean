import Driver.Util
import Sonic.Spec.Slots

/-! Spec-only acceptor for `slots` traces (sequencer stream `new`, offsetter-only stream `newoff`). -/
namespace Driver.SlotsSpec
open Sonic.Spec.Slots

def hexVal (c : Char) : Option Nat :=
  if '0' ≤ c ∧ c ≤ '9' then some (c.toNat - '0'.toNat)
  else if 'a' ≤ c ∧ c ≤ 'f' then some (c.toNat - 'a'.toNat + 10) else none

def hexList : List Char → Option Bytes
  | [] => some []
  | [_] => none
  | a :: b :: r => do
      let x ← hexVal a; let y ← hexVal b; let t ← hexList r
      pure (UInt8.ofNat (x * 16 + y) :: t)

/-- lowercase hex, `-` for the empty string. -/
def hex? (s : String) : Option Bytes := if s == "-" then some [] else hexList s.toList

def hexDigit (n : Nat) : Char := if n < 10 then Char.ofNat (48 + n) else Char.ofNat (87 + n)
def showHex (b : Bytes) : String :=
  if b.isEmpty then "-" else String.ofList (b.flatMap fun x => [hexDigit (x.toNat / 16), hexDigit (x.toNat % 16)])

def bool? (s : String) : Option Bool := if s == "1" then some true else if s == "0" then some false else none
def err? (s : String) : Option Bool := if s == "nil" then some false else if s == "nospace" then some true else none
def addr? (s : String) : Option (Option Bytes) := if s == "out" then some none else (hex? s).map some

def parseOp : List String → Option Op
  | ["park", q, h, n] => do let q ← int? q; let h ← hex? h; let n ← int? n; pure (.park q h n)
  | ["take", q] => (int? q).map .take
  | ["add", h, n] => do let h ← hex? h; let n ← int? n; pure (.add h n)
  | ["off", h] => (int? h).map .off
  | ["reset"] => some .reset
  | ["resetall"] => some .resetAll
  | _ => none

def parseObs : List String → Option Obs
  | ["park", a, b, ok, e, t, z, sv] => do
      let a ← int? a; let b ← int? b; let ok ← bool? ok; let e ← err? e; let t ← int? t; let z ← int? z; let sv ← hex? sv
      pure (.park a b ok e t z sv)
  | ["take", hit, a, b, ad, t, z, sv] => do
      let hit ← bool? hit; let a ← int? a; let b ← int? b; let ad ← addr? ad; let t ← int? t; let z ← int? z; let sv ← hex? sv
      pure (.take hit a b ad t z sv)
  | ["add", a, b, e, c, d, sv] => do
      let a ← int? a; let b ← int? b; let e ← err? e; let c ← int? c; let d ← int? d; let sv ← hex? sv
      pure (.add a b e c d sv)
  | ["off", a, b, ad, sv] => do
      let a ← int? a; let b ← int? b; let ad ← addr? ad; let sv ← hex? sv
      pure (.off a b ad sv)
  | ["unit"] => some .unit
  | ["skip"] => some .skip
  | ["panic"] => some .panic
  | _ => none

def showB (b : Bool) : String := if b then "1" else "0"
def showE (b : Bool) : String := if b then "nospace" else "nil"
def showA : Option Bytes → String | none => "out" | some b => showHex b

def showObs : Obs → String
  | .park a b ok e t z sv => s!"park {a} {b} {showB ok} {showE e} {t} {z} {showHex sv}"
  | .take hit a b ad t z sv => s!"take {showB hit} {a} {b} {showA ad} {t} {z} {showHex sv}"
  | .add a b e c d sv => s!"add {a} {b} {showE e} {c} {d} {showHex sv}"
  | .off a b ad sv => s!"off {a} {b} {showA ad} {showHex sv}"
  | .unit => "unit" | .skip => "skip" | .panic => "panic"

def showOp : Op → String
  | .park q h n => s!"park {q} {showHex h} {n}" | .take q => s!"take {q}"
  | .add h n => s!"add {showHex h} {n}" | .off h => s!"off {h}" | .reset => "reset" | .resetAll => "resetall"

def showParked (p : List (Int × Bytes)) : String :=
  "[" ++ ", ".intercalate (p.map fun (k, b) => s!"{k}:{showHex b}") ++ "]"

/-- Which clause of C20 an observation breaks (the finding key names the *shape* of the failure). -/
def failKey (s : S) : Op → Obs → String
  | _, .panic => "panic"
  | .park seq bytes n, .park _ _ ok err total size saved =>
      let rd := s.readable ++ bytes
      let k := saveLen n rd.length
      let parked' := if ok = true then s.parked ++ [(seq, rd.take k)] else s.parked
      if ok = true ∧ Dup s seq then "park.duplicate-accepted"
      else if ok = true ∧ (OverBytes s k ∨ OverSlots s) then "park.limit-not-reported"
      else if ok = true ∧ err = true then "park.ok-with-error"
      else if err = true then "park.error-without-limit"
      else if ¬ PushOk s seq k ok err then "park.rejected-without-reason"
      else if saved ≠ flat parked' then "park.save-area"
      else if total ≠ ((flat parked').length : Int) then "park.bytes"
      else if size ≠ (parked'.length : Int) then "park.size"
      else "park"
  | .take seq, .take hit idx len addressed total size saved =>
      match s.parked.lookup seq with
      | none => if hit = true then "take.phantom"
                else if saved ≠ flat s.parked then "take.miss-save-area" else "take.miss-totals"
      | some pkt =>
          let rest := without s.parked seq
          if hit = false then "take.lost"
          else if ¬ Addresses s.parked pkt idx len addressed then "take.addresses"
          else if saved ≠ flat rest then "take.discard"
          else if total ≠ ((flat rest).length : Int) then "take.bytes"
          else if size ≠ (rest.length : Int) then "take.size" else "take"
  | .add bytes n, .add _ _ err _ _ saved =>
      let rd := s.readable ++ bytes
      let k := saveLen n rd.length
      let parked' := if err = false then s.parked ++ [(s.next, rd.take k)] else s.parked
      if err = true ∧ ¬ IndexSpaceUsedUp s then "add.error-without-limit"
      else if saved ≠ flat parked' then "add.save-area" else "add"
  | .off h, .off idx len addressed saved =>
      match s.parked.lookup h with
      | none => "off.phantom"
      | some pkt => if ¬ Addresses s.parked pkt idx len addressed then "off.addresses"
                    else if saved ≠ flat (without s.parked h) then "off.discard" else "off"
  | op, _ => s!"{(showOp op).takeWhile (· ≠ ' ')}.shape"

/-- Replay a script against the monitor; `mstep` lets the caller (the model acceptor) follow along. -/
def checkWith {σ : Type} (sc : Driver.Script) (m0 : Int → Int → σ)
    (mstep : σ → S → Op → Obs → Driver.Result → Nat → (σ × Driver.Result)) : Driver.Result := Id.run do
  let mut res : Driver.Result := {}
  let mut m : σ := m0 0 0
  let mut s : Option S := some (init 0 0)
  let mut sLast : S := init 0 0
  let mut pending : Option Op := none
  let mut i := 0
  for ln in sc.lines do
    i := i + 1
    if ln.kind == '!' then
      match ln.toks with
      | ["new", a, b] =>
        let a := (int? a).getD 0; let b := (int? b).getD 0
        m := m0 a b; s := some (init a b); sLast := init a b; pending := none
      | ["newoff", b] =>
        let b := (int? b).getD 0
        m := m0 0 b; s := some (init 0 b); sLast := init 0 b; pending := none
      | toks =>
        match parseOp toks with
        | some op => pending := some op; res := { res with ops := res.ops + 1 }
        | none => res := { res with envBad := res.envBad <|> some (i, s!"unparsable operation: {ln.raw}") }
    else if ln.kind == '<' then
      match pending with
      | none => pure ()     -- answer to `new`
      | some op =>
        pending := none
        match parseObs ln.toks with
        | none => res := { res with envBad := res.envBad <|> some (i, s!"unparsable observation: {ln.raw}") }
        | some ob =>
          let (m', res') := mstep m sLast op ob res i
          m := m'; res := res'
          match s with
          | some st =>
            match step st op ob with
            | some st' => s := some st'; sLast := st'
            | none =>
              res := { res with specFail := some (i, s!"key=slots.{failKey st op ob} op=[{showOp op}] obs=[{showObs ob}] rejected by the parked-packets monitor (parked={showParked st.parked}, readable={showHex st.readable}, gone={st.gone}, maxSlots={st.maxSlots}, maxBytes={st.maxBytes})") }
              s := none
          | none => pure ()
  return res

def check (sc : Driver.Script) : Driver.Result :=
  checkWith sc (fun _ _ => ()) (fun _ _ _ _ r _ => ((), r))

end Driver.SlotsSpec
