import Driver.BipSpec
import Sonic.Model.Bip

namespace Driver.Bip
open Sonic.Spec.Bip Sonic.Gen.BipBuffer Driver.BipSpec

/-- Non-default branches of the implementation model reached by a step (coverage only). -/
def tagsOf (b b' : BipBuffer) (op : Op) (ob : Obs) : List String :=
  (if b'.wrappedTail > 0 then ["wrapped"] else []) ++
  (if b.wrappedTail > 0 ∧ b'.wrappedTail = 0 ∧ op ≠ .reset then ["promote"] else []) ++
  (match op, ob with
    | .claim n, .view _ len => (if len < n then ["claim-clamped"] else []) ++ (if len = 0 ∧ n > 0 then ["claim-nil"] else [])
        ++ (if b.head > 0 ∧ b'.claimHead = 0 ∧ len > 0 ∧ b.wrappedTail = 0 then ["claim-before-head"] else [])
    | .commit n, .view _ len => (if len < n ∧ len > 0 then ["commit-clamped"] else [])
        ++ (if 0 < len ∧ len < b.claimTail - b.claimHead then ["commit-partial"] else [])
    | .consume n, _ => (if n > b.tail - b.head ∧ b.tail > b.head then ["consume-over"] else [])
        ++ (if 0 < n ∧ n < b.tail - b.head then ["consume-partial"] else [])
    | _, _ => [])

/-- Model acceptor + monitor. The model state is `none` after the first divergence. -/
def check (sc : Driver.Script) : Driver.Result :=
  checkWith sc (fun n => some (Sonic.Model.Bip.new n)) fun m op ob res i =>
    match m with
    | none => (none, res)
    | some b =>
      let (b', mo) := Sonic.Model.Bip.step b op
      if mo ≠ ob then
        (none, { res with modelDiff := some (i, s!"op=[{showOp op}] impl=[{showObs ob}] model=[{showObs mo}]") })
      else
        (some b', { res with tags := (tagsOf b b' op ob).foldl Driver.addTag res.tags })

end Driver.Bip
