import Driver.Util
import Driver.WsAsyncSpec
import Sonic.Model.WsAsync
import Sonic.Model.WsAsyncObs

/-! Model acceptor for `wsconc` traces (C17): every trace line becomes a label of `Sonic.Model.WsAsync.step true`;
what the kernel decided (bytes accepted by a write, frames brought in by a read) is taken from the `?` lines, everything
else (which callback runs next and with which result, inline or deferred, `Pending()`, `State()`, the frames that
reached the peer, what is still owed at the end) is the model's prediction and is compared. -/
namespace Driver.WsAsync
open Sonic.Model.WsAsync
open Driver.WsStreamSpec (hex? nat? bool?)

structure W where
  st : St := {}
  progs : List (CbId × List Action) := []
  net : List InFrame := []          -- sent by the peer, not yet read by the adapter
  reported : Nat := 0               -- frames of `st.wire` the peer has already reported
  max : Nat := 524288

open Sonic.Model.WsAsyncObs (frameSize Call)

/-- a `call` line (or an action of a handler program) as the observation function of the refinement theorem reads it
(`Sonic.Model.WsAsyncObs.Call`: `Call.action` is the model label, `Call.ev` the monitor event) -/
def parseCallC : List String → Option Call
  | "read" :: cb :: _ => do pure (.read (← nat? cb))
  | "readmsg" :: cb :: n :: _ => do pure (.readMsg (← nat? cb) (← nat? n))
  | "write" :: cb :: ty :: n :: _ => do pure (.write (← nat? cb) (← nat? ty) (← nat? n))
  | "writeframe" :: cb :: fin :: op :: n :: _ => do pure (.writeFrame (← nat? cb) (← bool? fin) (← nat? op) (← nat? n))
  | "flush" :: cb :: _ => do pure (.flush (← nat? cb))
  | "close" :: cb :: code :: reason :: _ => do pure (.close (← nat? cb) (← nat? code) (← hex? reason))
  | "poll" :: _ => some .poll
  | _ => none

def parseAction (max : Nat) (toks : List String) : Option Action := (parseCallC toks).map (·.action max)

def splitOnSemi (toks : List String) : List (List String) :=
  (toks.foldl (fun (acc : List (List String)) t =>
    if t == ";" then [] :: acc else match acc with
      | [] => [[t]]
      | cur :: r => (cur ++ [t]) :: r) [[]]).reverse.filter (· ≠ [])

/-- what the model looks at in a frame of the peer: the abstraction of the refinement theorem -/
def inFrameOf (fin : Bool) (rsv op : Nat) (masked : Bool) (payload : List UInt8) : InFrame :=
  Sonic.Model.WsAsyncObs.absFrame { fin := fin, rsv := rsv, op := op, masked := masked, payload := payload }

def resOf : String → Res
  | "nil" => .ok | "cancelled" => .cancelled | "eof" => .eof | "toobig" => .tooBig
  | s => if s.startsWith "proto-" then .proto else .err

def showState : WsState → String
  | .active => "active" | .closedByUs => "closedbyus" | .closedByPeer => "closedbypeer" | .closeAcked => "closeacked"
  | .terminated => "terminated"

def progOf (w : W) : CbId → List Action := fun cb => (w.progs.lookup cb).getD []

/-- run the library's own continuations that are on top of the control stack -/
def taus (w : W) : Nat → W
  | 0 => w
  | n + 1 =>
    match w.st.stack with
    | .resume .. :: _ | .again .. :: _ =>
      match step true (progOf w) w.st .tau with
      | some s' => taus { w with st := s' } n
      | none => w
    | _ => w

def stepL (w : W) (l : Label) (what : String) : Except String W :=
  match step true (progOf w) w.st l with
  | some s' => .ok { w with st := s' }
  | none => .error s!"is not a transition of the model ({what}; control stack top: {reprStr (w.st.stack.head?)}, write in flight: {w.st.wr.isSome}, read armed: {w.st.rd.isSome}, flushing: {w.st.flushing}, waiters: {w.st.waiters.length}, pending: {w.st.pending.length})"

def checkObs (w : W) (toks : List String) : Except String Unit := do
  match Driver.attr? toks "st" with
  | some st => if st != showState w.st.ws then throw s!"State() differs: model {showState w.st.ws}"
  | none => pure ()
  match (Driver.attr? toks "pend").bind nat? with
  | some p => if p != w.st.pending.length then throw s!"Pending() differs: model {w.st.pending.length}"
  | none => pure ()

def tagOp : Tag → Option Nat
  | .pong _ => some 10
  | .closeApp _ | .closeReply _ | .closeViolation _ | .closeTooBig _ => some 8
  | .app _ => none

def owed (s : St) : List CbId := s.started.filter (!s.log.contains ·)

def tagsOf (s s' : St) (l : Label) : List String :=
  (if s'.waiters.length > s.waiters.length then ["flush-queued-behind-flush-in-flight"] else []) ++
  (if s.waiters.length > 0 && s'.waiters.length == 0 then ["waiters-released"] else []) ++
  (match l with
   | .wrote _ =>
     (match s.wr, s'.wr with
      | some a, some b => if a.buf == b.buf then ["write-partial"] else ["flush-goes-on-with-next-frame"]
      | _, _ => [])
   | .tau => (match s.stack with
      | .again .. :: _ => ["message-read-reissued"]
      | .resume .. :: _ => if !s.inbox.isEmpty && s'.inbox.length < s.inbox.length then ["read-completed-from-buffered-frame"] else []
      | _ => [])
   | .rdGot fs => if fs.length ≥ 2 then ["read-brought-several-frames"] else []
   | .skip _ => ["call-left-out"]
   | _ => []) ++
  (if s'.rd.isSome && s'.wr.isSome then ["read-and-write-in-flight"] else []) ++
  (if s'.pending.length ≥ 2 then ["several-frames-pending"] else []) ++
  (if s'.submitted.length > s.submitted.length && (match l with | .rdGot _ | .tau => true | _ => false) then ["reply-queued-by-read-path"] else []) ++
  (if s'.submitted.length > s.submitted.length && s.wr.isSome then ["frame-queued-while-write-in-flight"] else [])

def mstep (w0 : W) (ln : Driver.Line) : Except String (W × List String) := do
  if ln.kind == '!' then
    match ln.toks with
    | "new" :: r => return ({ w0 with max := ((Driver.attr? r "max").bind nat?).getD 524288 }, [])
    | "prog" :: cb :: body =>
      match nat? cb with
      | some cb => return ({ w0 with progs := (cb, (splitOnSemi body).filterMap (parseAction w0.max)) :: w0.progs }, [])
      | none => return (w0, [])
    | _ => return (w0, [])
  -- lines that are not model transitions
  match ln.kind, ln.toks with
  | '<', "new" :: _ => return (w0, [])
  | '<', ["peer", _, fin, rsv, op, m, p] =>
    match bool? fin, nat? rsv, nat? op, bool? m, hex? p with
    | some fin, some rsv, some op, some m, some p => return ({ w0 with net := w0.net ++ [inFrameOf fin rsv op m p] }, [])
    | _, _, _, _, _ => throw "unparsable peer frame"
  | '<', "peereof" :: _ => return (w0, [])
  | _, _ => pure ()
  let w := taus w0 64
  let fin (w' : W) (l : Label) : Except String (W × List String) :=
    pure (w', tagsOf w.st w'.st l ++ (match w0.st.stack with | .resume .. :: _ | .again .. :: _ => tagsOf w0.st w.st .tau | _ => []))
  match ln.kind, ln.toks with
  | '<', "call" :: r =>
    match parseCallC r with
    | some c =>
      -- the monitor is fed `c.ev` (Driver/WsAsyncSpec.parseCall): the two readings of the line must agree
      if Driver.WsAsyncSpec.parseCall r != some c.ev then throw "the model driver and the monitor driver read this call differently"
      let a := c.action w.max
      let w' ← stepL w (.call a) "call"; fin w' (.call a)
    | none => throw "unparsable call"
  | '<', "skip" :: r =>
    match parseAction w.max r with
    | some .poll => return (w, [])
    | some a =>
      match w.st.stack with
      | .call _ :: _ => let w' ← stepL w (.skip a) "skip"; fin w' (.skip a)
      | [] => if callOk w.st a then throw "the harness left out a call the model allows" else return (w, ["call-left-out"])
      | _ => throw "skip while the model is not about to make a call"
    | none => return (w, [])
  | '<', "ret" :: r =>
    let w' ← stepL w .ret "ret"
    checkObs w' r
    fin w' .ret
  | '<', "enter" :: cb :: res :: r =>
    match nat? cb with
    | some cb =>
      let w' ← stepL w (.enter cb (resOf res)) s!"enter {cb} {res}"
      checkObs w' r
      fin w' (.enter cb (resOf res))
    | none => throw "unparsable enter"
  | '<', "exit" :: cb :: _ =>
    match nat? cb with
    | some cb => let w' ← stepL w (.exit cb) "exit"; fin w' (.exit cb)
    | none => throw "unparsable exit"
  | '<', "ctl" :: r =>
    let w' ← stepL w .ctl "ctl"
    checkObs w' r
    fin w' .ctl
  | '?', "read" :: r =>
    match r with
    | "eof" :: _ => let w' ← stepL w .rdEof "read eof"; fin w' .rdEof
    | "err" :: _ => let w' ← stepL w .rdErr "read err"; fin w' .rdErr
    | _ =>
      match (Driver.attr? r "frames").bind nat? with
      | some k =>
        let fs := w.net.take k
        let w' ← stepL { w with net := w.net.drop k } (.rdGot fs) s!"read completing {k} frame(s)"
        fin w' (.rdGot fs)
      | none => throw "unparsable read observation"
  | '?', "write" :: r =>
    match r with
    | "err" :: _ => let w' ← stepL w .wrErr "write err"; fin w' .wrErr
    | _ =>
      match (Driver.attr? r "n").bind nat?, (Driver.attr? r "of").bind nat?, w.st.wr with
      | some n, some len, some slot =>
        if len != bufSize slot.buf - slot.sofar then
          throw s!"the buffer handed to the transport has {len} bytes, the model's write in flight has {bufSize slot.buf - slot.sofar} left"
        let w' ← stepL w (.wrote n) s!"write of {n} bytes"
        fin w' (.wrote n)
      | some _, some _, none => throw "the transport was written to while the model has no write in flight"
      | _, _, _ => throw "unparsable write observation"
  | '<', "wire" :: fs :: _ =>
    match Driver.WsAsyncSpec.wire? fs with
    | none => throw "unparsable wire"
    | some frames =>
      let exp := (w.st.wire.drop w.reported).take frames.length
      if exp.length != frames.length then throw s!"the peer parsed {frames.length} frame(s), the model has {exp.length} complete frame(s) it has not reported"
      for (g, f) in frames.zip exp do
        if frameSize g.len != f.size then throw s!"frame on the wire has payload length {g.len}, the model's next frame has encoded size {f.size}"
        match tagOp f.tag with
        | some op => if g.op != op then throw s!"frame on the wire has opcode {g.op}, the model's next frame is a control reply with opcode {op}"
        | none => pure ()
      return ({ w with reported := w.reported + frames.length }, [])
  | '<', "finish" :: r =>
    if (Driver.attr? r "healthy") == some "1" then
      let stuck := match Driver.attr? r "stuck" with
        | some "-" => []
        | some v => (v.splitOn ",").filterMap nat?
        | none => []
      let o := owed w.st
      if stuck.any (!o.contains ·) || o.any (!stuck.contains ·) then throw s!"callbacks still owed at the end: implementation {stuck}, model {o}"
    return (w, [])
  | _, _ => return (w, [])

def check (sc : Driver.Script) : Driver.Result := Driver.WsAsyncSpec.checkWith sc ({} : W) mstep

end Driver.WsAsync
