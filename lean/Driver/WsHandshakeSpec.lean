import Driver.Util
import Sonic.Spec.WsHandshake

/-! Spec-only acceptor for `wshandshake` traces (property C18): parsing of the trace lines and the monitor. -/
namespace Driver.WsHandshakeSpec
open Sonic.Spec.WsHandshake

def hexVal (c : Char) : Option Nat :=
  if '0' ≤ c ∧ c ≤ '9' then some (c.toNat - '0'.toNat)
  else if 'a' ≤ c ∧ c ≤ 'f' then some (c.toNat - 'a'.toNat + 10)
  else none

def hexGo : List Char → List UInt8 → Option (List UInt8)
  | [], acc => some acc.reverse
  | [_], _ => none
  | a :: b :: r, acc => do
      let x ← hexVal a
      let y ← hexVal b
      hexGo r (UInt8.ofNat (x * 16 + y) :: acc)

def hex? (s : String) : Option Bytes := if s = "-" then some [] else hexGo s.toList []

def hexDigit (n : Nat) : Char := if n < 10 then Char.ofNat (48 + n) else Char.ofNat (87 + n)

def showHex (b : Bytes) : String :=
  if b.isEmpty then "-" else
  String.ofList (b.foldr (fun x acc => hexDigit (x.toNat / 16) :: hexDigit (x.toNat % 16) :: acc) [])

def kv (toks : List String) (k : String) : Option String :=
  toks.findSome? fun t => match t.splitOn "=" with
    | [a, b] => if a = k then some b else none
    | _ => none

def parsePlan (toks : List String) : Option Plan := do
  let mode ← kv toks "mode"
  let head ← (kv toks "resp").bind hex?
  let trail ← (kv toks "trail").bind hex?
  let status ← (kv toks "status").bind (·.toNat?)
  let upg ← kv toks "upg"
  let acc ← kv toks "acc"
  let parse ← kv toks "parse"
  let segs ← kv toks "segs"
  let closeat ← kv toks "closeat"
  let extra ← kv toks "extra"
  let cuts := if segs = "-" then [] else (segs.splitOn ",").filterMap (·.toNat?)
  let ex := if extra = "-" then [] else (extra.splitOn ";").filterMap fun h =>
    match h.splitOn ":" with
    | k :: v => some (k, ":".intercalate v)
    | _ => none
  pure { async := mode = "async", head := head, trail := trail, cuts := cuts,
         resp := { parseOk := parse = "ok", status := status, upgrade := if upg = "-" then none else some upg, acceptOk := acc = "@" },
         closeAt := if closeat = "-" then none else closeat.toNat?, extra := ex }

def parseErr : String → Err
  | "nil" => .nil | "eof" => .eof | "cannotupgrade" => .cannotUpgrade | "malformed" => .malformed | _ => .other

def showErr : Err → String
  | .nil => "nil" | .eof => "eof" | .cannotUpgrade => "cannotupgrade" | .malformed => "malformed" | .other => "other"

def parseState : String → StState
  | "handshake" => .handshake | "active" => .active | "closed_by_us" => .closedByUs | "closed_by_peer" => .closedByPeer
  | "closed_acked" => .closeAcked | "terminated" => .terminated | _ => .unknown

def showState : StState → String
  | .handshake => "handshake" | .active => "active" | .closedByUs => "closed_by_us" | .closedByPeer => "closed_by_peer"
  | .closeAcked => "closed_acked" | .terminated => "terminated" | .unknown => "unknown"

def parseFrame : List String → Option FrameObs
  | ["frame", "none"] => some .none
  | ["frame", "err", e] => some (.err (parseErr e))
  | ["frame", "ok", fin, op, p] => do
      let op ← op.toNat?
      let p ← hex? p
      pure (.ok (fin = "1") op p)
  | _ => none

def showFrame : FrameObs → String
  | .none => "none" | .err e => s!"err {showErr e}" | .ok fin op p => s!"ok fin={fin} op={op} payload={showHex p}"

def parseHsObs (outs : List (List String)) : Option HsObs :=
  match outs with
  | [["req", rq], ["hs", e, st, pend, pc], fr, ["srvextra", x]] => do
      let pend ← pend.toNat?
      let x ← x.toNat?
      let fr ← parseFrame fr
      pure { reqOk := rq = "ok", err := parseErr e, state := parseState st, pending := pend, peerClosed := pc = "1",
             frame := fr, srvExtra := x }
  | _ => none

def showHsObs (o : HsObs) : String :=
  s!"req={if o.reqOk then "ok" else "bad"} err={showErr o.err} state={showState o.state} pending={o.pending} peerclosed={o.peerClosed} frame=[{showFrame o.frame}] srvextra={o.srvExtra}"

/-- The clause of C18 a rejected handshake observation belongs to. -/
def failKey (p : Plan) (o : HsObs) : String :=
  if ¬ o.reqOk then "wshandshake.request"
  else if o.pending ≠ 0 ∨ o.srvExtra ≠ 0 then "wshandshake.stale-session"
  else match headEnd (delivered p) with
    | some _ =>
      if p.resp.good then
        (if o.err ≠ .nil ∨ o.state ≠ .active then "wshandshake.good-response-refused"
         else "wshandshake.bytes-after-blank-line")
      else (if o.err = .nil ∨ o.state = .active then "wshandshake.bad-response-accepted" else "wshandshake.failure-state")
    | none => if o.err = .nil then "wshandshake.incomplete-response-accepted" else "wshandshake.failure-state"

structure Group where
  line : Nat
  toks : List String
  raw  : String
  outs : List (List String) := []
  last : Nat

def groups (sc : Driver.Script) : Array Group := Id.run do
  let mut out : Array Group := #[]
  let mut cur : Option Group := none
  let mut i := 0
  for ln in sc.lines do
    i := i + 1
    if ln.kind == '!' then
      if let some g := cur then out := out.push g
      cur := some { line := i, toks := ln.toks, raw := ln.raw, last := i }
    else if let some g := cur then
      if ln.kind == '<' then cur := some { g with outs := g.outs ++ [ln.toks], last := i }
  if let some g := cur then out := out.push g
  return out

/-- Replay a script against the monitor; `mstep` lets the model acceptor follow along. -/
def checkWith {σ : Type} (sc : Driver.Script) (m0 : σ)
    (mstep : σ → Op → Obs → Driver.Result → Nat → (σ × Driver.Result)) : Driver.Result := Id.run do
  let mut res : Driver.Result := {}
  let mut m : σ := m0
  for g in groups sc do
    let parsed : Option (Op × Obs) :=
      match g.toks with
      | ["new"] => (match g.outs with | [["new", st, p]] => p.toNat?.map fun p => (Op.new, Obs.st (parseState st) p) | _ => none)
      | "stale" :: _ => (match g.outs with | [["stale", st, p]] => p.toNat?.map fun p => (Op.stale, Obs.st (parseState st) p) | _ => none)
      | "hs" :: rest => do
          let p ← parsePlan rest
          let o ← parseHsObs g.outs
          pure (Op.hs p, Obs.hs o)
      | _ => none
    match parsed with
    | none => res := { res with envBad := res.envBad <|> some (g.last, s!"unparsable operation or observation: {(g.raw.take 80).toString} / {g.outs}") }
    | some (op, ob) =>
      res := { res with ops := res.ops + 1 }
      let (m', res') := mstep m op ob res g.last
      m := m'; res := res'
      if ¬ step op ob ∧ res.specFail.isNone then
        let detail := match op, ob with
          | .hs p, .hs o => s!"key={failKey p o} handshake obs=[{showHsObs o}] rejected: response good={p.resp.good} (parse={p.resp.parseOk} status={p.resp.status} upgrade={p.resp.upgrade} acceptOk={p.resp.acceptOk}), head complete={(headEnd (delivered p)).isSome}, delivered {(delivered p).length} of {p.head.length}+{p.trail.length} bytes, closed={p.closeAt.isSome}"
          | _, _ => s!"key=wshandshake.fresh-stream op={(g.raw.take 40).toString} obs={g.outs}"
        res := { res with specFail := some (g.last, detail) }
  return res

def check (sc : Driver.Script) : Driver.Result :=
  checkWith sc () (fun _ _ _ r _ => ((), r))

end Driver.WsHandshakeSpec
