import Driver.WsWriteSpec
import Driver.WsDecode
import Sonic.Model.WsWritePath

/-! Model acceptor for the harness component `wswrite` (C16): the write-path model follows the trace; the wire monitor
and the script loop are those of `Driver/WsWriteSpec.lean`. -/
namespace Driver.WsWrite
open Sonic.Model.WsWritePath Sonic.Model.WsBuf Driver.WsDecodeSpec Driver.WsWriteSpec

def toModelOp (keys : List (List UInt8)) (flen : Nat) : WsWriteSpec.SOp → Option WOp
  | .new _ => none
  | .setmax _ => none
  | .plan l => some (.plan l)
  | .defer b => some (.defer b)
  | .write a oc p => some (.write a (UInt8.ofNat oc) p keys)
  | .frame a oc fin p => some (.frame a (UInt8.ofNat oc) fin p flen keys)
  | .flush a => some (.flush a)
  | .close a code r => some (.close a code r keys)
  | .pump => some .pump

def toEName : Err → EName
  | .nil => .nil | .tooBig => .tooBig | .cancelled => .cancelled | .eof => .eof

def modelSeen (s : WS) (o : Sonic.Model.WsWritePath.Out) : Seen :=
  { res := o.res.map toEName, cbs := o.cbs.map fun c => (c.1, toEName c.2), wire := o.wire, segs := o.segs,
    pending := s.pending.length, dst := match s.inflight with | some w => w.bytes.length | none => 0 }

def tagsOf (op : WOp) (s s' : WS) (o : Sonic.Model.WsWritePath.Out) : List String :=
  (match op with
    | .write a _ p _ => [if a then "awrite" else "write"] ++ (if p.length = 0 then ["empty-payload"] else if p.length ≤ 125 then ["len7"] else if p.length ≤ 65535 then ["len16"] else ["len64"])
        ++ (if (p.length : Int) > s.max then ["above-max"] else []) ++ (if (p.length : Int) = s.max then ["len=max"] else [])
    | .frame a _ _ p flen _ => [if a then "aframe" else "frame"] ++ (match p with | none => ["no-setpayload"] ++ (if flen > 14 then ["stale-pooled-length"] else []) | some b => if b.length = 0 then ["empty-payload"] else [])
        ++ (if flen > 14 then ["pooled-reuse"] else []) ++ (if flen < 14 then ["pooled-shrunk"] else [])
    | .close _ _ _ _ => ["close"]
    | .flush a => if a then ["aflush"] else []
    | .pump => if s.inflight.isSome then ["pump-progress"] else []
    | _ => [])
  ++ (if o.segs.length > 1 then ["partial-writes"] else [])
  ++ (if o.segs.any (· = 0) then ["would-block"] else [])
  ++ (if o.cbs.any (·.2 = Err.cancelled) ∨ o.res = some .cancelled then ["cancelled"] else [])
  ++ (if s'.waiters.length > 0 then ["flush-waiter"] else [])
  ++ (if s'.inflight.isSome then ["in-flight"] else [])
  ++ (if o.cbs.length > 1 then ["waiters-run"] else [])

def hookStep (ms : WS) (id : Nat) (sop : WsWriteSpec.SOp) (keys : List (List UInt8)) (flen : Nat) (seen : Seen) (i : Nat) (res : Driver.Result) :
    Option WS × Driver.Result :=
  match sop with
  | .setmax max => (some { ms with max := max }, { res with tags := Driver.addTag res.tags "max-changed-on-live-stream" })
  | _ =>
  match toModelOp keys flen sop with
  | none => (some ms, res)
  | some op =>
    match step ms id op with
    | .error .env =>
      (none, { res with envBad := res.envBad <|> some (i, s!"the masking keys drawn ({keys.length}) are not what the model expects") })
    | .error e =>
      (none, { res with modelDiff := res.modelDiff <|> some (i, s!"impl=[{showSeen seen}] model=[{Driver.WsDecode.showPanic e}]") })
    | .ok none =>
      (none, { res with envBad := res.envBad <|> some (i, "the script leaves the modelled usage (blocking call during an asynchronous flush, or a transport that never accepts a byte)") })
    | .ok (some (ms', o)) =>
      let mo := modelSeen ms' o
      if mo ≠ seen then (none, { res with modelDiff := res.modelDiff <|> some (i, s!"impl=[{showSeen seen}] model=[{showSeen mo}]") })
      else (some ms', { res with tags := (tagsOf op ms ms' o).foldl Driver.addTag res.tags })

def check (sc : Driver.Script) : Driver.Result := checkWith (some { init := WS.init, step := hookStep }) sc

end Driver.WsWrite
