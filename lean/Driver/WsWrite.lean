import Driver.Util
import Driver.WsDecode
import Sonic.Spec.WsWire
import Sonic.Model.WsWritePath

/-! Trace acceptor for the harness component `wswrite` (C16). -/
namespace Driver.WsWrite
open Sonic.Model.WsWritePath Sonic.Model.WsBuf Driver.WsDecode
open Sonic.Spec.WsWire (Req Res)

/-- `@n:seed` payloads of the harness: byte i = (i*7 + seed + i/251) % 256. -/
def payload? (s : String) : Option (List UInt8) :=
  if s.startsWith "@" then
    match (s.drop 1).toString.splitOn ":" with
    | [n, seed] => do
      let n ← n.toNat?
      let seed ← seed.toNat?
      pure ((List.range n).map fun i => UInt8.ofNat ((i * 7 + seed + i / 251) % 256))
    | _ => none
  else unhex s

inductive POp where
  | new (max : Int)
  | op (w : Option (List (List UInt8)) → Nat → Option WOp)   -- given the keys and flen of the environment

def opcodeOf (t : String) : Option UInt8 := if t = "text" then some 1 else if t = "binary" then some 2 else none

def parseOp : List String → Option POp
  | ["new", m] => (int? m).map .new
  | "plan" :: l => do
      let l ← l.mapM (·.toNat?)
      pure (.op fun _ _ => some (.plan l))
  | ["defer", b] => do let b ← bool? b; pure (.op fun _ _ => some (.defer b))
  | [w, t, p] =>
      if w = "write" ∨ w = "awrite" then do
        let oc ← opcodeOf t
        let p ← payload? p
        pure (.op fun keys _ => keys.map fun k => .write (w = "awrite") oc p k)
      else if w = "close" ∨ w = "aclose" then do
        let code ← t.toNat?
        let r ← unhex p
        pure (.op fun keys _ => keys.map fun k => .close (w = "aclose") code r k)
      else none
  | [w, oc, fin, p] =>
      if w = "frame" ∨ w = "aframe" then do
        let oc ← oc.toNat?
        let fin ← bool? fin
        let p ← if p = "none" then some none else (payload? p).map some
        pure (.op fun keys flen => keys.map fun k => .frame (w = "aframe") (UInt8.ofNat oc) fin p flen k)
      else none
  | ["flush"] => some (.op fun _ _ => some (.flush false))
  | ["aflush"] => some (.op fun _ _ => some (.flush true))
  | ["pump"] => some (.op fun _ _ => some .pump)
  | _ => none

def err? (s : String) : Option Err :=
  if s = "nil" then some .nil else if s = "toobig" then some .tooBig else if s = "cancelled" then some .cancelled
  else if s = "eof" then some .eof else none

def showErr : Err → String
  | .nil => "nil" | .tooBig => "toobig" | .cancelled => "cancelled" | .eof => "eof"

structure Seen where
  res : Option Err
  cbs : List (Nat × Err)
  wire : List UInt8
  segs : List Nat
  pending : Nat
  dst : Nat
  deriving DecidableEq

def parseCbs (s : String) : Option (List (Nat × Err)) :=
  if s = "-" then some [] else
  (s.splitOn ",").mapM fun e => match e.splitOn ":" with
    | [i, er] => do pure (← i.toNat?, ← err? er)
    | _ => none

def parseSegs (s : String) : Option (List Nat) :=
  if s = "-" then some [] else (s.splitOn ",").mapM (·.toNat?)

def parseSeen : List String → Option Seen
  | [res, "cbs", cbs, "wire", w, "segs", sg, "pending", p, "dst", d] => do
      let r ← if res = "-" then some none else (err? res).map some
      pure { res := r, cbs := ← parseCbs cbs, wire := ← unhex w, segs := ← parseSegs sg, pending := ← p.toNat?, dst := ← d.toNat? }
  | _ => none

def showSeen (o : Seen) : String :=
  s!"{match o.res with | none => "-" | some e => showErr e} cbs {o.cbs.map fun c => s!"{c.1}:{showErr c.2}"} wire {hex (o.wire.take 24)}({o.wire.length}) segs {o.segs} pending {o.pending} dst {o.dst}"

def modelSeen (s : WS) (o : Sonic.Model.WsWritePath.Out) : Seen :=
  { res := o.res, cbs := o.cbs, wire := o.wire, segs := o.segs,
    pending := s.pending.length, dst := match s.inflight with | some w => w.bytes.length | none => 0 }

def tagsOf (op : WOp) (s s' : WS) (o : Sonic.Model.WsWritePath.Out) : List String :=
  (match op with
    | .write a _ p _ => [if a then "awrite" else "write"] ++ (if p.length = 0 then ["empty-payload"] else if p.length ≤ 125 then ["len7"] else if p.length ≤ 65535 then ["len16"] else ["len64"])
        ++ (if (p.length : Int) > s.max then ["above-max"] else []) ++ (if (p.length : Int) = s.max then ["len=max"] else [])
    | .frame a _ _ p flen _ => [if a then "aframe" else "frame"] ++ (match p with | none => ["no-setpayload"] ++ (if flen > 14 then ["stale-pooled-length"] else []) | some b => if b.length = 0 then ["empty-payload"] else [])
        ++ (if flen > 14 then ["pooled-reuse"] else [])
    | .close _ _ _ _ => ["close"]
    | .flush a => if a then ["aflush"] else []
    | .pump => if s.inflight.isSome then ["pump-progress"] else []
    | _ => [])
  ++ (if o.segs.length > 1 then ["partial-writes"] else [])
  ++ (if o.segs.any (· = 0) then ["would-block"] else [])
  ++ (if o.cbs.any (·.2 = Err.cancelled) ∨ o.res = some .cancelled then ["cancelled"] else [])
  ++ (if s'.waiters.length > 0 then ["flush-waiter"] else [])
  ++ (if s'.inflight.isSome then ["in-flight"] else [])
  ++ (if o.cbs.length > 1 then ["waiters-run"] else [])

/-- The monitor's view of an operation. -/
def specOp (id : Nat) : WOp → Sonic.Spec.WsWire.Op
  | .write _ oc p _ => .submit id true { fin := true, opcode := oc.toNat % 16, payload := p }
  | .frame _ oc fin p _ _ => .submit id false { fin := fin, opcode := oc.toNat % 16, payload := p.getD [] }
  | .close _ code reason _ => .submit id false { fin := true, opcode := 8, payload := Sonic.Spec.WsFrame.beBytes 2 (code % 65536) ++ reason }
  | _ => .other id

def specObs (o : Seen) : Sonic.Spec.WsWire.Obs :=
  { res := match o.res with | none => .none | some .nil => .ok | some .tooBig => .tooBig | some _ => .refused,
    done := o.cbs.map fun c => (c.1, decide (c.2 = .nil)), wire := o.wire }

def checkWith (withModel : Bool) (sc : Driver.Script) : Driver.Result := Id.run do
  let mut res : Driver.Result := {}
  let mut m : Option WS := none
  let mut s : Option Sonic.Spec.WsWire.S := none
  let mut pending : Option POp := none
  let mut keys : List (List UInt8) := []
  let mut flen : Nat := 14
  let mut i := 0
  let mut id := 0    -- index of the operation within the script (0-based, as the harness numbers callbacks)
  for ln in sc.lines do
    i := i + 1
    if ln.kind == '!' then
      keys := []; flen := 14
      match parseOp ln.toks with
      | some op => pending := some op; res := { res with ops := res.ops + 1 }
      | none => pending := none; res := { res with envBad := res.envBad <|> some (i, s!"unparsable operation: {ln.raw.take 80}") }
    else if ln.kind == '?' then
      match ln.toks with
      | ["key", k] => keys := keys ++ [(unhex k).getD []]
      | ["flen", n] => flen := n.toNat?.getD 14
      | _ => res := { res with envBad := res.envBad <|> some (i, s!"unknown environment line: {ln.raw.take 80}") }
    else if ln.kind == '<' then
      let myId := id
      id := id + 1
      match pending with
      | none => pure ()
      | some (.new max) =>
        pending := none
        m := if withModel then some (WS.init max) else none
        s := some (Sonic.Spec.WsWire.init max)
      | some (.op mk) =>
        pending := none
        if ln.toks == ["panic"] then
          res := { res with specFail := res.specFail <|> some (i, "key=wswrite.panic the call panicked") }
          m := none; s := none
        else
        match mk (some keys) flen, parseSeen ln.toks with
        | some op, some seen =>
          if let some ms := m then
            match step ms myId op with
            | .error .env =>
              res := { res with envBad := res.envBad <|> some (i, s!"the number of masking keys drawn ({keys.length}) is not what the model expects") }
              m := none
            | .error e =>
              res := { res with modelDiff := res.modelDiff <|> some (i, s!"impl=[{showSeen seen}] model=[{showPanic e}]") }
              m := none
            | .ok none =>
              res := { res with envBad := res.envBad <|> some (i, "the script leaves the modelled usage (blocking call during an asynchronous flush, or a transport that never accepts a byte)") }
              m := none
            | .ok (some (ms', o)) =>
              let mo := modelSeen ms' o
              if mo ≠ seen then
                res := { res with modelDiff := res.modelDiff <|> some (i, s!"impl=[{showSeen seen}] model=[{showSeen mo}]") }
                m := none
              else
                m := some ms'
                res := { res with tags := (tagsOf op ms ms' o).foldl Driver.addTag res.tags }
          if let some st := s then
            match Sonic.Spec.WsWire.step st (specOp myId op) (specObs seen) with
            | .ok st' => s := some st'
            | .error d =>
              res := { res with specFail := some (i, s!"{d}; op=[{ln.raw.take 0}{(sc.lines.toList.filter (·.kind == '!')).getD myId ln |>.raw.take 60}] obs=[{showSeen seen}]") }
              s := none
        | _, _ => res := { res with envBad := res.envBad <|> some (i, s!"unparsable result line: {ln.raw.take 80}") }
  return res

def check (sc : Driver.Script) : Driver.Result := checkWith true sc
def checkSpec (sc : Driver.Script) : Driver.Result := checkWith false sc

end Driver.WsWrite
