import Driver.FdsSpec
import Sonic.Model.Resources

/-! Model acceptor for `fds` traces: the descriptor-table model with guarded Close and lowest-free allocation. -/
namespace Driver.Fds
open Sonic.Model.Resources
open Sonic.Spec.Resources (Obs sortNat)

structure M where
  base : List Nat := []
  w    : Option World := some {}

def nfds (kind : String) : Nat := if kind == "io" || kind == "pipe" then 2 else 1

def modelAlive (w : World) : List Nat := sortNat (w.table.map (·.1))

def onOp (m : M) (op : Sonic.Spec.Resources.Op) (ob : Obs) (kind : String) (res : Driver.Result) (i : Nat) : M × Driver.Result :=
  match m.w with
  | none => (m, res)
  | some w =>
    match op, ob with
    | .new k kd, .created fds alive =>
      let used := m.base ++ w.table.map (·.1)
      let want := allocN used (if kd == "peer" then 1 else nfds kind)
      let res := if fds == want then res else
        { res with envBad := res.envBad <|> some (i, s!"descriptor numbers {fds} of new {kd} {k}: the lowest free numbers are {want}") }
      -- a number that some closed object still stores is being handed out again
      let res := if w.objs.any (fun o => o.closed && o.fds.any fds.contains) then { res with tags := Driver.addTag res.tags "number-reused" } else res
      match step true w (.new k fds) with
      | none => ({ m with w := none }, { res with modelDiff := res.modelDiff <|> some (i, s!"new {kd} {k} with descriptors {fds}: impossible in the model (number open or id in use)") })
      | some w' =>
        if modelAlive w' == alive then ({ m with w := some w' }, res)
        else ({ m with w := none }, { res with modelDiff := res.modelDiff <|> some (i, s!"after new {kd} {k}: impl alive={alive} model alive={modelAlive w'}") })
    | .close k, .closed alive =>
      let res := match getObj w k with
        | some o =>
          let res := if o.closed then { res with tags := Driver.addTag res.tags "close-again" } else res
          if o.closed && o.fds.any (isOpen w) then { res with tags := Driver.addTag res.tags "close-again-number-taken" } else res
        | none => res
      match step true w (.close k) with
      | none => ({ m with w := none }, { res with modelDiff := res.modelDiff <|> some (i, s!"close {k}: no such object in the model") })
      | some w' =>
        if modelAlive w' == alive then ({ m with w := some w' }, res)
        else ({ m with w := none }, { res with modelDiff := res.modelDiff <|> some (i, s!"after close {k}: impl alive={alive} model alive={modelAlive w'}") })
    | _, _ => (m, res)

def check (sc : Driver.Script) : Driver.Result :=
  Driver.FdsSpec.checkWith sc { init := ({} : M), base := fun m b => { m with base := b }, onOp := onOp }

end Driver.Fds
