import Driver.Util
import Sonic.Spec.FrameCodec

/-! Spec-only acceptor for `codec` traces (property C19): parsing of the trace lines and the monitor. -/
namespace Driver.FrameCodecSpec
open Sonic.Spec.FrameCodec

def hexVal (c : Char) : Option Nat :=
  if '0' ≤ c ∧ c ≤ '9' then some (c.toNat - '0'.toNat)
  else if 'a' ≤ c ∧ c ≤ 'f' then some (c.toNat - 'a'.toNat + 10)
  else none

def hexGo : List Char → List UInt8 → Option (List UInt8)
  | [], acc => some acc.reverse
  | [_], _ => none
  | a :: b :: r, acc => do
      let x ← hexVal a
      let y ← hexVal b
      hexGo r (UInt8.ofNat (x * 16 + y) :: acc)

def hex? (s : String) : Option Bytes := if s = "-" then some [] else hexGo s.toList []

def hexDigit (n : Nat) : Char := if n < 10 then Char.ofNat (48 + n) else Char.ofNat (87 + n)

def showHex (b : Bytes) : String :=
  if b.isEmpty then "-" else
  let s := String.ofList (b.foldr (fun x acc => hexDigit (x.toNat / 16) :: hexDigit (x.toNat % 16) :: acc) [])
  if b.length ≤ 24 then s else s!"{(s.take 32).toString}…({b.length} bytes)"

def nats? (xs : List String) : Option (List Nat) := xs.mapM (·.toNat?)

def parseOp : List String → Option Op
  | ["feed", h] => (hex? h).map .feed
  | ["eof"] => some .eof
  | "plan" :: ks => (nats? ks).map .plan
  | ["defer", b] => some (.defer (b == "1"))
  | ["read"] => some .read
  | ["aread"] => some .aread
  | ["write", h] => (hex? h).map .write
  | ["awrite", h] => (hex? h).map .awrite
  | ["pump"] => some .pump
  | _ => none

def parseErr : String → Err
  | "nil" => .nil | "eof" => .eof | "wouldblock" => .wouldblock | "toobig" => .toobig
  | "needmore" => .needmore | "cancelled" => .cancelled | _ => .other

def showErr : Err → String
  | .nil => "nil" | .eof => "eof" | .wouldblock => "wouldblock" | .toobig => "toobig"
  | .needmore => "needmore" | .cancelled => "cancelled" | .other => "other"

def parseR : List String → Option RObs
  | ["r", st, arg, cap, rl, wl] => do
      let cap ← cap.toNat?
      let rl ← rl.toNat?
      let wl ← wl.toNat?
      let stat ← match st with
        | "item" => (hex? arg).map RStat.item
        | "err" => some (.err (parseErr arg))
        | "pending" => some .pending
        | "none" => some .none
        | "busy" => some .busy
        | "panic" => some .panic
        | "stuck" => some .stuck
        | _ => none
      pure { stat := stat, cap := cap, rlen := rl, wlen := wl }
  | _ => none

def parseW : List String → Option WObs
  | ["w", st, n, e, out, rl, wl] => do
      let n ← n.toNat?
      let out ← hex? out
      let rl ← rl.toNat?
      let wl ← wl.toNat?
      let stat ← match st with
        | "done" => some WStat.done
        | "pending" => some .pending
        | "none" => some .none
        | "busy" => some .busy
        | "panic" => some .panic
        | _ => none
      pure { stat := stat, n := n, err := parseErr e, out := out, rlen := rl, wlen := wl }
  | _ => none

def showRStat : RStat → String
  | .item p => s!"item {showHex p}" | .err e => s!"err {showErr e}" | .pending => "pending" | .none => "none"
  | .busy => "busy" | .panic => "panic" | .stuck => "stuck"

def showR (o : RObs) : String := s!"r {showRStat o.stat} cap={o.cap} src={o.rlen}/{o.wlen}"

def showWStat : WStat → String
  | .done => "done" | .pending => "pending" | .none => "none" | .busy => "busy" | .panic => "panic"

def showW (o : WObs) : String := s!"w {showWStat o.stat} n={o.n} err={showErr o.err} out={showHex o.out} dst={o.rlen}/{o.wlen}"

def showObs : Obs → String
  | .ok => "ok" | .r o => showR o | .w o => showW o | .wr w r => s!"{showW w} | {showR r}"

def opName : Op → String
  | .feed _ => "feed" | .eof => "eof" | .plan _ => "plan" | .defer _ => "defer" | .read => "read" | .aread => "aread"
  | .write _ => "write" | .awrite _ => "awrite" | .pump => "pump"

def showOp : Op → String
  | .feed b => s!"feed {showHex b}" | .plan ks => s!"plan {ks}" | .defer b => s!"defer {b}"
  | .write p => s!"write {showHex p}" | .awrite p => s!"awrite {showHex p}" | op => opName op

/-- What the observation of an operation consists of, assembled from its `<` lines. -/
def parseObs (op : Op) (outs : List (List String)) : Option Obs :=
  match op, outs with
  | .read, [l] | .aread, [l] => (parseR l).map .r
  | .write _, [l] | .awrite _, [l] => (parseW l).map .w
  | .pump, [l1, l2] => do let w ← parseW l1; let r ← parseR l2; pure (.wr w r)
  | _, [["ok"]] => some .ok
  | _, _ => none

/-- The clause of C19 a rejected observation belongs to (stable key of the failure's shape). -/
def failKey (st : S) (op : Op) (ob : Obs) : String :=
  let rkey (o : RObs) : String := match o.stat with
    | .panic => "panic" | .stuck => "stuck" | .item _ => "item" | .err .toobig => "overflow"
    | .err _ => "lost" | .pending => "lost" | _ => "state"
  let wkey (o : WObs) : String := match o.stat with
    | .panic => "panic" | .done => (if o.err = .nil then "flush" else "wire") | .pending => "wire" | _ => "state"
  match ob with
  | .r o => s!"codec.read.{rkey o}"
  | .w o => s!"codec.write.{wkey o}"
  | .wr w r => if (onPumpWrite st w).isNone then s!"codec.write.{wkey w}" else s!"codec.read.{rkey r}"
  | .ok => s!"codec.{opName op}"

structure Group where
  line   : Nat                       -- 1-based index of the `!` line
  toks   : List String
  raw    : String
  avails : List Nat := []
  outs   : List (List String) := []
  last   : Nat                       -- index of the group's last line

def groups (sc : Driver.Script) : Array Group := Id.run do
  let mut out : Array Group := #[]
  let mut cur : Option Group := none
  let mut i := 0
  for ln in sc.lines do
    i := i + 1
    if ln.kind == '!' then
      if let some g := cur then out := out.push g
      cur := some { line := i, toks := ln.toks, raw := ln.raw, last := i }
    else if let some g := cur then
      if ln.kind == '?' then
        match ln.toks with
        | ["rd", a] => cur := some { g with avails := g.avails ++ [a.toNat?.getD 0], last := i }
        | _ => cur := some { g with last := i }
      else
        cur := some { g with outs := g.outs ++ [ln.toks], last := i }
  if let some g := cur then out := out.push g
  return out

/-- Replay a script against the monitor; `mstep` lets the model acceptor follow along, `mnew` resets it. -/
def checkWith {σ : Type} (sc : Driver.Script) (m0 : σ)
    (mnew : List String → σ → Driver.Result → Nat → (σ × Driver.Result))
    (mstep : σ → Op → List Nat → Obs → Driver.Result → Nat → (σ × Driver.Result)) : Driver.Result := Id.run do
  let mut res : Driver.Result := {}
  let mut m : σ := m0
  let mut s : Option S := none
  for g in groups sc do
    match g.toks with
    | ["new"] =>
      -- `< new <HeaderLen> <MaxPayloadLength> <cap>`: the monitor takes the limit and the initial capacity from it
      match g.outs with
      | [["new", _, lim, cap]] =>
        s := some (init (lim.toNat?.getD 0) (cap.toNat?.getD 0))
        let (m', res') := mnew (g.outs.headD []) m res g.last
        m := m'; res := res'
      | _ => res := { res with envBad := res.envBad <|> some (g.last, s!"malformed answer to new: {g.outs}") }
    | toks =>
      match parseOp toks with
      | none => res := { res with envBad := res.envBad <|> some (g.line, s!"unparsable operation: {g.raw}") }
      | some op =>
        res := { res with ops := res.ops + 1 }
        match parseObs op g.outs with
        | none => res := { res with envBad := res.envBad <|> some (g.last, s!"unparsable observation for {g.raw}: {g.outs}") }
        | some ob =>
          let (m', res') := mstep m op g.avails ob res g.last
          m := m'; res := res'
          match s with
          | some st =>
            match step st op ob with
            | some st' => s := some st'
            | none =>
              res := { res with specFail := some (g.last, s!"key={failKey st op ob} op=[{showOp op}] obs=[{showObs ob}] rejected by the frame-stream monitor (unparsed input={showHex st.inb}, front={match front st.limit st.inb with | .item p _ => "item " ++ showHex p | .incomplete => "incomplete" | .tooBig => "tooBig"}, rejected={st.rejected}, eof={st.eof}, rpend={st.rpend}, cap={st.cap}, owed={showHex st.owed}, wpend={st.wpend})") }
              s := none
          | none => pure ()
  return res

def check (sc : Driver.Script) : Driver.Result :=
  checkWith sc () (fun _ _ r _ => ((), r)) (fun _ _ _ _ r _ => ((), r))

end Driver.FrameCodecSpec
