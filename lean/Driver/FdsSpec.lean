import Driver.Util
import Sonic.Spec.Resources

/-! Spec-only acceptor for `fds` traces (Close / create interleavings, property C13). -/
namespace Driver.FdsSpec
open Sonic.Spec.Resources

def nats? (l : List String) : Option (List Nat) := l.mapM (·.toNat?)

def showNats (l : List Nat) : String := " ".intercalate (l.map toString)

/-- Hook for the model acceptor: called with the completed operation(s) of one `!` line. -/
structure Hook (σ : Type) where
  init  : σ
  base  : σ → List Nat → σ
  /-- operation, its observation, line index -/
  onOp  : σ → Op → Obs → String → Driver.Result → Nat → (σ × Driver.Result)

def checkWith {σ : Type} (sc : Driver.Script) (h : Hook σ) : Driver.Result := Id.run do
  let mut res : Driver.Result := {}
  let mut m : σ := h.init
  let mut s : Option S := some {}
  let mut pending : Option Op := none
  let mut fds : List Nat := []
  let mut peer : List Nat := []
  let mut kind := ""
  let mut i := 0
  for ln in sc.lines do
    i := i + 1
    if ln.kind == '!' then
      match ln.toks with
      | ["open"] => pending := none
      | ["new", kd, k] =>
        match k.toNat? with
        | some k => pending := some (.new k kd); kind := kd; fds := []; peer := []; res := { res with ops := res.ops + 1 }
        | none => res := { res with envBad := res.envBad <|> some (i, s!"unparsable operation: {ln.raw}") }
      | ["close", k] =>
        match k.toNat? with
        | some k => pending := some (.close k); res := { res with ops := res.ops + 1 }
        | none => res := { res with envBad := res.envBad <|> some (i, s!"unparsable operation: {ln.raw}") }
      | _ => res := { res with envBad := res.envBad <|> some (i, s!"unparsable operation: {ln.raw}") }
    else if ln.kind == '?' then
      match ln.toks with
      | "base" :: l => m := h.base m ((nats? l).getD [])
      | "fds" :: l => fds := (nats? l).getD []
      | "peer" :: l => peer := (nats? l).getD []
      | _ => pure ()
    else if ln.kind == '<' then
      match ln.toks, pending with
      | "alive" :: l, some op =>
        pending := none
        let alive := (nats? l).getD []
        -- a connection comes with the peer's accepted socket: a second object (id 1000 + k) owned by the harness
        let steps : List (Op × Obs) := match op with
          | .new k kd =>
            if peer.isEmpty then [(.new k kd, .created fds alive)]
            else [(.new k kd, .created fds (alive.filter (fun x => !peer.contains x))), (.new (1000 + k) "peer", .created peer alive)]
          | .close k => [(.close k, .closed alive)]
        for (o, ob) in steps do
          let (m', res') := h.onOp m o ob kind res i
          m := m'; res := res'
          match s with
          | some st =>
            match step st o ob with
            | .ok st' => s := some st'
            | .error key =>
              res := { res with specFail := res.specFail <|> some (i, s!"key=fds.{key} op=[{ln.raw}] alive=[{showNats alive}] tracked=[{showNats (fdsOf st)}]: the descriptors open after this operation are not the ones the property allows") }
              s := none
          | none => pure ()
      | _, _ => pure ()
  return res

def check (sc : Driver.Script) : Driver.Result :=
  checkWith sc { init := (), base := fun _ _ => (), onOp := fun _ _ _ _ r _ => ((), r) }

end Driver.FdsSpec
