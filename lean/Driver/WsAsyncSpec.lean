import Driver.Util
import Driver.WsStreamSpec
import Sonic.Spec.WsAsync

/-! Spec-only acceptor for `wsconc` traces (C17): parsing + the ledger / wire-order monitor. -/
namespace Driver.WsAsyncSpec
open Sonic.Spec.WsAsync
open Sonic.Spec.WsStream (Bytes InFrame StreamState)
open Driver.WsStreamSpec (hex? nat? bool? state? inFrame? kv)

def res? : String → Res
  | "nil" => .ok | "cancelled" => .cancelled | "eof" => .eof | "toobig" => .tooBig
  | s => if s.startsWith "proto-" then .proto else .err

def hex64? (s : String) : Option UInt64 :=
  s.toList.foldlM (fun (acc : Nat) c => (Driver.hexVal c).map (acc * 16 + ·)) 0 |>.map UInt64.ofNat

def wireFrame? (s : String) : Option WireFrame :=
  match s.splitOn ":" with
  | [fin, rsv, op, m, len, h, head] => do
    pure { fin := ← bool? fin, rsv := ← nat? rsv, op := ← nat? op, masked := ← bool? m, len := ← nat? len,
           hash := ← hex64? h, head := ← hex? head }
  | _ => none

def wire? (s : String) : Option (List WireFrame) :=
  if s == "-" then some [] else (s.splitOn ",").mapM wireFrame?

def attrState (toks : List String) : Option StreamState := (Driver.attr? toks "st").bind state?

def parseCall : List String → Option Ev
  | "read" :: cb :: _ => do pure (.callRead (← nat? cb))
  | "readmsg" :: cb :: n :: _ => do pure (.callReadMsg (← nat? cb) (← nat? n))
  | "write" :: cb :: ty :: n :: _ => do pure (.callWrite (← nat? cb) (← nat? ty) (← nat? n))
  | "writeframe" :: cb :: fin :: op :: n :: _ => do pure (.callWriteFrame (← nat? cb) (← bool? fin) (← nat? op) (← nat? n))
  | "flush" :: cb :: _ => do pure (.callFlush (← nat? cb))
  | "close" :: cb :: code :: reason :: _ => do pure (.callClose (← nat? cb) (← nat? code) (← hex? reason))
  | "poll" :: _ => some .callPoll
  | _ => none

def parseEv : List String → Option Ev
  | "call" :: r => parseCall r
  | "ret" :: r => (attrState r).map .ret
  | "enter" :: cb :: res :: r => do
      let frame ← match Driver.attr? r "f" with
        | some f => inFrame? f
        | none => some none
      let data ← match Driver.attr? r "data" with
        | some d => (hex? d).map some
        | none => some none
      pure (.enter (← nat? cb) (res? res) frame data (← attrState r))
  | "exit" :: cb :: _ => do pure (.exit (← nat? cb))
  | "ctl" :: op :: p :: r => do pure (.ctl (← nat? op) (← hex? p) (← attrState r))
  | "skip" :: _ => some .skip
  | ["peer", _, fin, rsv, op, m, p] => do
      pure (.peer { fin := ← bool? fin, rsv := ← nat? rsv, op := ← nat? op, masked := ← bool? m, payload := ← hex? p })
  | ["peereof"] => some .peerEof
  | "wire" :: w :: _ => (wire? w).map .wire
  | "finish" :: r => do
      pure (.finish (← (Driver.attr? r "partial").bind nat?) ((Driver.attr? r "healthy") == some "1"))
  | _ => none

def depthOf (s : S) : Nat := (s.stack.filter fun f => match f with | .handler _ => true | _ => false).length

def inFlight (s : S) (p : Kind → Bool) : Bool := s.cbs.any fun c => !c.done && c.returned && p c.kind

/-- coverage tags from the monitor's view of one event -/
def tagsOf (s : S) (e : Ev) : List String :=
  match e with
  | .callRead _ | .callReadMsg _ _ =>
    (if depthOf s > 0 then ["read-started-in-callback"] else []) ++
    (if inFlight s (!·.isRead) then ["read-started-with-write-in-flight"] else [])
  | .callWrite .. | .callWriteFrame .. | .callFlush _ | .callClose .. =>
    (if depthOf s > 0 then ["write-started-in-callback"] else []) ++
    (if inFlight s (!·.isRead) then ["write-started-with-write-in-flight"] else []) ++
    (if inFlight s (·.isRead) then ["write-started-with-read-in-flight"] else []) ++
    (if !s.expect.isEmpty then ["write-started-with-frames-not-yet-on-wire"] else [])
  | .enter cb res frame _ _ =>
    let c := (findCb s cb).getD default
    (if c.returned then ["deferred-completion"] else ["inline-completion"]) ++
    (if res != .ok then ["non-ok-result"] else []) ++
    (match frame with
     | some f => (if f.op == 9 then ["ping-delivered"] else []) ++ (if f.op == 8 then ["close-delivered"] else [])
     | none => []) ++
    (if c.kind.isRead && inFlight s (!·.isRead) then ["read-completed-with-write-in-flight"] else []) ++
    (if !c.kind.isRead && inFlight s (·.isRead) then ["write-completed-with-read-in-flight"] else [])
  | .ctl .. => ["control-callback"]
  | .wire fs => if fs.length ≥ 2 then ["several-frames-on-wire"] else []
  | _ => []

/-- Replay a trace against the monitor; `mstep` lets the model acceptor follow every `<` / `?` line. -/
def checkWith {σ : Type} (sc : Driver.Script) (m0 : σ) (mstep : σ → Driver.Line → Except String (σ × List String)) :
    Driver.Result := Id.run do
  let mut res : Driver.Result := {}
  let mut s : Option S := none
  let mut m : Option σ := some m0
  let mut i := 0
  for ln in sc.lines do
    i := i + 1
    -- the model follows every line
    match m with
    | none => pure ()
    | some mw =>
      match mstep mw ln with
      | .ok (mw', ts) =>
        m := some mw'
        for t in ts do res := { res with tags := Driver.addTag res.tags t }
      | .error d =>
        res := { res with modelDiff := some (i, s!"line=[{ln.raw.take 200}] {d}") }
        m := none
    if ln.kind == '!' then
      match ln.toks with
      | "new" :: r => if s.isNone then s := some { max := ((Driver.attr? r "max").bind nat?).getD 524288 }
      | _ => pure ()
    else
      if ln.kind == '?' then
        match ln.toks with
        | "write" :: "err" :: _ | "read" :: "err" :: _ =>
          -- the transport failed: the monitor is told (it cannot see it otherwise before a callback reports it)
          match s with
          | some st => match step st .transportErr with
            | .ok st' => s := some st'
            | .error _ => pure ()
          | none => pure ()
        | "write" :: r =>
          if (Driver.attr? r "n") != (Driver.attr? r "of") then res := { res with tags := Driver.addTag res.tags "partial-write" }
        | _ => pure ()
      else
        match ln.toks with
        | "new" :: _ => pure ()
        | "panic" :: _ | "hang" :: _ | "fatal" :: _ =>
          res := { res with specFail := res.specFail <|> some (i, s!"key=wsconc.panic-or-hang the implementation reported [{ln.raw}]") }
          s := none
        | toks =>
          match parseEv toks with
          | none => res := { res with envBad := res.envBad <|> some (i, s!"unparsable event: {ln.raw}") }
          | some e =>
            res := { res with ops := res.ops + 1 }
            match s with
            | none => pure ()
            | some st =>
              for t in tagsOf st e do res := { res with tags := Driver.addTag res.tags t }
              match step st e with
              | .ok st' => s := some st'
              | .error k =>
                res := { res with specFail := res.specFail <|> some (i,
                  s!"key=wsconc.{k} event=[{ln.raw.take 200}] violates the C17 monitor (clause {k}; callbacks not yet run: {(st.cbs.filter (!·.done)).map (·.id)}; frames owed to the wire: {st.expect.length})") }
                s := none
  return res

def check (sc : Driver.Script) : Driver.Result := checkWith sc () (fun _ _ => .ok ((), []))

end Driver.WsAsyncSpec
