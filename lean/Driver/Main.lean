import Driver.Util
import Driver.Bip
import Driver.Slots

open Driver

def components : List (String × (Script → Result)) :=
  [("bip", Driver.Bip.check), ("slots", Driver.Slots.check)]

def main (args : List String) : IO UInt32 := Driver.mainWith components args
