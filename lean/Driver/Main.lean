import Driver.Util
import Driver.Bip
import Driver.Loop

open Driver

def components : List (String × (Script → Result)) :=
  [("bip", Driver.Bip.check),
   ("loop", Driver.Loop.check)]

def main (args : List String) : IO UInt32 := Driver.mainWith components args
