import Driver.Util
import Driver.Bip
import Driver.ByteBuffer

open Driver

def components : List (String × (Script → Result)) :=
  [("bip", Driver.Bip.check), ("bytebuffer", Driver.ByteBuffer.check)]

def main (args : List String) : IO UInt32 := Driver.mainWith components args
