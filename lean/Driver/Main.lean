import Driver.Util
import Driver.Bip

open Driver

def components : List (String × (Script → Result)) :=
  [("bip", Driver.Bip.check)]

def main (args : List String) : IO UInt32 := Driver.mainWith components args
