import Driver.Util
import Driver.Bip
import Driver.FrameCodec
import Driver.WsHandshake

open Driver

def components : List (String × (Script → Result)) :=
  [("bip", Driver.Bip.check),
   ("codec", Driver.FrameCodec.check),
   ("wshandshake", Driver.WsHandshake.check)]

def main (args : List String) : IO UInt32 := Driver.mainWith components args
