import Driver.Util
import Driver.Bip
import Driver.WsStream

open Driver

def components : List (String × (Script → Result)) :=
  [("bip", Driver.Bip.check), ("wsstream", Driver.WsStream.check)]

def main (args : List String) : IO UInt32 := Driver.mainWith components args
