import Driver.Util
import Driver.Bip
import Driver.LoopSpec

open Driver

def components : List (String × (Script → Result)) :=
  [("bip", Driver.Bip.check),
   ("loop", Driver.LoopSpec.check)]

def main (args : List String) : IO UInt32 := Driver.mainWith components args
