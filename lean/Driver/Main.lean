import Driver.Util
import Driver.Bip
import Driver.WsDecode
import Driver.WsWrite

open Driver

def components : List (String × (Script → Result)) :=
  [("bip", Driver.Bip.check),
   ("wsdecode", Driver.WsDecode.check),
   ("wswrite", Driver.WsWrite.check)]

def main (args : List String) : IO UInt32 := Driver.mainWith components args
