import Driver.Util
import Driver.Bip
import Driver.Loop
import Driver.Mirrored

open Driver

def components : List (String × (Script → Result)) :=
  [("bip", Driver.Bip.check),
   ("loop", Driver.Loop.check),
   ("mirrored", Driver.Mirrored.check)]

def main (args : List String) : IO UInt32 := Driver.mainWith components args
