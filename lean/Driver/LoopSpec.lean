import Driver.Util
import Sonic.Spec.Loop
import Sonic.Spec.Ledger

/-! Spec-only acceptor for `loop` traces (event-loop properties C01–C04, C14). -/
namespace Driver.LoopSpec
open Sonic.Spec.Loop

def nat? (s : String) : Option Nat := s.toNat?

def parseRes : String → Res
  | "nil" => .ok | "eof" => .eof | "cancelled" => .cancelled | "timer" => .timer | "post" => .post | _ => .err

def parseKind : String → ObjKind
  | "tcp" | "fifo" | "fifow" => .stream | "regular" => .regular | "adapter" => .adapter | "listener" => .listener
  | "packet" | "mpeer" => .packet | _ => .timer

def opOf (toks : List String) : Option Nat := (Driver.attr? toks "op").bind nat?

def parseCall (toks : List String) : Option Ev :=
  match toks with
  | "read" :: k :: n :: r => do pure (.callStart (← opOf r) (← nat? k) .read (← nat? n))
  | "readall" :: k :: n :: r => do pure (.callStart (← opOf r) (← nat? k) .readAll (← nat? n))
  | "write" :: k :: n :: r => do pure (.callStart (← opOf r) (← nat? k) .write (← nat? n))
  | "writeall" :: k :: n :: r => do pure (.callStart (← opOf r) (← nat? k) .writeAll (← nat? n))
  | "accept" :: k :: r => do pure (.callStart (← opOf r) (← nat? k) .accept 0)
  | "recvfrom" :: k :: n :: r => do pure (.callStart (← opOf r) (← nat? k) .recvFrom (← nat? n))
  | "sendto" :: k :: n :: r => do pure (.callStart (← opOf r) (← nat? k) .sendTo (← nat? n))
  | "cancel" :: k :: _ => do pure (.callCancel (← nat? k))
  | "close" :: k :: _ => do pure (.callClose (← nat? k))
  | "sched" :: k :: mode :: t :: r => do pure (.callSched (← opOf r) (← nat? k) (mode == "rep") (← Driver.int? t))
  | "tcancel" :: k :: _ => do pure (.callTCancel (← nat? k))
  | "scheduled" :: k :: _ => do pure (.callScheduled (← nat? k))
  | "post" :: r => do pure (.callPost (← opOf r))
  | "setdisp" :: n :: _ => do pure (.callSetDisp (← Driver.int? n))
  | "poll" :: _ => some .callPoll
  | "pending" :: _ => some .callPending
  | "peer" :: k :: "write" :: n :: _ => do pure (.callPeerWrite (← nat? k) (← nat? n))
  | "peer" :: k :: "send" :: n :: _ => do pure (.callPeerWrite (← nat? k) (← nat? n))
  | "peer" :: k :: "drain" :: _ => do pure (.callPeerDrain (← nat? k))
  | "peer" :: _ => some .callPeerOther
  | "finish" :: _ => some .callFinish
  | _ => none

def parseRet (toks : List String) : Option Ret :=
  match toks with
  | [] => some .plain
  | t :: _ =>
    if t.startsWith "err=" then some (.err (t == "err=nil"))
    else if t.startsWith "n=" then do
      let n ← (Driver.attr? toks "n").bind Driver.int?
      let e ← Driver.attr? toks "err"
      -- "hang": the run call had to be broken out of by the harness's watchdog (carried as result `eof`)
      if e == "timeout" then pure (.pollTimeout n) else if e == "hang" then pure (.poll n .eof) else pure (.poll n (parseRes e))
    else if t.startsWith "pending=" then do
      pure (.pending (← (Driver.attr? toks "pending").bind Driver.int?) (← (Driver.attr? toks "posted").bind Driver.int?)
                     (← (Driver.attr? toks "disp").bind Driver.int?))
    else if t == "true" then some (.bool true)
    else if t == "false" then some (.bool false)
    else if t.startsWith "len=" then do pure (.drained (← (Driver.attr? toks "data").bind Driver.hex?))
    else if t.startsWith "stuck=" then
      let v := (t.drop 6).toString
      if v == "-" then some (.stuck []) else some (.stuck ((v.splitOn ",").filterMap nat?))
    else if t == "ok" then some (.peer true)
    else some (.peer false)

def parseEv (toks : List String) : Option Ev :=
  match toks with
  | "call" :: r => parseCall r
  | "enter" :: op :: res :: r => do
      let n ← (Driver.attr? r "n").bind Driver.int?
      let data := ((Driver.attr? r "data").bind Driver.hex?).getD []
      let early := (Driver.attr? r "early") == some "true"
      pure (.enter (← nat? op) (parseRes res) n data early)
  | "exit" :: op :: _ => do pure (.exit (← nat? op))
  | "ret" :: r => (parseRet r).map .ret
  | _ => none

/-- coverage tags derived from the monitor's view of one event -/
def tagsOf (s : S) (e : Ev) : List String :=
  match e with
  | .callStart .. => if depth s > 0 then ["start-inside-handler"] else []
  | .callCancel obj => if (inflightOps s).any (·.obj == obj) then ["cancel-in-flight"] else []
  | .callClose obj => if (inflightOps s).any (·.obj == obj) then ["close-in-flight"] else []
  | .callSched .. => if depth s > 0 then ["sched-inside-handler"] else []
  | .enter op res n _ _ =>
    let o := (findOp s op).getD default
    (if o.state == .inflight then ["deferred-completion"] else ["inline-completion"]) ++
    (if depth s + 1 ≥ maxDispatch then ["depth-at-limit"] else []) ++
    (if res == .eof then ["eof"] else []) ++ (if res == .err then ["error-result"] else []) ++
    (if res == .cancelled then ["cancelled"] else []) ++
    (if o.kind.isTimer then ["timer-fired"] else []) ++ (if o.kind == .post then ["post-ran"] else []) ++
    (if o.kind == .readAll && o.state == .inflight then ["readall-deferred"] else []) ++
    (if o.kind == .writeAll && o.state == .inflight then ["writeall-deferred"] else []) ++
    (if (o.kind == .read || o.kind == .write) && res == .ok && n.toNat < o.len then ["partial-transfer"] else []) ++
    (match s.stack with | .poll k :: _ => if k ≥ 1 then ["batch-of-several"] else [] | _ => [])
  | .ret (.pollTimeout _) => ["poll-timeout"]
  | _ => []

/-- Replay a trace against the monitor and, in parallel, against a model given as a partial step function. -/
def checkWith {σ : Type} (m0 : σ) (mstep : σ → Ev → Option σ) (sc : Driver.Script) : Driver.Result := Id.run do
  let mut res : Driver.Result := {}
  let mut s : Option S := some {}
  let mut m : Option σ := some m0
  let mut i := 0
  let mut nfail := 0
  let mut skipExit : List Nat := []
  let mut ld : Option Sonic.Spec.Ledger.L := some {}
  -- datagram boundaries (a clause of the driver, outside the monitor the model is proved against): per datagram socket the
  -- lengths of the datagrams the peer has sent and no read has taken; per datagram read its socket and buffer length
  let mut dq : List (Nat × List Nat) := []
  let mut dreads : List (Nat × Nat × Nat) := []
  let mut lastPeer : Option (Nat × Option Nat) := none    -- the peer action whose result comes next: send n / steal
  -- "? acked k A": when a write on tcp object k failed for good, the kernel had put A payload bytes of that connection on the wire
  -- (TCP_INFO: bytes sent minus bytes retransmitted); the counts reported by the writes on k so far (this one included) cover them (C02)
  let mut wops : List (Nat × Nat) := []          -- write op id -> object
  let mut wsum : List (Nat × Nat) := []          -- object -> sum of the counts reported by completed writes
  let mut ackedNext : Option (Nat × Nat) := none
  -- "? idle": the harness states that nothing can be ready at the next PollOne (C03: a timeout then, not success)
  let mut idleNext := false
  for ln in sc.lines do
    i := i + 1
    if ln.kind == '?' && ln.toks == ["idle"] then idleNext := true
    match ln.kind, ln.toks with
    | '?', ["acked", k, a] => ackedNext := (nat? k).bind fun k => (nat? a).map fun a => (k, a)
    | '<', "call" :: w :: k :: _len :: r =>
      if w == "write" || w == "writeall" then
        match nat? k, opOf r with
        | some k, some op => wops := (op, k) :: wops
        | _, _ => pure ()
    | '<', "enter" :: op :: _rtok :: r =>
      match (nat? op).bind fun op => wops.find? (·.1 == op) with
      | some (_, k) =>
        let n := (((Driver.attr? r "n").bind Driver.int?).getD 0).toNat
        let tot := Sonic.Spec.Loop.lookup wsum k 0 + n
        wsum := Sonic.Spec.Loop.update wsum k tot
        match ackedNext with
        | some (k', a) =>
          ackedNext := none
          if k' == k && tot < a then
            let d := s!"key=loop.write-count-below-bytes-on-wire event=[{ln.raw}] the writes on object {k} have reported {tot} bytes in all, the kernel has put {a} payload bytes of this connection on the wire"
            if res.specFail.isNone then res := { res with specFail := some (i, d) } else res := { res with more := res.more ++ [d] }
        | none => pure ()
      | none => pure ()
    | _, _ => pure ()
    -- "? blocked <ms>": a PollOne of the script's top level stayed inside the poller that long beyond what its callbacks slept
    -- (PollOne "will return immediately in case there is no event to process"; a timer that is due meanwhile cannot fire)
    match ln.kind, ln.toks with
    | '?', ["blocked", ms] =>
      let d := s!"key=loop.poll-blocked event=[{ln.raw}] PollOne blocked the loop for {ms} ms inside the poller"
      if res.specFail.isNone then res := { res with specFail := some (i, d) } else res := { res with more := res.more ++ [d] }
    | _, _ => pure ()
    if ln.kind == '<' then
      match ln.toks with
      | "ret" :: r :: e :: _ =>
        if idleNext && r.startsWith "n=" then
          idleNext := false
          if e != "err=timeout" then
            let d := s!"key=loop.poll-nothing-ready-reported-success event=[{ln.raw}] PollOne did not report a timeout although nothing was ready (no handler ran, no operation had been made completable)"
            if res.specFail.isNone then res := { res with specFail := some (i, d) } else res := { res with more := res.more ++ [d] }
      | _ => pure ()
      match ln.toks with
      | "call" :: "peer" :: k :: "send" :: n :: _ => lastPeer := (nat? k).bind fun k => (nat? n).map fun n => (k, some n)
      | "call" :: "peer" :: k :: "steal" :: _ => lastPeer := (nat? k).map fun k => (k, none)
      | "call" :: "recvfrom" :: k :: n :: r =>
        match nat? k, nat? n, opOf r with
        | some k, some n, some op => dreads := (op, k, n) :: dreads
        | _, _, _ => pure ()
      | "ret" :: r :: _ =>
        match lastPeer with
        | some (k, some n) => if r == "ok" then dq := Sonic.Spec.Loop.update dq k (Sonic.Spec.Loop.lookup dq k [] ++ [n])
        | some (k, none) => if r == "ok" then dq := Sonic.Spec.Loop.update dq k ((Sonic.Spec.Loop.lookup dq k []).drop 1)
        | none => pure ()
        lastPeer := none
      | "enter" :: op :: rtok :: r =>
        match (nat? op).bind fun op => dreads.find? (·.1 == op) with
        | some (op, k, len) =>
          dreads := dreads.filter (·.1 != op)
          if rtok == "nil" || rtok == "eof" then
            match Sonic.Spec.Loop.lookup dq k [] with
            | l :: rest =>
              dq := Sonic.Spec.Loop.update dq k rest
              let n := ((Driver.attr? r "n").bind Driver.int?).getD 0
              if n != ((min l len : Nat) : Int) then
                let d := s!"key=loop.datagram-boundary event=[{ln.raw}] the read of a datagram socket completed with {n} bytes while the next queued datagram has {l} (buffer {len})"
                if res.specFail.isNone then res := { res with specFail := some (i, d) } else res := { res with more := res.more ++ [d] }
            | [] => pure ()
        | none => pure ()
      | _ => pure ()
      let ev? : Option Ev := match ln.toks with
        | "obj" :: k :: kind :: r :: _ => if r == "ok" then (nat? k).map (fun k => Ev.obj k (parseKind kind)) else none
        | toks => parseEv toks
      match ln.toks with
      | "panic" :: _ =>
        res := { res with specFail := res.specFail <|> some (i, "key=loop.panic the implementation panicked") }
        s := none
      | _ =>
        match ev? with
        | none => res := { res with envBad := res.envBad <|> some (i, s!"unparsable or failed event: {ln.raw}") }
        | some e =>
          res := { res with ops := res.ops + 1 }
          match m with
          | none => pure ()
          | some mw =>
            match mstep mw e with
            | some mw' => m := some mw'
            | none =>
              res := { res with modelDiff := some (i, s!"event=[{ln.raw}] is not a transition of the loop model") }
              m := none
          match s with
          | none => pure ()
          | some st =>
            for t in tagsOf st e do res := { res with tags := Driver.addTag res.tags t }
            -- the exit of a callback whose entry was skipped below is skipped too
            let skipThis := match e with | .exit op => skipExit.contains op | _ => false
            if skipThis then
              match e with
              | .exit op => skipExit := skipExit.erase op
              | _ => pure ()
            else
              match step st e with
              | .ok st' => s := some st'
              | .error k =>
                -- The first violated clause is the verdict. The monitor then keeps reading (every further violated clause
                -- is listed as `spec-more`): one defect can break clauses of several properties, and each property's check
                -- looks for its own. Recovery: the transition is applied regardless of its clauses, except that a second
                -- callback of a completed operation (and an event the monitor has no transition for) is left out.
                let keys := match stepWith allFailed st e with
                  | .error ks => ks.splitOn ","
                  | .ok _ => [k]
                let detail := fun (k : String) => s!"key=loop.{k} event=[{ln.raw}] violates the ledger monitor (clause {k})"
                if res.specFail.isNone then
                  res := { res with specFail := some (i, detail k), more := res.more ++ ((keys.filter (· != k)).map detail) }
                else
                  res := { res with more := res.more ++ keys.map detail }
                nfail := nfail + 1
                if nfail ≥ 12 then s := none
                else
                  match (if keys.contains "callback-twice" then none else (stepWith forced st e).toOption) with
                  | some st' => s := some st'
                  | none =>
                    match e with
                    | .enter op _ _ _ _ => skipExit := op :: skipExit
                    | _ => pure ()
          -- the API-level ledger (`Sonic.Spec.Ledger`, the one the model is proved to refine) reads the same events
          match ld with
          | none => pure ()
          | some lst =>
            if !Sonic.Spec.Ledger.usageOk lst e then
              ld := none   -- outside the documented usage (the harness does not produce this): the ledger says nothing
            else
              match Sonic.Spec.Ledger.step lst e with
              | some lst' => ld := some lst'
              | none =>
                let k := match e with
                  | .enter .. => "ledger-callback-not-owed"
                  | .ret (.pending ..) => "ledger-pending-differs-from-operations-in-flight"
                  | _ => "ledger-structure"
                let d := s!"key=loop.{k} event=[{ln.raw}] is rejected by the API-level ledger (owed={lst.owed.map (·.id)})"
                if res.specFail.isNone then res := { res with specFail := some (i, d) } else res := { res with more := res.more ++ [d] }
                ld := none
  return res

def check (sc : Driver.Script) : Driver.Result := checkWith () (fun _ _ => some ()) sc

end Driver.LoopSpec
