import Driver.Util
import Sonic.Spec.Mirrored

/-! Spec-only acceptor for `mirrored` traces: depends on nothing regenerated from the source.

Trace lines: `! new <req> <prefault>` `? page <p>` `< created <size>` | `< refused`;
`! claim n` `< view <off> <len>`; `! commit n` / `! consume n` / `! used` / `! free` / `! size` `< int v`;
`! full` `< bool b`; `! reset` / `! write <seed>` / `! prefault` `< unit`; `! read <off> <len>` `< bytes <hex>`;
`! destroy` `< released <mapped> <file>`; any operation without a buffer `< nobuf`; `< panic`.
`! label <text>` marks the script as outside the property (negative amounts): the monitor is
switched off for the rest of the script, the model comparison stays on.  The same happens at the
first operation that is outside `OpOk` (a negative amount), labelled or not. -/
namespace Driver.MirroredSpec
open Sonic.Spec.Mirrored

def hexVal (c : Char) : Option Nat :=
  if '0' ≤ c ∧ c ≤ '9' then some (c.toNat - '0'.toNat)
  else if 'a' ≤ c ∧ c ≤ 'f' then some (c.toNat - 'a'.toNat + 10) else none

def parseHex (s : String) : Option (List UInt8) :=
  if s = "-" then some [] else
  let rec go : List Char → List UInt8 → Option (List UInt8)
    | [], acc => some acc.reverse
    | a :: b :: r, acc => do let x ← hexVal a; let y ← hexVal b; go r (UInt8.ofNat (x * 16 + y) :: acc)
    | _, _ => none
  go s.toList []

def hexDigit (n : Nat) : Char := if n < 10 then Char.ofNat (48 + n) else Char.ofNat (87 + n)

def showHex (bs : List UInt8) : String :=
  if bs.isEmpty then "-" else
  String.ofList (bs.foldr (fun b acc => hexDigit (b.toNat / 16) :: hexDigit (b.toNat % 16) :: acc) [])

def bool? : String → Option Bool
  | "true" => some true | "false" => some false | _ => none

/-- Operation from its `!` tokens; `new` also needs the page size of the `?` line. -/
def parseOp (page : Option Int) : List String → Option Op
  | "new" :: req :: _ => do let r ← int? req; let p ← page; pure (.new r p)
  | ["claim", n] => (int? n).map .claim
  | ["commit", n] => (int? n).map .commit
  | ["consume", n] => (int? n).map .consume
  | ["free"] => some .free
  | ["used"] => some .used
  | ["full"] => some .full
  | ["size"] => some .size
  | ["reset"] => some .reset
  | ["write", s] => (int? s).map .write
  | ["read", o, l] => do let o ← int? o; let l ← int? l; pure (.read o l)
  | ["prefault"] => some .prefault
  | ["destroy"] => some .destroy
  | _ => none

def parseObs : List String → Option Obs
  | ["created", s] => (int? s).map .created
  | ["refused"] => some .refused
  | ["view", a, b] => do let a ← int? a; let b ← int? b; pure (.view a b)
  | ["int", v] => (int? v).map .int
  | ["bool", b] => (bool? b).map .bool
  | ["unit"] => some .unit
  | ["bytes", h] => (parseHex h).map .bytes
  | ["released", m, f] => do let m ← bool? m; let f ← bool? f; pure (.released m f)
  | ["nobuf"] => some .nobuf
  | ["panic"] => some .panic
  | _ => none

def showObs : Obs → String
  | .created s => s!"created {s}" | .refused => "refused" | .view a b => s!"view {a} {b}" | .int v => s!"int {v}"
  | .bool b => s!"bool {b}" | .unit => "unit" | .bytes bs => s!"bytes {showHex bs}"
  | .released m f => s!"released {m} {f}" | .nobuf => "nobuf" | .panic => "panic"

def showOp : Op → String
  | .new r p => s!"new {r} (page {p})" | .claim n => s!"claim {n}" | .commit n => s!"commit {n}" | .consume n => s!"consume {n}"
  | .free => "free" | .used => "used" | .full => "full" | .size => "size" | .reset => "reset"
  | .write s => s!"write {s}" | .read o l => s!"read {o} {l}" | .prefault => "prefault" | .destroy => "destroy"

def opName : Op → String
  | .new .. => "new" | .claim _ => "claim" | .commit _ => "commit" | .consume _ => "consume"
  | .free => "free" | .used => "used" | .full => "full" | .size => "size" | .reset => "reset"
  | .write _ => "write" | .read .. => "read" | .prefault => "prefault" | .destroy => "destroy"

def showState (s : C) : String :=
  if s.live then s!"size={s.size} used={s.used} next={s.next} claim=({s.cLo},{s.cLen})" else "no buffer"

/-- Replay a script against the (compact) monitor; `mstep` lets the model acceptor follow along. -/
def checkWith {σ : Type} (sc : Driver.Script) (m0 : σ)
    (mstep : σ → Op → Obs → Driver.Result → Nat → (σ × Driver.Result)) : Driver.Result := Id.run do
  let mut res : Driver.Result := {}
  let mut m : σ := m0
  let mut s : Option C := some cdead
  let mut pending : Option (List String) := none
  let mut page : Option Int := none
  let mut i := 0
  for ln in sc.lines do
    i := i + 1
    if ln.kind == '!' then
      match ln.toks with
      | "label" :: _ =>
        -- outside the property: not monitored
        s := none; res := { res with tags := Driver.addTag res.tags "unmonitored" }
      | toks => pending := some toks; page := none
    else if ln.kind == '?' then
      match ln.toks with
      | ["page", p] =>
        match int? p with
        | some p => if p > 0 then page := some p
                    else res := { res with envBad := res.envBad <|> some (i, s!"page size must be positive: {ln.raw}") }
        | none => res := { res with envBad := res.envBad <|> some (i, s!"unparsable: {ln.raw}") }
      | _ => res := { res with envBad := res.envBad <|> some (i, s!"unknown environment line: {ln.raw}") }
    else if ln.kind == '<' then
      match pending with
      | none => pure ()
      | some toks =>
        pending := none
        match parseOp page toks, parseObs ln.toks with
        | some op, some ob =>
          res := { res with ops := res.ops + 1 }
          let (m', res') := mstep m op ob res i
          m := m'; res := res'
          if ¬ OpOk op then
            -- a negative amount: outside what C11 quantifies over, the script is no longer monitored
            s := none; res := { res with tags := Driver.addTag res.tags "unmonitored" }
          match s with
          | some st =>
            match cstep st op ob with
            | some st' => s := some st'
            | none =>
              res := { res with specFail := some (i, s!"key=mirrored.{opName op} op=[{showOp op}] obs=[{showObs ob}] rejected by the ring monitor ({showState st})") }
              s := none
          | none => pure ()
        | _, _ => res := { res with envBad := res.envBad <|> some (i, s!"unparsable operation/observation: {toks} / {ln.raw}") }
  return res

def check (sc : Driver.Script) : Driver.Result :=
  checkWith sc () (fun _ _ _ r _ => ((), r))

end Driver.MirroredSpec
