import Driver.SlotsSpec
import Sonic.Model.Slots

namespace Driver.Slots
open Sonic.Spec.Slots Sonic.Model.Slots Driver.SlotsSpec

/-- Non-default branches reached by a step (coverage only). `sp` is the monitor state before the step. -/
def tagsOf (m m' : St) (sp : S) (op : Op) (ob : Obs) : List String :=
  match op, ob with
  | .park seq bytes n, .park _ sLen ok err _ _ _ =>
      (if ok = true then (if search m.sq.slots seq < m.sq.slots.length then ["park-insert-before"] else []) else []) ++
      (if ok = false ∧ err = false then ["park-duplicate"] else []) ++
      (if err = true ∧ OverBytes sp (saveLen n (sp.readable ++ bytes).length) then ["park-over-bytes"] else []) ++
      (if err = true ∧ OverSlots sp then ["park-over-slots"] else []) ++
      (if err = true ∧ ¬ OverBytes sp (saveLen n (sp.readable ++ bytes).length) ∧ ¬ OverSlots sp then ["park-index-space-used-up"] else []) ++
      (if ok = true ∧ m.sq.tree.sum > 0 then ["park-after-discards"] else []) ++
      (if ok = true ∧ sLen = 0 then ["park-empty-packet"] else []) ++
      (if sLen < n ∨ m'.buf.ri > m'.buf.si then ["save-clamped-or-partial"] else []) ++
      (if seq < 0 then ["negative-seq"] else [])
  | .take _ , .take hit idx _ _ _ _ _ =>
      (if hit = false then ["take-miss"] else
        (if m.sq.tree.sum > 0 ∧ m'.sq.slots.length > 0 then ["take-in-never-drained"] else []) ++
        (if m'.sq.slots.length = 0 ∧ m.sq.tree.sum > 0 then ["drained-after-out-of-order"] else []) ++
        (if m'.sq.slots.length = 0 then ["drained"] else []) ++
        (if idx > 0 ∧ idx + 0 < m.buf.si then ["take-middle"] else []) ++
        (match m.sq.slots[search m.sq.slots (match op with | .take q => q | _ => 0)]? with
          | some e => if e.slot.Index ≠ idx then ["take-shifted"] else []
          | none => []))
  | .add _ _, .add _ _ err _ _ _ =>
      (if err = true then ["add-index-space-used-up"] else []) ++ (if m.tree.sum > 0 then ["add-after-discards"] else [])
  | .off h, .off idx _ _ _ =>
      (match m.live.lookup h with | some sl => if sl.Index ≠ idx then ["off-shifted"] else [] | none => [])
  | .reset, .unit => ["offsetter-reset"]
  | .resetAll, .unit => ["sequencer-reset-while-parked"]
  | _, _ => []

/-- Model acceptor + monitor. The model state is `none` after the first divergence. -/
def check (sc : Driver.Script) : Driver.Result :=
  checkWith sc (fun a b => some (Sonic.Model.Slots.init a b)) fun m sp op ob res i =>
    match m with
    | none => (none, res)
    | some st =>
      let (st', mo) := Sonic.Model.Slots.step st op
      if mo ≠ ob then
        (none, { res with modelDiff := some (i, s!"op=[{showOp op}] impl=[{showObs ob}] model=[{showObs mo}]") })
      else
        (some st', { res with tags := (tagsOf st st' sp op ob).foldl Driver.addTag res.tags })

end Driver.Slots
