import Driver.Util
import Sonic.Spec.Xfer

/-! Spec-only acceptor for `xfer` traces (C02): the monitor of `Spec/Xfer.lean` on the implementation's observations. -/
namespace Driver.XferSpec
open Sonic.Spec.Xfer

/-- byte `i` of the stream the peer writes -/
def streamByte (i : Nat) : UInt8 := UInt8.ofNat ((7 * i + 1) % 251)
/-- byte `j` of the buffer of write operation `id` -/
def writeByte (id j : Nat) : UInt8 := UInt8.ofNat ((11 * j + 17 * id + 3) % 251)

def bool? : String → Option Bool
  | "0" => some false | "1" => some true | _ => none

def res? : String → Option Res
  | "ok" => some .ok | "eof" => some .eof | "err" => some .err | _ => none

def showRes : Res → String
  | .ok => "ok" | .eof => "eof" | .err => "err"

/-- operation and the raw schedule token -/
def parseOp : List String → Option (Op × String)
  | ["read", len, all, sched] => do
      let len ← len.toNat?; let all ← bool? all
      pure (.read len all, sched)
  | ["write", len, id, all, sched] => do
      let len ← len.toNat?; let id ← id.toNat?; let all ← bool? all
      pure (.write ((List.range len).map (writeByte id)) all, sched)
  -- a trailing `d`: the operation was issued with the dispatch counter at its limit (deferred to the poller instead of being
  -- tried at once); neither the monitor nor the model sees a difference — that is the claim
  | ["read", len, all, sched, "d"] => parseOp ["read", len, all, sched]
  | ["write", len, id, all, sched, "d"] => parseOp ["write", len, id, all, sched]
  | _ => none

def parseObs : List String → Option Obs
  | ["read", r, n, buf, clean] => do
      let r ← res? r; let n ← n.toNat?; let buf ← Driver.hex? buf; let c ← bool? clean
      pure (.read r n buf c)
  | ["write", r, n, wire] => do
      let r ← res? r; let n ← n.toNat?; let wire ← Driver.hex? wire
      pure (.write r n wire)
  | _ => none

def showObs : Obs → String
  | .read r n buf c => s!"read {showRes r} {n} {Driver.toHex buf} {if c then 1 else 0}"
  | .write r n wire => s!"write {showRes r} {n} {Driver.toHex wire}"

def showOp : Op → String
  | .read len all => s!"read len={len} all={all}"
  | .write b all => s!"write len={b.length} all={all}"

def clause : Op → Obs → S → String
  | .read len all, .read r n buf c, s =>
    if buf ≠ s.stream.take n ∨ buf.length ≠ n then "read-bytes"
    else if c = false then "read-beyond-count"
    else if n > len then "read-count"
    else if r = .ok ∧ all = true then "readall-success-short" else "read-success-empty"
  | .write b all, .write r n wire, _ =>
    if wire ≠ b.take n then "write-bytes"
    else if n > b.length then "write-count"
    else if r = .ok ∧ all = true then "writeall-success-short" else "write-success-empty"
  | _, _, _ => "shape"

/-- Replay a script against the monitor; `mstep` lets the model acceptor follow along (it gets the monitor state
before the step, the operation, its schedule token and the observation). -/
def checkWith (sc : Driver.Script)
    (mstep : S → Op → String → Obs → Driver.Result → Nat → Driver.Result) : Driver.Result := Id.run do
  let mut res : Driver.Result := {}
  let mut s : Option S := none
  let mut pending : Option (Op × String) := none
  let mut i := 0
  for ln in sc.lines do
    i := i + 1
    if ln.kind == '!' then
      match ln.toks with
      | "new" :: n :: rest =>
        s := some { stream := (List.range (n.toNat?.getD 0)).map streamByte }; pending := none
        -- (the scripted transport is the default and earns no tag: a script counts as non-trivial by what its operations reached)
        if rest.head? != some "adapter" then
          res := { res with tags := Driver.addTag res.tags ("real-transport-" ++ (rest.head?.getD "?")) }
      | toks =>
        match parseOp toks with
        | some op =>
          pending := some op; res := { res with ops := res.ops + 1 }
          if toks.getLast? == some "d" then res := { res with tags := Driver.addTag res.tags "issued-at-dispatch-limit" }
        | none => res := { res with envBad := res.envBad <|> some (i, s!"unparsable operation: {ln.raw}") }
    else if ln.kind == '<' && ln.toks == ["completed-inline-at-the-dispatch-limit"] then
      res := { res with specFail := res.specFail <|> some (i, "key=xfer.completed-inline-at-the-dispatch-limit the operation was issued with IO.Dispatched at MaxCallbackDispatch and its callback ran before the call returned") }
    else if ln.kind == '<' && ln.toks.drop 1 == ["inflight"] then
      -- every generated schedule ends in an entry that ends the operation (EOF, failure, the peer going away)
      res := { res with specFail := res.specFail <|> some (i, "key=xfer.operation-never-completed the completion callback did not run although the transport was ready with the result that ends the operation") }
      pending := none
    else if ln.kind == '<' && ln.toks == ["callback-twice"] then
      res := { res with specFail := res.specFail <|> some (i, "key=xfer.callback-twice the completion callback of one operation ran twice") }
    else if ln.kind == '<' then
      match pending, parseObs ln.toks, s with
      | some (op, sched), some ob, some st =>
        pending := none
        res := mstep st op sched ob res i
        match step st op ob with
        | some st' => s := some st'
        | none =>
          res := { res with specFail := res.specFail <|> some (i, s!"key=xfer.{clause op ob st} op=[{showOp op}] obs=[{showObs ob}] rejected by the transfer monitor (next stream bytes={Driver.toHex (st.stream.take 8)})") }
          s := none
      | some _, none, _ =>
        res := { res with envBad := res.envBad <|> some (i, s!"unparsable observation: {ln.raw}") }
      | _, _, _ => pure ()
  return res

def check (sc : Driver.Script) : Driver.Result := checkWith sc (fun _ _ _ _ r _ => r)

end Driver.XferSpec
