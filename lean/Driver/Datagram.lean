import Driver.DatagramSpec
import Sonic.Model.Datagram

/-! Model acceptor + monitor for `mcast` traces (C12). -/
namespace Driver.Datagram
open Sonic.Spec.Datagram Sonic.Model.Datagram Driver.DatagramSpec

def ifName (s : String) : IfName := match s with | "eth0" => .eth0 | "lo" => .lo | _ => .unknown

def groupArg (s : String) : GroupArg :=
  if s.startsWith "g" then (match ip? s with | some g => .ip g | none => .junk)
  else if s == "bad" then .notMulticast else .junk

def srcArg (s : String) : SrcArg := match ip? s with | some i => if s.startsWith "g" then .junk else .ip i | none => .junk

def ifIp : Ip := 3221225986

/-- bind form of `! peer`: (address, shared port?) -/
def peerForm (f : String) : Option (Ip × Bool) :=
  match f with
  | "any" => some (0, true) | "any0" => some (0, false) | "if" => some (ifIp, true) | "if0" => some (ifIp, false)
  | "lo0" => some (loIp, false)
  | _ =>
    if f.startsWith "g" then
      if f.length == 3 && f.endsWith "0" then (ip? (f.take 2).toString).map fun g => (g, false)
      else if f.length == 2 then (ip? f).map fun g => (g, true)
      else none
    else none

def parseOp (toks : List String) (evs : List Ev := []) : Option Op :=
  match toks with
  | ["pc", s, f] => do
      let f ← match f with | "lo" => some PcForm.lo | "any" => some .any | "empty" => some .empty | _ => none
      pure (.newPc (← nat? s) f)
  | ["peer", s, f] => do let (ip, sh) ← peerForm f; pure (.newPeer (← nat? s) ip sh)
  | ["raw", s, f] => do
      let f ← match f with | "tx3" => some RawForm.tx3 | "rxlo" => some .rxlo | "rxif" => some .rxif | _ => none
      pure (.newRaw (← nat? s) f)
  | ["get", s] => (nat? s).map .get
  | ["setloop", s, v] => do pure (.setLoop (← nat? s) (v == "1"))
  | ["setttl", s, v] => do pure (.setTTL (← nat? s) ((← nat? v) % 256))
  | ["setout", s, i] => do pure (.setOut (← nat? s) (ifName i))
  | "join" :: s :: g :: rest => do
      pure (.join (← nat? s) (groupArg g) ((Driver.attr? rest "on").map ifName) ((Driver.attr? rest "src").map srcArg))
  | "leave" :: s :: g :: rest => do pure (.leave (← nat? s) (groupArg g) ((Driver.attr? rest "src").map srcArg))
  | ["block", s, g, src] => do pure (.block (← nat? s) (groupArg g) (srcArg src))
  | ["unblock", s, g, src] => do pure (.unblock (← nat? s) (groupArg g) (srcArg src))
  | ["break", s] => (nat? s).map .brk
  | ["mend", s] => (nat? s).map .mend
  | "send" :: s :: rest => do
      let to ← Driver.attr? rest "to"
      let data ← (Driver.attr? rest "data").bind data?
      let dst ← if to.startsWith "g" then (ip? to).map Dst.group else (nat? (to.drop 1).toString).map Dst.sock
      let pick := evs.findSome? fun e => match e with | .sent _ _ _ _ _ _ (r :: _) => some r | _ => none
      pure (.send (← nat? s) dst data (pick.getD 0))
  | "read" :: s :: len :: _ => do pure (.read (← nat? s) (← nat? len))
  | ["setbuf", s, len] => do pure (.setBuf (← nat? s) (← nat? len))
  | ["poll"] => some .poll
  | ["close", s] => (nat? s).map .close
  | _ => none

/-- Erase what the kernel supplies (option records, source address, arrivals) so that a disagreement about those
only is reported as "environment outside the model". -/
def mask : Ev → Ev
  | .opened s api _ => .opened s api default
  | .getters s a _ => .getters s a default
  | .sent s dst data e n _ _ => .sent s dst data e n default []
  | e => e

/-- Non-default situations reached (coverage only). -/
def tagsOf (w : World) (evs : List Ev) : List String :=
  evs.flatMap fun ev =>
    match ev with
    | .done _ e n _ bufs =>
        (if e == .eof then ["empty-datagram-eof"] else []) ++ (if bufs.length > 1 then ["buffer-replaced"] else [])
        ++ (if n ≥ 1473 then ["fragmented"] else []) ++ (if n ≥ 65507 then ["max-datagram"] else [])
    | .sent s dst data e _ src arrived =>
        (if e == .msgsize then ["too-big"] else []) ++ (if e == .inval then ["no-route-for-source"] else [])
        ++ (if isMulticast dst.ip then
              (if arrived.length ≥ 2 then ["mcast-fanout"] else []) ++ (if arrived.length == 1 then ["mcast-delivered"] else [])
              ++ (if arrived.isEmpty && e == .nil then ["mcast-filtered"] else [])
              ++ (if src.ip == 3221225987 then ["second-source"] else [])
              ++ (match w.socks s with | some m => (if !m.kern.loop then ["loop-off"] else []) | none => [])
            else [])
        ++ (if data.isEmpty then ["empty-datagram"] else [])
        ++ ((List.range maxSock).flatMap fun r => match w.socks r with
              | some m => (if m.rxq.length ≥ 3 then ["burst"] else []) ++
                          (if (m.rxq.map (·.src)).eraseDups.length ≥ 2 then ["several-senders-queued"] else [])
              | none => [])
    | .memb _ (some op) e =>
        (match op with
          | .joinSrc .. => ["join-source"] | .block .. => ["block"] | .unblock .. => ["unblock"]
          | .leave .. => ["leave"] | .leaveSrc .. => ["leave-source"] | .join .. => [])
        ++ (if e == .inval then ["filter-mode-clash"] else []) ++ (if e == .addrinuse then ["already-member"] else [])
        ++ (if e == .addrnotavail then ["no-such-source-or-group"] else []) ++ (if e == .notsock then ["syscall-failed"] else [])
        ++ ((List.range maxSock).flatMap fun r => match w.socks r with
              | some m => if [4009754625, 4009754626, 4009754627, 4009754628].any (fun g => match m.membs g with | some k => k.incl && !k.hasList | none => false) then ["mode-switched-by-failed-call"] else []
              | none => [])
    | .memb _ none _ => ["bad-argument"]
    | .setter _ _ e => if e != .nil then ["setter-failed"] else ["setter"]
    | .readPending _ => ["deferred-read"]
    | .setBuf s _ _ => (match w.socks s with | some m => if m.read.isSome then ["setbuf-while-pending"] else [] | none => [])
    | _ => []

def truncTags (w : World) (evs : List Ev) : List String :=
  evs.flatMap fun ev => match ev with
    | .done s _ n _ _ => (match w.socks s with
        | some m => (match m.rxq.head? with | some d => if n < d.data.length then ["truncated"] else [] | none => [])
        | none => [])
    | _ => []

/-- Model acceptor + monitor. The model state is `none` after the first divergence. -/
def check (sc : Driver.Script) : Driver.Result :=
  checkWith sc (some World.init) fun m toks evs res i =>
    match m with
    | none => (none, res)
    | some w =>
      match parseOp toks evs with
      | none => (none, { res with envBad := res.envBad <|> some (i, s!"unparsable operation: {toks}") })
      | some op =>
        let (w', mevs) := Sonic.Model.Datagram.step w op
        if mevs == evs then
          (some w', { res with tags := (truncTags w evs ++ tagsOf w' evs).foldl Driver.addTag res.tags })
        else if mevs.map mask == evs.map mask then
          let bad := (mevs.zip evs).find? fun p => p.1 != p.2
          (none, { res with envBad := res.envBad <|> some (i, s!"op={toks} kernel=[{bad.map (showEv ·.2)}] model=[{bad.map (showEv ·.1)}]") })
        else
          let bad := (mevs.zip evs).find? fun p => p.1 != p.2
          (none, { res with modelDiff := res.modelDiff <|> some (i, s!"op={toks} impl=[{bad.map (showEv ·.2)}] model=[{bad.map (showEv ·.1)}] (events impl={evs.length} model={mevs.length})") })

end Driver.Datagram
