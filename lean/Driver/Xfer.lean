import Driver.XferSpec
import Sonic.Model.XferStep

/-! Model acceptor for `xfer` traces: `Sonic.Model.Xfer.readOp` / `writeOp` run on the schedule the harness gave the
transport, compared with what the real completion callback was given. -/
namespace Driver.Xfer
open Sonic.Spec.Xfer Sonic.Model.Xfer Sonic.Model.XferStep Driver.XferSpec

def parseK (t : String) : Option KRes :=
  if t == "b" then some .block
  else if t == "e" then some .eof
  else if t == "f" then some .fail
  else if t.startsWith "m" then ((t.drop 1).toString.toNat?).map .move
  else none

def parseSched (s : String) : Option (List KRes) :=
  if s == "-" then some [] else (s.splitOn ",").mapM parseK

def tagsOf (op : Op) (sched : List KRes) (ob : Obs) : List String :=
  let moves := (sched.filter fun k => match k with | .move _ => true | _ => false).length
  (if sched.contains .block then ["would-block"] else []) ++
  (match op, ob with
    | .read len all, .read r n _ _ =>
      (if all ∧ moves ≥ 2 ∧ r = .ok then ["readall-split"] else []) ++
      (if all ∧ r ≠ .ok ∧ 0 < n then ["readall-partial-then-error"] else []) ++
      (if ¬ all ∧ n < len ∧ r = .ok then ["short-read"] else []) ++
      (if r = .eof then ["eof"] else []) ++ (if r = .err then ["error"] else [])
    | .write b all, .write r n _ =>
      (if all ∧ moves ≥ 2 ∧ r = .ok then ["writeall-split"] else []) ++
      (if all ∧ r ≠ .ok ∧ 0 < n then ["writeall-partial-then-error"] else []) ++
      (if ¬ all ∧ n < b.length ∧ r = .ok then ["short-write"] else []) ++
      (if r ≠ .ok then ["write-error"] else [])
    | _, _ => [])

def check (sc : Driver.Script) : Driver.Result :=
  checkWith sc fun st op schedTok ob res i =>
    if res.modelDiff.isSome then res else
    match parseSched schedTok with
    | none => { res with envBad := res.envBad <|> some (i, s!"unparsable schedule: {schedTok}") }
    | some sched =>
      match mstep st op sched with
      | none => { res with modelDiff := some (i, s!"op=[{showOp op}] sched={schedTok} impl=[{showObs ob}] model=[still in flight at the end of the schedule]") }
      | some mo =>
        if mo ≠ ob then
          { res with modelDiff := some (i, s!"op=[{showOp op}] sched={schedTok} impl=[{showObs ob}] model=[{showObs mo}]") }
        else { res with tags := (tagsOf op sched ob).foldl Driver.addTag res.tags }

end Driver.Xfer
