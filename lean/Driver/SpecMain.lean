import Driver.Util
import Driver.BipSpec
import Driver.WsDecode
import Driver.WsWrite

/-! `sonicspec`: the property monitors alone (no model, nothing regenerated from the source). -/
open Driver

def components : List (String × (Script → Result)) :=
  [("bip", Driver.BipSpec.check),
   ("wsdecode", Driver.WsDecode.checkSpec),
   ("wswrite", Driver.WsWrite.checkSpec)]

def main (args : List String) : IO UInt32 := Driver.mainWith components args
