import Driver.Util
import Driver.BipSpec
import Driver.SlotsSpec

/-! `sonicspec`: the property monitors alone (no model, nothing regenerated from the source). -/
open Driver

def components : List (String × (Script → Result)) :=
  [("bip", Driver.BipSpec.check), ("slots", Driver.SlotsSpec.check)]

def main (args : List String) : IO UInt32 := Driver.mainWith components args
