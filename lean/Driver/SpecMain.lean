import Driver.Util
import Driver.BipSpec
import Driver.FrameCodecSpec
import Driver.WsHandshakeSpec

/-! `sonicspec`: the property monitors alone (no model, nothing regenerated from the source). -/
open Driver

def components : List (String × (Script → Result)) :=
  [("bip", Driver.BipSpec.check),
   ("codec", Driver.FrameCodecSpec.check),
   ("wshandshake", Driver.WsHandshakeSpec.check)]

def main (args : List String) : IO UInt32 := Driver.mainWith components args
