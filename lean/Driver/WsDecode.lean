import Driver.WsDecodeSpec
import Sonic.Model.WsEncode

/-! Model acceptor for the harness component `wsdecode` (C07): the model of `FrameCodec.Decode` over the ByteBuffer
model follows the trace; the monitor and the script loop are those of `Driver/WsDecodeSpec.lean`. -/
namespace Driver.WsDecode
open Sonic.Spec.WsFrame Sonic.Model.WsBuf Sonic.Model.WsFrame Driver.WsDecodeSpec

/-! ### Model side -/

structure MState where
  c : Codec
  backlog : List UInt8

def lensOf (b : Buf) : M Lens := do
  pure ⟨← b.SaveLen, ← b.ReadLen, ← b.WriteLen, b.Reserved⟩

def showPanic : Panic → String
  | .sliceBounds => "panic(slice bounds)" | .indexRange => "panic(index)" | .outsideReceived => "reads outside the received bytes"
  | .allocRange => "panic(allocation size out of range)"
  | .env => "env"

/-- One model step: the new state, what the model expects to be printed, and coverage tags. -/
def mstep (m : MState) (op : SOp) (cap' : Int) : M (MState × Out × List String) :=
  match op with
  | .new max reserve => do
      let b ← if reserve > 0 then Buf.new.Reserve reserve cap' else pure Buf.new
      pure ({ c := Codec.new b max, backlog := [] }, .out .ok, [])
  | .feed bs => do
      let (d, ob, _) ← (DState.mk m.c m.backlog).step (.feed bs cap')
      pure ({ c := d.c, backlog := d.backlog }, .out ob.out, if d.c.buf.cap ≠ m.c.buf.cap then ["write-grow"] else [])
  | .commit n => do
      let (d, ob, _) ← (DState.mk m.c m.backlog).step (.commit n)
      pure ({ c := d.c, backlog := d.backlog }, .out ob.out, if d.c.buf.ri ≠ m.c.buf.ri then ["caller-commit"] else [])
  | .read bs => do
      let (d, ob, _) ← (DState.mk m.c m.backlog).step (.read bs)
      let bl := m.backlog ++ bs
      let n := bl.length - d.backlog.length
      pure ({ c := d.c, backlog := d.backlog }, .out ob.out,
            (if n < bl.length then ["read-partial"] else []) ++ (if n = 0 ∧ bl.length > 0 then ["read-no-room"] else []))
  | .decode => do
      let (d, ob, rsv) ← (DState.mk m.c m.backlog).step (.decode cap')
      let c' := d.c
      let tags := (if m.c.reset then ["lazy-consume"] else []) ++ (if c'.buf.cap ≠ m.c.buf.cap then ["reserve-grow"] else [])
        ++ (if rsv.isSome then ["needmore-payload"] else [])
      match ob.out with
      | .needMore =>
          let t := if rsv.isSome then [] else if c'.buf.ri = 0 then [] else ["needmore-ext-or-mask"]
          pure ({ m with c := c' }, .out .needMore, tags ++ t)
      | .tooBig =>
          let neg : Bool := match PayloadLength ((c'.buf.data.drop c'.buf.si.toNat).take c'.buf.ri.toNat) with
            | .ok v => decide (v < 0) | _ => false
          pure ({ m with c := c' }, .out .tooBig, tags ++ ["toobig"] ++ (if neg then ["toobig-top-bit"] else []))
      | .frame f size =>
          let ext := extLen (byteAt (c'.buf.data.drop c'.buf.si.toNat) 1)
          let t := ["frame"] ++ (if ext = 2 then ["len16"] else if ext = 8 then ["len64"] else []) ++ (if f.masked then ["masked"] else [])
            ++ (if (ext = 2 ∧ f.payload.length ≤ 125) ∨ (ext = 8 ∧ f.payload.length ≤ 65535) then ["non-minimal-length"] else [])
            ++ (if (f.payload.length : Int) = c'.max then ["len=max"] else [])
          pure ({ m with c := c' }, .out (.frame f size), tags ++ t)
      | o => pure ({ m with c := c' }, .out o, tags)
  | .encfeed f opcode => do
      let w ← Sonic.Model.WsEncode.buildFresh f.fin f.rsv1 f.rsv2 f.rsv3 (UInt8.ofNat opcode) f.masked f.mask f.payload
      let b ← m.c.buf.Write w cap'
      pure ({ m with c := { m.c with buf := b } }, .wire w, ["encfeed"])

/-- Follow one operation with the model and compare with what the implementation printed. -/
def hookStep (ms : MState) (op : SOp) (cap : Int) (out : Out) (lens : Option Lens) (i : Nat) (res : Driver.Result) :
    Option MState × Driver.Result :=
  match out, lens with
  | .out .panic, _ =>
    match mstep ms op cap with
    | .error e => (none, if e = .env then res else { res with tags := Driver.addTag res.tags "panic" })
    | .ok (_, mo, _) => (none, { res with modelDiff := res.modelDiff <|> some (i, s!"impl=[panic] model=[{showOut mo}]") })
  | _, some l =>
    match mstep ms op cap with
    | .error .env =>
      (none, { res with envBad := res.envBad <|> some (i, s!"capacity {cap} is not one the model's Reserve/Write allows here") })
    | .error e =>
      (none, { res with modelDiff := res.modelDiff <|> some (i, s!"impl=[{showOut out}] model=[{showPanic e}]") })
    | .ok (ms', mo, tags) =>
      match lensOf ms'.c.buf with
      | .ok ml =>
        if ms'.c.buf.cap ≠ cap then
          (none, { res with envBad := res.envBad <|> some (i, s!"capacity {cap} reported, the model has {ms'.c.buf.cap} (growth the model does not perform, or none where it does)") })
        else if mo ≠ out ∨ ml ≠ l then
          (none, { res with modelDiff := res.modelDiff <|> some (i, s!"impl=[{showOut out} {showLens l}] model=[{showOut mo} {showLens ml}]") })
        else (some ms', { res with tags := tags.foldl Driver.addTag res.tags })
      | .error e => (none, { res with modelDiff := res.modelDiff <|> some (i, s!"model region lengths: {showPanic e}") })
  | _, none => (some ms, res)

def check (sc : Driver.Script) : Driver.Result :=
  checkWith (some { init := ({ c := Codec.new Buf.new 0, backlog := [] } : MState), step := hookStep }) sc

end Driver.WsDecode
