import Driver.Util
import Sonic.Spec.WsFrame
import Sonic.Model.WsEncode

/-! Trace acceptor for the harness component `wsdecode` (C07): model of `FrameCodec.Decode` over the
ByteBuffer model, and the RFC 6455 monitor. -/
namespace Driver.WsDecode
open Sonic.Spec.WsFrame Sonic.Model.WsBuf Sonic.Model.WsFrame

def hexVal (c : Char) : Option Nat :=
  if '0' ≤ c ∧ c ≤ '9' then some (c.toNat - '0'.toNat)
  else if 'a' ≤ c ∧ c ≤ 'f' then some (c.toNat - 'a'.toNat + 10)
  else none

def unhexAux : List Char → List UInt8 → Option (List UInt8)
  | [], acc => some acc.reverse
  | [_], _ => none
  | a :: b :: r, acc => do
    let x ← hexVal a
    let y ← hexVal b
    unhexAux r (UInt8.ofNat (x * 16 + y) :: acc)

def unhex (s : String) : Option (List UInt8) :=
  if s = "-" then some [] else unhexAux s.toList []

def hexDigit (n : Nat) : Char := if n < 10 then Char.ofNat (48 + n) else Char.ofNat (87 + n)

def hex (l : List UInt8) : String :=
  if l.isEmpty then "-" else
  String.ofList (l.foldr (fun b acc => hexDigit (b.toNat / 16) :: hexDigit (b.toNat % 16) :: acc) [])

def bool? (s : String) : Option Bool := if s = "1" then some true else if s = "0" then some false else none

/-- A parsed script operation. -/
inductive SOp where
  | new (max reserve : Int)
  | feed (bs : List UInt8)
  | read (bs : List UInt8)
  | decode
  | encfeed (f : Frame) (opcode : Nat)    -- opcode as given to SetOpcode (0..255)

def parseOp : List String → Option SOp
  | ["new", m, r] => do pure (.new (← int? m) (← int? r))
  | ["feed", h] => (unhex h).map .feed
  | ["read", h] => (unhex h).map .read
  | ["decode"] => some .decode
  | ["encfeed", fin, r1, r2, r3, op, m, mask, p] => do
      let op ← op.toNat?
      let masked ← bool? m
      let mask ← if masked then unhex mask else some []
      pure (.encfeed { fin := ← bool? fin, rsv1 := ← bool? r1, rsv2 := ← bool? r2, rsv3 := ← bool? r3, opcode := op % 16,
                       masked := masked, mask := mask, payload := ← unhex p } op)
  | _ => none

structure Lens where
  save : Int
  read : Int
  write : Int
  reserved : Int
  deriving DecidableEq

inductive Out where
  | out (o : Outcome)
  | wire (bs : List UInt8)
  deriving DecidableEq

def parseLens : List String → Option Lens
  | ["buf", a, b, c, d] => do pure ⟨← int? a, ← int? b, ← int? c, ← int? d⟩
  | _ => none

/-- `<` line → (outcome, region lengths). -/
def parseObs : List String → Option (Out × Option Lens)
  | ["panic"] => some (.out .panic, none)
  | "ok" :: r => do pure (.out .ok, ← parseLens r)
  | "n" :: k :: r => do pure (.out (.took (← k.toNat?)), ← parseLens r)
  | "needmore" :: r => do pure (.out .needMore, ← parseLens r)
  | "err" :: "toobig" :: r => do pure (.out .tooBig, ← parseLens r)
  | "err" :: _ :: r => do pure (.out .other, (parseLens r))
  | "wire" :: h :: r => do pure (.wire (← unhex h), ← parseLens r)
  | "frame" :: fin :: r1 :: r2 :: r3 :: op :: m :: mask :: len :: p :: r => do
      let f : Frame := { fin := ← bool? fin, rsv1 := ← bool? r1, rsv2 := ← bool? r2, rsv3 := ← bool? r3, opcode := ← op.toNat?,
                         masked := ← bool? m, mask := ← unhex mask, payload := ← unhex p }
      pure (.out (.frame f (← len.toNat?)), ← parseLens r)
  | _ => none

def showOutcome : Outcome → String
  | .ok => "ok" | .took n => s!"n {n}" | .needMore => "needmore" | .tooBig => "err toobig" | .panic => "panic" | .other => "err other"
  | .frame f size => s!"frame fin={f.fin} rsv={f.rsv1},{f.rsv2},{f.rsv3} op={f.opcode} masked={f.masked} mask={hex f.mask} len={size} payload={hex (f.payload.take 24)}{if f.payload.length > 24 then "…" else ""}({f.payload.length})"

def showOut : Out → String
  | .out o => showOutcome o
  | .wire bs => s!"wire {hex (bs.take 32)}({bs.length})"

/-! ### Model side -/

structure MState where
  c : Codec
  backlog : List UInt8

def lensOf (b : Buf) : M Lens := do
  pure ⟨← b.SaveLen, ← b.ReadLen, ← b.WriteLen, b.Reserved⟩

def showLens (l : Lens) : String := s!"buf {l.save} {l.read} {l.write} {l.reserved}"

def showPanic : Panic → String
  | .sliceBounds => "panic(slice bounds)" | .indexRange => "panic(index)" | .outsideReceived => "reads outside the received bytes"
  | .allocRange => "panic(allocation size out of range)"
  | .env => "env"

/-- One model step: the new state, what the model expects to be printed, and coverage tags. -/
def mstep (m : MState) (op : SOp) (cap' : Int) : M (MState × Out × List String) :=
  match op with
  | .new max reserve => do
      let b ← if reserve > 0 then Buf.new.Reserve reserve cap' else pure Buf.new
      pure ({ c := Codec.new b max, backlog := [] }, .out .ok, [])
  | .feed bs => do
      let (d, ob, _) ← (DState.mk m.c m.backlog).step (.feed bs cap')
      pure ({ c := d.c, backlog := d.backlog }, .out ob.out, if d.c.buf.cap ≠ m.c.buf.cap then ["write-grow"] else [])
  | .read bs => do
      let (d, ob, _) ← (DState.mk m.c m.backlog).step (.read bs)
      let bl := m.backlog ++ bs
      let n := bl.length - d.backlog.length
      pure ({ c := d.c, backlog := d.backlog }, .out ob.out,
            (if n < bl.length then ["read-partial"] else []) ++ (if n = 0 ∧ bl.length > 0 then ["read-no-room"] else []))
  | .decode => do
      let (d, ob, rsv) ← (DState.mk m.c m.backlog).step (.decode cap')
      let c' := d.c
      let tags := (if m.c.reset then ["lazy-consume"] else []) ++ (if c'.buf.cap ≠ m.c.buf.cap then ["reserve-grow"] else [])
        ++ (if rsv.isSome then ["needmore-payload"] else [])
      match ob.out with
      | .needMore =>
          let t := if rsv.isSome then [] else if c'.buf.ri = 0 then [] else ["needmore-ext-or-mask"]
          pure ({ m with c := c' }, .out .needMore, tags ++ t)
      | .tooBig =>
          let neg : Bool := match PayloadLength ((c'.buf.data.drop c'.buf.si.toNat).take c'.buf.ri.toNat) with
            | .ok v => decide (v < 0) | _ => false
          pure ({ m with c := c' }, .out .tooBig, tags ++ ["toobig"] ++ (if neg then ["toobig-top-bit"] else []))
      | .frame f size =>
          let ext := extLen (byteAt (c'.buf.data.drop c'.buf.si.toNat) 1)
          let t := ["frame"] ++ (if ext = 2 then ["len16"] else if ext = 8 then ["len64"] else []) ++ (if f.masked then ["masked"] else [])
            ++ (if (ext = 2 ∧ f.payload.length ≤ 125) ∨ (ext = 8 ∧ f.payload.length ≤ 65535) then ["non-minimal-length"] else [])
            ++ (if (f.payload.length : Int) = c'.max then ["len=max"] else [])
          pure ({ m with c := c' }, .out (.frame f size), tags ++ t)
      | o => pure ({ m with c := c' }, .out o, tags)
  | .encfeed f opcode => do
      let w ← Sonic.Model.WsEncode.buildFresh f.fin f.rsv1 f.rsv2 f.rsv3 (UInt8.ofNat opcode) f.masked f.mask f.payload
      let b ← m.c.buf.Write w cap'
      pure ({ m with c := { m.c with buf := b } }, .wire w, ["encfeed"])

/-! ### Monitor side -/

structure SpecState where
  s : S
  /-- `decode ∘ encode`: frames the library's encoder produced whose bytes are still ahead of the decoder,
  with the number of fed bytes that precede each. -/
  expect : List (Nat × Frame) := []
  fed : Nat := 0          -- bytes given to the decoder so far
  consumed : Nat := 0     -- bytes of yielded frames

def sstep (st : SpecState) (op : SOp) (out : Out) (l : Lens) : Except String SpecState :=
  let len := l.save + l.read + l.write
  let run (sop : Op) (o : Outcome) (k : S → SpecState) : Except String SpecState :=
    match step st.s sop ⟨o, len, l.reserved⟩ with
    | some s' => .ok (k s')
    | none => .error (explain st.s sop ⟨o, len, l.reserved⟩)
  match op, out with
  | .new max _, .out .ok => .ok { s := init max }
  | .feed bs, .out o => run (.feed bs) o fun s' => { st with s := s', fed := st.fed + bs.length }
  | .read bs, .out o => run (.read bs) o fun s' => { st with s := s', fed := st.fed + (match o with | .took n => n | _ => 0) }
  | .encfeed f _, .wire w =>
      match step st.s (.feed w) ⟨.ok, len, l.reserved⟩ with
      | some s' => .ok { st with s := s', fed := st.fed + w.length, expect := st.expect ++ [(st.fed, f)] }
      | none => .error (explain st.s (.feed w) ⟨.ok, len, l.reserved⟩)
  | .decode, .out o =>
      match step st.s .decode ⟨o, len, l.reserved⟩ with
      | none => .error (explain st.s .decode ⟨o, len, l.reserved⟩)
      | some s' =>
        match o with
        | .frame f size =>
          -- the frame that starts where an encoder output starts must be the frame that was encoded
          let here := st.consumed
          let expect := st.expect.filter (fun e => e.1 > here)
          match st.expect.find? (fun e => e.1 = here) with
          | some (_, g) =>
            if g = f then .ok { st with s := s', consumed := here + size, expect := expect }
            else .error "key=wsdecode.decode-encode decoding the encoder's output returned a different frame"
          | none => .ok { st with s := s', consumed := here + size, expect := expect }
        | _ => .ok { st with s := s' }
  | _, .out .panic => .error "key=wsdecode.panic the call panicked"
  | _, _ => .error "key=wsdecode.outcome unexpected kind of result for this operation"

/-! ### Script loop -/

def checkWith (withModel : Bool) (sc : Driver.Script) : Driver.Result := Id.run do
  let mut res : Driver.Result := {}
  let mut m : Option MState := none
  let mut s : Option SpecState := none
  let mut pending : Option SOp := none
  let mut cap : Int := 0
  let mut i := 0
  for ln in sc.lines do
    i := i + 1
    if ln.kind == '!' then
      match parseOp ln.toks with
      | some op =>
        pending := some op; res := { res with ops := res.ops + 1 }
        if let .new _ _ := op then
          m := if withModel then some { c := Codec.new Buf.new 0, backlog := [] } else none
          s := some { s := init 0 }
      | none => pending := none; res := { res with envBad := res.envBad <|> some (i, s!"unparsable operation: {ln.raw.take 80}") }
    else if ln.kind == '?' then
      match ln.toks with
      | ["cap", n] => cap := (int? n).getD 0
      | _ => res := { res with envBad := res.envBad <|> some (i, s!"unknown environment line: {ln.raw.take 80}") }
    else if ln.kind == '<' then
      match pending, parseObs ln.toks with
      | some op, some (out, lens) =>
        pending := none
        -- model
        if let some ms := m then
          match out, lens with
          | .out .panic, _ =>
            match mstep ms op cap with
            | .error e => if e = .env then pure () else
                res := { res with tags := Driver.addTag res.tags "panic" }
            | .ok (_, mo, _) => res := { res with modelDiff := res.modelDiff <|> some (i, s!"impl=[panic] model=[{showOut mo}]") }
            m := none
          | _, some l =>
            match mstep ms op cap with
            | .error .env =>
              res := { res with envBad := res.envBad <|> some (i, s!"capacity {cap} is not one the model's Reserve/Write allows here") }
              m := none
            | .error e =>
              res := { res with modelDiff := res.modelDiff <|> some (i, s!"impl=[{showOut out}] model=[{showPanic e}]") }
              m := none
            | .ok (ms', mo, tags) =>
              match lensOf ms'.c.buf with
              | .ok ml =>
                if ms'.c.buf.cap ≠ cap then
                  res := { res with envBad := res.envBad <|> some (i, s!"capacity {cap} reported, the model has {ms'.c.buf.cap} (growth the model does not perform, or none where it does)") }
                  m := none
                else if mo ≠ out ∨ ml ≠ l then
                  res := { res with modelDiff := res.modelDiff <|> some (i, s!"impl=[{showOut out} {showLens l}] model=[{showOut mo} {showLens ml}]") }
                  m := none
                else
                  m := some ms'
                  res := { res with tags := tags.foldl Driver.addTag res.tags }
              | .error e =>
                res := { res with modelDiff := res.modelDiff <|> some (i, s!"model region lengths: {showPanic e}") }
                m := none
          | _, none => pure ()
        -- monitor
        if let some st := s then
          match sstep st op out (lens.getD ⟨0, 0, 0, 0⟩) with
          | .ok st' => s := some st'
          | .error d =>
            res := { res with specFail := some (i, s!"{d}; op=[{ln.raw.take 0}{match op with | .decode => "decode" | .feed _ => "feed" | .read _ => "read" | .new _ _ => "new" | .encfeed _ _ => "encfeed"}] obs=[{showOut out}] pending={hex (st.s.pending.take 16)}({st.s.pending.length}) max={st.s.max}") }
            s := none
      | _, none => res := { res with envBad := res.envBad <|> some (i, s!"unparsable result line: {ln.raw.take 80}") }
      | none, _ => pure ()
  return res

def check (sc : Driver.Script) : Driver.Result := checkWith true sc
def checkSpec (sc : Driver.Script) : Driver.Result := checkWith false sc

end Driver.WsDecode
