import Driver.WsMsgSpec
import Sonic.Model.WsMsg

/-! Model acceptor for `wsmsg` traces (C06): the composed model (transport segments → ByteBuffer → FrameCodec.Decode →
handleFrame → NextFrame / NextMessage) must reproduce every line the four readers printed. -/
namespace Driver.WsMsg
open Sonic.Spec.WsMessages Sonic.Model.WsMsg Driver.WsMsgSpec
open Sonic.Spec.WsStream (Err InFrame)

structure MState where
  max : Nat := 0
  buf : Nat := 0
  sess : Session := { msgs := [], tail := [] }
  cuts : List Nat := []

def showFail : Fail → String
  | .buf .sliceBounds => "panic(slice bounds)" | .buf .indexRange => "panic(index)"
  | .buf .outsideReceived => "reads outside the received bytes" | .buf .allocRange => "panic(allocation size)"
  | .buf .env => "env" | .unreachable => "panic(unreachable)" | .fuel => "a loop does not end"

/-- Offsets at which the frames start, with their header lengths. -/
def layout : List Sonic.Spec.WsFrame.Frame → Nat → List (Nat × Nat)
  | [], _ => []
  | f :: r, off =>
    let size := (Sonic.Spec.WsFrame.encode f).length
    (off, size - f.payload.length) :: layout r (off + size)

def boundaries : List (List UInt8) → Nat → List Nat
  | [], _ => []
  | [_], _ => []
  | s :: r, off => (off + s.length) :: boundaries r (off + s.length)

def sessionTags (ms : MState) (segs : List (List UInt8)) : List String :=
  let fs := ms.sess.frames
  let lay := layout fs 0
  let bnd := boundaries segs 0
  let any (p : Sent → Bool) := ms.sess.msgs.any p
  (if any (fun m => m.parts.length > 1) then ["fragmented"] else []) ++
  (if any (fun m => (m.parts.drop 1).any (fun p => !p.1.isEmpty)) then ["control-between-fragments"] else []) ++
  (if any (fun m => match m.parts with | p :: _ => !p.1.isEmpty | [] => false) then ["control-before-message"] else []) ++
  (if any (fun m => m.parts.length > 1 && m.parts.any (fun p => p.2.isEmpty)) then ["empty-fragment"] else []) ++
  (if any (fun m => m.parts.length > 1 && (match m.parts.getLast? with | some p => p.2.isEmpty | none => false)) then ["empty-final-fragment"] else []) ++
  (if !ms.sess.tail.isEmpty then ["trailing-controls"] else []) ++
  (if fs.any (fun f => 126 ≤ f.payload.length && f.payload.length ≤ 65535) then ["len16"] else []) ++
  (if fs.any (fun f => 65536 ≤ f.payload.length) then ["len64"] else []) ++
  (if any (fun m => m.payload.length == ms.max) then ["msg=max"] else []) ++
  (if any (fun m => m.payload.length == ms.buf) then ["msg=buf"] else []) ++
  (if ms.sess.msgs.length > 1 then ["several-messages"] else []) ++
  (if segs.length > 1 then ["segmented"] else []) ++
  (if bnd.any (fun b => lay.any (fun l => l.1 < b && b < l.1 + l.2)) then ["split-in-header"] else []) ++
  (if bnd.any (fun b => lay.any (fun l => l.2 > 2 && l.1 + 2 < b && b < l.1 + l.2)) then ["split-in-length-field"] else []) ++
  (if !(decide (InScope ms.max ms.buf ms.sess)) then ["outside-hypotheses"] else [])

def firstDiff {α : Type} [DecidableEq α] : List α → List α → Nat → Option Nat
  | [], [], _ => none
  | a :: r, b :: t, i => if a = b then firstDiff r t (i + 1) else some i
  | _, _, i => some i

def step (ms : MState) (r : OpRec) (res : Driver.Result) : MState × Driver.Result :=
  let diff (d : String) : Driver.Result := { res with modelDiff := res.modelDiff <|> some (r.line, d) }
  match r.op with
  | .new max buf => ({ max := max, buf := buf }, res)
  | .msg m => ({ ms with sess := { ms.sess with msgs := ms.sess.msgs ++ [m] } }, res)
  | .tail cs => ({ ms with sess := { ms.sess with tail := ms.sess.tail ++ cs } }, res)
  | .cut n => ({ ms with cuts := ms.cuts ++ [n] }, res)
  | .encode =>
    if r.obs = .wire (wire ms.sess) then (ms, res)
    else (ms, diff s!"impl=[{showObs r.obs}] model=[{showObs (.wire (wire ms.sess))}]")
  | .read api async pre =>
    let segs := segments ms.cuts (wire ms.sess)
    let rooms := r.rds.map (·.1)
    let w := W.init ms.max (rooms.head?.getD 4096) segs rooms
    let bound := ms.sess.frames.length + 3
    match observe api async ms.buf bound w with
    | .error (.buf .env) =>
      (ms, { res with envBad := res.envBad <|> some (r.line, "a room reported by the transport is not one the model's Reserve allows") })
    | .error e =>
      if r.obs = .panic then (ms, { res with tags := Driver.addTag res.tags "panic" })
      else (ms, diff s!"impl=[{showObs r.obs}] model=[{showFail e}]")
    | .ok (mo, w') =>
      if mo ≠ r.obs then (ms, diff s!"impl=[{showObs r.obs}] model=[{showObs mo}]")
      else if w'.reads ≠ r.rds then
        (ms, { res with envBad := res.envBad <|> some (r.line,
          s!"transport reads differ at #{(firstDiff w'.reads r.rds 0).getD 0}: the model made {w'.reads.length}, the implementation {r.rds.length}") })
      else
        let tags := sessionTags ms segs ++
          (if async && (match pre with | some p => decide (p < segs.length) | none => false) then ["late-arrival"] else []) ++
          (if r.rds.any (fun x => x.2 > 0 ∧ (x.2 : Int) = x.1) then ["read-fills-room"] else []) ++
          (if r.rds.any (fun x => x.1 > (rooms.head?.getD 4096)) then ["reserve-grow"] else []) ++
          (match mo with
            | .msgs l => (if l.any (fun o => o.err == .tooBig) then ["msg-too-big"] else []) ++ (if l.any (fun o => o.err == .overMax) then ["frame-over-max"] else [])
            | .frames l => (if l.any (fun o => o.err == .overMax) then ["frame-over-max"] else [])
            | _ => [])
        (ms, { res with tags := tags.foldl Driver.addTag res.tags })

def check (sc : Driver.Script) : Driver.Result :=
  checkWith (some { init := ({} : MState), step := step }) sc

end Driver.WsMsg
