import Driver.Util
import Sonic.Spec.Bip

/-! Spec-only acceptor for `bip` traces: depends on nothing regenerated from the source. -/
namespace Driver.BipSpec
open Sonic.Spec.Bip

def parseOp : List String → Option Op
  | ["claim", n] => (int? n).map .claim
  | ["commit", n] => (int? n).map .commit
  | ["consume", n] => (int? n).map .consume
  | ["head"] => some .head
  | ["committed"] => some .committed
  | ["reset"] => some .reset
  | _ => none

def parseObs : List String → Option Obs
  | ["view", a, b] => do let a ← int? a; let b ← int? b; pure (.view a b)
  | ["int", v] => (int? v).map .int
  | ["unit"] => some .unit
  | ["panic"] => some .panic
  | _ => none

def showObs : Obs → String
  | .view a b => s!"view {a} {b}" | .int v => s!"int {v}" | .unit => "unit" | .panic => "panic"

def showOp : Op → String
  | .claim n => s!"claim {n}" | .commit n => s!"commit {n}" | .consume n => s!"consume {n}"
  | .head => "head" | .committed => "committed" | .reset => "reset"

/-- Replay a script against the monitor; `onStep` lets the caller (the model acceptor) follow along. -/
def checkWith {σ : Type} (sc : Driver.Script) (m0 : Int → σ)
    (mstep : σ → Op → Obs → Driver.Result → Nat → (σ × Driver.Result)) : Driver.Result := Id.run do
  let mut res : Driver.Result := {}
  let mut m : σ := m0 0
  let mut s : Option S := some (init 0)
  let mut pending : Option Op := none
  let mut i := 0
  for ln in sc.lines do
    i := i + 1
    if ln.kind == '!' then
      match ln.toks with
      | ["new", n] =>
        let n := (int? n).getD 0
        -- the monitor's state is linear in the buffer size (one entry per queued cell): above 2^24 cells it is not followed
        -- and the script is decided by equality with the index-based model alone (which C10_refines covers for every size)
        m := m0 n; s := if n > 16777216 then none else some (init n); pending := none
        if n > 16777216 then res := { res with tags := Driver.addTag res.tags "huge-size-model-only" }
      | toks =>
        match parseOp toks with
        | some op => pending := some op; res := { res with ops := res.ops + 1 }
        | none => res := { res with envBad := res.envBad <|> some (i, s!"unparsable operation: {ln.raw}") }
    else if ln.kind == '<' then
      match pending, parseObs ln.toks with
      | some op, some ob =>
        pending := none
        let (m', res') := mstep m op ob res i
        m := m'; res := res'
        match s with
        | some st =>
          match step st op ob with
          | some st' => s := some st'
          | none =>
            res := { res with specFail := some (i, s!"key=bip.{showOp op |>.takeWhile (· ≠ ' ')} op=[{showOp op}] obs=[{showObs ob}] rejected by the byte-queue monitor (queue={st.q}, claim=({st.cLo},{st.cLen}), size={st.size})") }
            s := none
        | none => pure ()
      | _, _ => pure ()
  return res

def check (sc : Driver.Script) : Driver.Result :=
  checkWith sc (fun _ => ()) (fun _ _ _ r _ => ((), r))

end Driver.BipSpec
