import Driver.Util
import Driver.WsDecodeSpec
import Sonic.Spec.WsWire

/-! Spec-only acceptor for the harness component `wswrite` (C16): trace parsing and the wire monitor (independent RFC 6455
parser over the complete outgoing stream). Imports no model; `Driver/WsWrite.lean` plugs the model in through `Hook`. -/
namespace Driver.WsWriteSpec
open Driver.WsDecodeSpec
open Sonic.Spec.WsWire (Req Res)

/-- `@n:seed` payloads of the harness: byte i = (i*7 + seed + i/251) % 256. -/
def payload? (s : String) : Option (List UInt8) :=
  if s.startsWith "@" then
    match (s.drop 1).toString.splitOn ":" with
    | [n, seed] => do
      let n ← n.toNat?
      let seed ← seed.toNat?
      pure ((List.range n).map fun i => UInt8.ofNat ((i * 7 + seed + i / 251) % 256))
    | _ => none
  else unhex s

/-- A script operation (the environment's answers — masking keys, pooled frame length — are added by the model side). -/
inductive SOp where
  | new (max : Int)
  | setmax (max : Int)     -- SetMaxMessageSize on the live stream: the configured maximum changes from here on
  | plan (l : List Nat)
  | defer (b : Bool)
  | write (async : Bool) (opcode : Nat) (payload : List UInt8)
  | frame (async : Bool) (opcode : Nat) (fin : Bool) (payload : Option (List UInt8))
  | flush (async : Bool)
  | close (async : Bool) (code : Nat) (reason : List UInt8)
  | pump

def opcodeOf (t : String) : Option Nat := if t = "text" then some 1 else if t = "binary" then some 2 else none

def parseOp : List String → Option SOp
  | ["new", m] => (int? m).map .new
  | ["setmax", m] => (int? m).map .setmax
  | "plan" :: l => (l.mapM fun (x : String) => x.toNat?).map .plan
  | ["defer", b] => (bool? b).map .defer
  | [w, t, p] =>
      if w = "write" ∨ w = "awrite" then do pure (.write (w = "awrite") (← opcodeOf t) (← payload? p))
      else if w = "close" ∨ w = "aclose" then do pure (.close (w = "aclose") (← t.toNat?) (← unhex p))
      else none
  | [w, oc, fin, p] =>
      if w = "frame" ∨ w = "aframe" then do
        let p ← if p = "none" then some none else (payload? p).map some
        pure (.frame (w = "aframe") (← oc.toNat?) (← bool? fin) p)
      else none
  | [w, oc, fin, p, _retype] =>     -- `retype=<op>`: the frame's type was set to <op> first and is replaced (same frame)
      if w = "frame" ∨ w = "aframe" then do
        let p ← if p = "none" then some none else (payload? p).map some
        pure (.frame (w = "aframe") (← oc.toNat?) (← bool? fin) p)
      else none
  | ["flush"] => some (.flush false)
  | ["aflush"] => some (.flush true)
  | ["pump"] => some .pump
  | _ => none

/-- Results as the harness names them. -/
inductive EName where
  | nil | tooBig | cancelled | eof
  deriving Repr, DecidableEq

def err? (s : String) : Option EName :=
  if s = "nil" then some .nil else if s = "toobig" then some .tooBig else if s = "cancelled" then some .cancelled
  else if s = "eof" then some .eof else none

def showErr : EName → String
  | .nil => "nil" | .tooBig => "toobig" | .cancelled => "cancelled" | .eof => "eof"

structure Seen where
  res : Option EName
  cbs : List (Nat × EName)
  wire : List UInt8
  segs : List Nat
  pending : Nat
  dst : Nat
  deriving DecidableEq

def parseCbs (s : String) : Option (List (Nat × EName)) :=
  if s = "-" then some [] else
  (s.splitOn ",").mapM fun e => match e.splitOn ":" with
    | [i, er] => do pure (← i.toNat?, ← err? er)
    | _ => none

def parseSegs (s : String) : Option (List Nat) :=
  if s = "-" then some [] else (s.splitOn ",").mapM (·.toNat?)

def parseSeen : List String → Option Seen
  | [res, "cbs", cbs, "wire", w, "segs", sg, "pending", p, "dst", d] => do
      let r ← if res = "-" then some none else (err? res).map some
      pure { res := r, cbs := ← parseCbs cbs, wire := ← unhex w, segs := ← parseSegs sg, pending := ← p.toNat?, dst := ← d.toNat? }
  | _ => none

def showSeen (o : Seen) : String :=
  s!"{match o.res with | none => "-" | some e => showErr e} cbs {o.cbs.map fun c => s!"{c.1}:{showErr c.2}"} wire {hex (o.wire.take 24)}({o.wire.length}) segs {o.segs} pending {o.pending} dst {o.dst}"

/-- The monitor's view of an operation. -/
def specOp (id : Nat) : SOp → Sonic.Spec.WsWire.Op
  | .write _ oc p => .submit id true { fin := true, opcode := oc % 16, payload := p }
  | .frame _ oc fin p => .submit id false { fin := fin, opcode := oc % 16, payload := p.getD [] }
  | .close _ code reason => .submit id false { fin := true, opcode := 8, payload := Sonic.Spec.WsFrame.beBytes 2 (code % 65536) ++ reason }
  | _ => .other id

def specObs (o : Seen) : Sonic.Spec.WsWire.Obs :=
  { res := match o.res with | none => .none | some .nil => .ok | some .tooBig => .tooBig | some _ => .refused,
    done := o.cbs.map fun c => (c.1, decide (c.2 = .nil)), wire := o.wire }

/-- What a model acceptor plugs in: state for a given maximum, and a step that follows one operation (given the keys
and the pooled frame length the environment reported) and records divergences. -/
structure Hook (σ : Type) where
  init : Int → σ
  step : σ → Nat → SOp → List (List UInt8) → Nat → Seen → Nat → Driver.Result → Option σ × Driver.Result

def checkWith {σ : Type} (hook : Option (Hook σ)) (sc : Driver.Script) : Driver.Result := Id.run do
  let mut res : Driver.Result := {}
  let mut m : Option σ := none
  let mut s : Option Sonic.Spec.WsWire.S := none
  let mut pending : Option SOp := none
  let mut keys : List (List UInt8) := []
  let mut flen : Nat := 14
  let mut i := 0
  let mut id := 0    -- index of the operation within the script (0-based, as the harness numbers callbacks)
  for ln in sc.lines do
    i := i + 1
    if ln.kind == '!' then
      keys := []; flen := 14
      match parseOp ln.toks with
      | some op => pending := some op; res := { res with ops := res.ops + 1 }
      | none => pending := none; res := { res with envBad := res.envBad <|> some (i, s!"unparsable operation: {ln.raw.take 80}") }
    else if ln.kind == '?' then
      match ln.toks with
      | ["key", k] => keys := keys ++ [(unhex k).getD []]
      | ["flen", n] => flen := n.toNat?.getD 14
      | _ => res := { res with envBad := res.envBad <|> some (i, s!"unknown environment line: {ln.raw.take 80}") }
    else if ln.kind == '<' then
      let myId := id
      id := id + 1
      match pending with
      | none => pure ()
      | some (.new max) =>
        pending := none
        m := hook.map (·.init max)
        s := some (Sonic.Spec.WsWire.init max)
      | some (.setmax max) =>
        pending := none
        s := s.map fun st => { st with max := max }
        if let (some h, some ms, some seen) := (hook, m, parseSeen ln.toks) then
          let (m', res') := h.step ms myId (.setmax max) keys flen seen i res
          m := m'; res := res'
      | some op =>
        pending := none
        if ln.toks == ["panic"] then
          res := { res with specFail := res.specFail <|> some (i, "key=wswrite.panic the call panicked") }
          m := none; s := none
        else
        match parseSeen ln.toks with
        | some seen =>
          if let (some h, some ms) := (hook, m) then
            let (m', res') := h.step ms myId op keys flen seen i res
            m := m'; res := res'
          if let some st := s then
            match Sonic.Spec.WsWire.step st (specOp myId op) (specObs seen) with
            | .ok st' => s := some st'
            | .error d =>
              res := { res with specFail := some (i, s!"{d}; op=[{(sc.lines.toList.filter (·.kind == '!')).getD myId ln |>.raw.take 60}] obs=[{showSeen seen}]") }
              s := none
        | none => res := { res with envBad := res.envBad <|> some (i, s!"unparsable result line: {ln.raw.take 80}") }
  return res

def check (sc : Driver.Script) : Driver.Result := checkWith (σ := Unit) none sc

end Driver.WsWriteSpec
