import Driver.Util
import Sonic.Spec.Datagram

/-! Spec-only acceptor for `mcast` traces (C12): turns the lines of every operation into monitor events. -/
namespace Driver.DatagramSpec
open Sonic.Spec.Datagram

def nat? (s : String) : Option Nat := s.toNat?

/-- `g<k>` is the k-th multicast group of the script (239.0.0.(k+1) for the monitor), otherwise a dotted quad. -/
def ip? (s : String) : Option Ip :=
  if s.startsWith "g" then (nat? (s.drop 1).toString).map (4009754625 + ·)
  else match s.splitOn "." with
    | [a, b, c, d] => do
        let a ← nat? a; let b ← nat? b; let c ← nat? c; let d ← nat? d
        if a < 256 ∧ b < 256 ∧ c < 256 ∧ d < 256 then pure (((a * 256 + b) * 256 + c) * 256 + d) else none
    | _ => none

def addr? (s : String) : Option Addr :=
  match s.splitOn ":" with
  | [i, p] => do pure { ip := ← ip? i, port := ← nat? p }
  | _ => none

def errc (s : String) : Errc :=
  match s with
  | "nil" => .nil | "eof" => .eof | "sys-EINVAL" => .inval | "sys-EMSGSIZE" => .msgsize | "sys-ENOTSOCK" => .notsock
  | "sys-EADDRINUSE" => .addrinuse | "sys-EADDRNOTAVAIL" => .addrnotavail | _ => .other

def bool? (s : String) : Option Bool := match s with | "1" => some true | "0" => some false | _ => none

def pat (seed n : Nat) : List UInt8 := (List.range n).map fun i => UInt8.ofNat (seed + i * 7 + i / 251)

def data? (s : String) : Option (List UInt8) :=
  if s.startsWith "pat:" then
    match s.splitOn ":" with
    | [_, seed, n] => do pure (pat (← nat? seed) (← nat? n))
    | _ => none
  else Driver.hex? s

def kern? (toks : List String) : Option Kern := do
  let loop ← (Driver.attr? toks "loop").bind bool?
  let ttl ← (Driver.attr? toks "ttl").bind nat?
  let mcIf ← (Driver.attr? toks "if").bind ip?
  let all ← (Driver.attr? toks "all").bind bool?
  let name ← (Driver.attr? toks "name").bind addr?
  pure { loop := loop, ttl := ttl, mcIf := mcIf, all := all, name := name }

def getters? (toks : List String) : Option Getters := do
  let loop ← (Driver.attr? toks "loop").bind bool?
  let ttl ← (Driver.attr? toks "ttl").bind nat?
  let outIfS ← Driver.attr? toks "outif"
  let outIf ← if outIfS == "-" then pure none else (ip? outIfS).map some
  let outIp ← (Driver.attr? toks "outip").bind ip?
  let all ← (Driver.attr? toks "all").bind bool?
  let la ← (Driver.attr? toks "local").bind addr?
  pure { loop := loop, ttl := ttl, outIf := outIf, outIp := outIp, all := all, localAddr := la }

/-- `< done s err n from b<id>=hex …` -/
def done? (toks : List String) : Option Ev :=
  match toks with
  | "done" :: s :: e :: n :: src :: bufs => do
      let s ← nat? s
      let n ← nat? n
      let src ← if src == "-" then pure none else (addr? src).map some
      let bs ← bufs.filter (· ≠ "again") |>.mapM fun t =>
        match t.splitOn "=" with
        | [k, v] => do pure ((← nat? (k.drop 1).toString), (← Driver.hex? v))
        | _ => none
      pure (.done s (errc e) n src bs)
  | _ => none

/-- Membership call as the monitor sees it; `none` = the group or source argument does not parse. -/
def mop? (cmd : String) (g : String) (src : Option String) : Option MOp :=
  if !(g.startsWith "g") then none else do
  let gi ← ip? g
  match cmd, src with
  | "join", none => some (.join gi)
  | "join", some s => (ip? s).map (.joinSrc gi)
  | "leave", none => some (.leave gi)
  | "leave", some s => (ip? s).map (.leaveSrc gi)
  | "block", some s => (ip? s).map (.block gi)
  | "unblock", some s => (ip? s).map (.unblock gi)
  | _, _ => none

/-- What the driver remembers to resolve `to=s<j>` and to number buffers like the harness does. -/
structure PState where
  names : List (Nat × Addr) := []
  nbuf  : Nat := 0

def loIp : Ip := 2130706433

def respKind (resp : List Driver.Line) : String :=
  match resp.find? (·.kind == '<') with
  | some l => l.toks.headD ""
  | none => ""

/-- The monitor events of one operation (`cmd` = tokens of the `!` line, `resp` = the lines that followed). -/
def evsOf (ps : PState) (cmd : List String) (resp : List Driver.Line) : Option (List Ev × PState) :=
  let out (p : String) : Option (List String) := (resp.find? fun l => l.kind == '<' && l.toks.head? == some p).map (·.toks)
  let env (p : String) : Option (List String) := (resp.find? fun l => l.kind == '?' && l.toks.head? == some p).map (·.toks)
  let rk := respKind resp
  if rk == "skipped" then some ([.skipped], ps) else
  match cmd with
  | [kind, s, _] =>
    if kind == "pc" || kind == "peer" || kind == "raw" then do
      let s ← nat? s
      let sock ← out "sock"
      let api ← (Driver.attr? sock "api").bind addr?
      let kern ← (env "kern").bind kern?
      let ps := { ps with names := (s, kern.name) :: ps.names }
      if kind == "peer" then
        let g ← (out "get").bind getters?
        pure ([.opened s api kern, .getters s g kern], ps)
      else pure ([.opened s api kern], ps)
    else if kind == "setloop" || kind == "setttl" || kind == "setout" then do
      let s ← nat? s
      let e ← (out "err").bind (·[1]?)
      let g ← (out "get").bind getters?
      let kern ← (env "kern").bind kern?
      let which : Setter := if kind == "setloop" then .loop else if kind == "setttl" then .ttl else .out
      pure ([.setter s which (errc e), .getters s g kern], ps)
    else if kind == "read" || kind == "setbuf" then do
      let sn ← nat? s
      let len ← cmd[2]?.bind nat?
      let buf := ps.nbuf
      let ps := { ps with nbuf := ps.nbuf + 1 }
      if kind == "setbuf" then (if rk == "ok" then pure ([.setBuf sn buf len], ps) else none)
      else if rk == "pending" then pure ([.readStart sn buf len, .readPending sn], ps)
      else if rk == "none" then pure ([.readStart sn buf len, .readNone sn], ps)
      else do
        let d ← (out "done").bind done?
        pure ([.readStart sn buf len, d], ps)
    else if kind == "send" then sendEv ps cmd env out
    else membEv ps cmd out
  | ["get", s] => do
      let s ← nat? s
      let g ← (out "get").bind getters?
      let kern ← (env "kern").bind kern?
      pure ([.getters s g kern], ps)
  | ["break", _] | ["mend", _] => if rk == "ok" then some ([.nop], ps) else none
  | ["close", s] => do if rk == "ok" then pure ([.closed (← nat? s)], ps) else none
  | ["poll"] => do
      let ds ← (resp.filter fun l => l.kind == '<' && l.toks.head? == some "done").mapM fun l => done? l.toks
      if rk == "polled" || (out "polled").isSome then pure (ds ++ [.polled], ps) else none
  | "read" :: s :: len :: _ => do       -- `read s len all`
      let sn ← nat? s
      let len ← nat? len
      let buf := ps.nbuf
      let ps := { ps with nbuf := ps.nbuf + 1 }
      if rk == "pending" then pure ([.readStart sn buf len, .readPending sn], ps)
      else if rk == "none" then pure ([.readStart sn buf len, .readNone sn], ps)
      else do
        let d ← (out "done").bind done?
        pure ([.readStart sn buf len, d], ps)
  | "send" :: _ => sendEv ps cmd env out
  | _ => membEv ps cmd out
where
  sendEv (ps : PState) (cmd : List String) (env out : String → Option (List String)) : Option (List Ev × PState) := do
    let s ← cmd[1]?.bind nat?
    let to ← Driver.attr? cmd "to"
    let data ← (Driver.attr? cmd "data").bind data?
    let dst ← if to.startsWith "g" then (ip? to).map fun g => ({ ip := g, port := 1 } : Addr)
              else do
                let j ← nat? (to.drop 1).toString
                let a ← ps.names.lookup j
                pure { a with ip := if a.ip == 0 then loIp else a.ip }
    let src ← (env "src").bind (·[1]?) |>.bind addr?
    let wr ← out "wrote"
    let e ← wr[1]?
    let n ← wr[2]?.bind nat?
    let arr ← (env "arrived").bind (·[1]?)
    let arrived ← if arr == "-" then pure [] else (arr.splitOn ",").mapM nat?
    -- a write that failed without an errno behind the error was refused by the library (the kernel was not asked)
    pure ([.sent s dst data (if e == "other" then .refused else errc e) n src arrived], ps)
  membEv (ps : PState) (cmd : List String) (out : String → Option (List String)) : Option (List Ev × PState) :=
    match cmd with
    | c :: s :: g :: rest =>
      if c == "join" || c == "leave" || c == "block" || c == "unblock" then do
        let s ← nat? s
        let e ← (out "err").bind (·[1]?)
        let src : Option String := if c == "block" || c == "unblock" then rest.head? else Driver.attr? rest "src"
        pure ([.memb s (mop? c g src) (errc e)], ps)
      else none
    | _ => none

def showEv : Ev → String
  | .opened s a k => s!"opened {s} api={a.ip}:{a.port} kernel(loop={k.loop} ttl={k.ttl} if={k.mcIf} all={k.all} name={k.name.ip}:{k.name.port})"
  | .getters s a k => s!"getters {s} api(loop={a.loop} ttl={a.ttl} outif={a.outIf} outip={a.outIp} local={a.localAddr.ip}:{a.localAddr.port}) kernel(loop={k.loop} ttl={k.ttl} if={k.mcIf} all={k.all} name={k.name.ip}:{k.name.port})"
  | .setter s _ _ => s!"setter {s}"
  | .memb s _ e => s!"membership call on {s} -> {repr e}"
  | .sent s dst data e n src arrived => s!"sent by {s} to {dst.ip}:{dst.port} len={data.length} err={repr e} n={n} src={src.ip}:{src.port} arrived={arrived}"
  | .readStart s b l => s!"read {s} buf={b} len={l}"
  | .setBuf s b l => s!"setbuf {s} buf={b} len={l}"
  | .readPending s => s!"read {s} pending"
  | .readNone s => s!"read {s} none"
  | .done s e n src bufs => s!"done {s} err={repr e} n={n} from={src.map fun a => (a.ip, a.port)} bufs={bufs.map fun b => (b.1, b.2.length)}"
  | .polled => "polled"
  | .closed s => s!"closed {s}"
  | .nop => "nop"
  | .skipped => "skipped"

/-- Group the lines of a script into operations: the `!` line and everything up to the next one. -/
def groupOps (lines : Array Driver.Line) : List (Nat × Driver.Line × List Driver.Line) := Id.run do
  let mut out : List (Nat × Driver.Line × List Driver.Line) := []
  let mut cur : Option (Nat × Driver.Line) := none
  let mut resp : List Driver.Line := []
  let mut i := 0
  for ln in lines do
    i := i + 1
    if ln.kind == '!' then
      if let some (k, l) := cur then out := (k, l, resp.reverse) :: out
      cur := some (i, ln); resp := []
    else resp := ln :: resp
  if let some (k, l) := cur then out := (k, l, resp.reverse) :: out
  return out.reverse

/-- Replay a script against the monitor; `mstep` lets the model acceptor follow along with the same events. -/
def checkWith {σ : Type} (sc : Driver.Script) (m0 : σ)
    (mstep : σ → List String → List Ev → Driver.Result → Nat → (σ × Driver.Result)) : Driver.Result := Id.run do
  let mut res : Driver.Result := {}
  let mut m : σ := m0
  let mut st : Option S := some init
  let mut ps : PState := {}
  for (i, cmd, resp) in groupOps sc.lines do
    res := { res with ops := res.ops + 1 }
    if resp.any fun l => l.kind == '?' && (l.toks.head? == some "setup-failed" || l.toks.head? == some "barrier-timeout" || l.toks.head? == some "overflow") then
      res := { res with envBad := res.envBad <|> some (i, s!"harness environment: {resp.map (·.raw)}") }
      break
    if resp.any fun l => l.kind == '<' && l.toks.head? == some "panic" then
      res := { res with specFail := res.specFail <|> some (i, s!"key=mcast.panic op=[{cmd.raw}] the library panicked") }
      break
    match evsOf ps cmd.toks resp with
    | none =>
      res := { res with modelDiff := res.modelDiff <|> some (i, s!"op=[{cmd.raw}] unexpected answer {resp.map (·.raw)}") }
      break
    | some (evs, ps') =>
      ps := ps'
      let (m', res') := mstep m cmd.toks evs res i
      m := m'; res := res'
      for ev in evs do
        match st with
        | none => pure ()
        | some s =>
          match step s ev with
          | .ok s' => st := some s'
          | .error key =>
            res := { res with specFail := res.specFail <|> some (i, s!"key=mcast.{key} op=[{cmd.raw}] event=[{showEv ev}] rejected by the datagram monitor") }
            st := none
  -- the tolerated deviation (known finding) is reported only when nothing else is wrong with the script
  if res.specFail.isNone && res.modelDiff.isNone && res.envBad.isNone then
    if let some s := st then
      if let some k := s.notes.head? then
        res := { res with specFail := some (1, s!"key=mcast.{k} Loop() differs from IP_MULTICAST_LOOP before the first successful SetLoop ({s.notes.length} getter observations)") }
  return res

def check (sc : Driver.Script) : Driver.Result :=
  checkWith sc () (fun _ _ _ r _ => ((), r))

end Driver.DatagramSpec
