import Driver.Util
import Sonic.Spec.Post

namespace Driver.PostSpec
open Sonic.Spec.Post

def nat? (s : String) : Option Nat := s.toNat?

def parseRan (toks : List String) : Option Ev :=
  match toks with
  | "ran" :: hs :: r =>
    if hs == "hang" then some (.ran [] true false 0 0 0 false) else do
    let items := if hs == "-" then [] else hs.splitOn ","
    let again := items.any (·.endsWith "!again")
    let ids := items.filterMap (fun t => nat? ((t.splitOn "!").headD ""))
    let n ← (Driver.attr? r "n").bind Driver.int?
    let pending ← (Driver.attr? r "pending").bind Driver.int?
    let posted ← (Driver.attr? r "posted").bind Driver.int?
    pure (.ran ids again ((Driver.attr? r "sametid") == some "true") pending posted n ((Driver.attr? r "err") == some "timeout"))
  | _ => none

/-- Replays a `post` trace against the monitor and a model given by `mstep`. The operation line provides poster and
handler of a `post`, the `<` line the observation. -/
def checkWith {σ : Type} (m0 : σ) (mstep : σ → Ev → Option σ) (sc : Driver.Script) : Driver.Result := Id.run do
  let mut res : Driver.Result := {}
  let mut s : Option S := some {}
  let mut m : Option σ := some m0
  let mut pendingOp : List String := []
  let mut i := 0
  for ln in sc.lines do
    i := i + 1
    if ln.kind == '!' then
      pendingOp := ln.toks
      res := { res with ops := res.ops + 1 }
    else if ln.kind == '<' then
      let ev? : Option Ev := match pendingOp, ln.toks with
        | ["nest", h, h'], _ => do pure (.nest (← nat? h) (← nat? h'))
        | ["post", p, h], "posted" :: r => do
            pure (.posted (← nat? p) (← nat? h) ((Driver.attr? r "err") == some "nil")
                    (← (Driver.attr? r "pending").bind Driver.int?) (← (Driver.attr? r "posted").bind Driver.int?))
        | ["poll"], toks => parseRan toks
        | _, _ => none
      match ev? with
      | none => res := { res with envBad := res.envBad <|> some (i, s!"unparsable: {ln.raw}") }
      | some e =>
        match m with
        | none => pure ()
        | some mw =>
          match mstep mw e with
          | some mw' => m := some mw'
          | none =>
            res := { res with modelDiff := some (i, s!"observation=[{ln.raw}] after [{" ".intercalate pendingOp}] differs from the Post model") }
            m := none
        match s with
        | none => pure ()
        | some st =>
          match e with
          | .ran hs _ _ _ _ _ _ =>
            if hs.length > 1 then res := { res with tags := Driver.addTag res.tags "batch-of-several" }
            if hs.any (fun h => st.nests.any (·.1 == h)) then res := { res with tags := Driver.addTag res.tags "nested-post" }
            if hs.isEmpty then res := { res with tags := Driver.addTag res.tags "idle-poll" }
          | .posted _ _ _ p _ => if p > 1 then res := { res with tags := Driver.addTag res.tags "queue-of-several" }
          | _ => pure ()
          match step st e with
          | .ok st' => s := some st'
          | .error k =>
            res := { res with specFail := some (i, s!"key=post.{k} observation=[{ln.raw}] after [{" ".intercalate pendingOp}] violates the Post monitor (clause {k})") }
            s := none
  return res

def check (sc : Driver.Script) : Driver.Result := checkWith () (fun _ _ => some ()) sc

end Driver.PostSpec
