import Driver.WsHandshakeSpec
import Sonic.Model.WsHandshake

/-! Model acceptor + monitor for `wshandshake` traces (property C18). -/
namespace Driver.WsHandshake
open Sonic.Spec.WsHandshake Sonic.Model.WsHandshake Driver.WsHandshakeSpec

/-- The uninterpreted parameters, instantiated for replay: the accept value is a formal term over the key, and
`http.ReadResponse` answers what the generator built into the head. -/
def paramsFor (p : Plan) : Params :=
  let acceptOf := fun k => "accept(" ++ k ++ ")"
  { acceptOf := acceptOf,
    parse := fun _ => if p.resp.parseOk then
        some { status := p.resp.status, upgrade := p.resp.upgrade, accept := if p.resp.acceptOk then some (acceptOf "key") else some "other" }
      else none,
    grow := fun c => 2 * c + 1 }

def modelHs (s : St) (p : Plan) : St × HsObs := observe (paramsFor p) s "host" "key" p

def tagsOf (p : Plan) (o : HsObs) : List String :=
  (if p.async then ["async"] else ["sync"]) ++
  (if o.err = .nil then ["accepted"] else ["refused-" ++ showErr o.err]) ++
  (if p.cuts.length ≥ 1 then ["segmented"] else []) ++
  (match headEnd (delivered p) with
    | some k => (if p.cuts.any (fun c => c < k) ∧ p.cuts.length ≥ 1 then ["head-split"] else [])
        ++ (if (delivered p).length > k then ["piggy-backed"] else [])
        ++ (if p.closeAt.isSome then ["server-closed-after-head"] else [])
    | none => ["server-closed-in-head"]) ++
  (if p.extra ≠ [] then ["extra-headers"] else []) ++
  (if ¬ p.resp.good ∧ p.resp.parseOk then ["non-conforming"] else []) ++
  (if ¬ p.resp.parseOk then ["malformed"] else [])

def check (sc : Driver.Script) : Driver.Result :=
  checkWith sc (St.new) fun s op ob res i =>
    match op, ob with
    | .new, .st st pend =>
      let s' := St.new
      if st ≠ s'.state ∨ pend ≠ s'.pending then
        (s', { res with modelDiff := res.modelDiff <|> some (i, s!"op=[new] impl=[{showState st} {pend}] model=[{showState s'.state} {s'.pending}]") })
      else (s', res)
    | .stale, .st st pend =>
      -- VerifAttach + one NextFrame that reads a ping: active, one pong queued, the ping still in the read buffer
      let s' : St := { St.new with state := .active, stream := true, codecAttached := true, conn := false, pending := 1, src := [0x2a] }
      if st ≠ s'.state ∨ pend ≠ s'.pending then
        (s', { res with modelDiff := res.modelDiff <|> some (i, s!"op=[stale] impl=[{showState st} {pend}] model=[{showState s'.state} {s'.pending}]") })
      else (s', { res with tags := Driver.addTag res.tags "stale-session" })
    | .hs p, .hs o =>
      let (s', mo) := modelHs s p
      -- after a successful handshake the harness closes the connection (CloseNextLayer) before the next operation
      let s'' := if mo.err = .nil then { s' with conn := false } else s'
      if mo ≠ o then
        (s'', { res with modelDiff := res.modelDiff <|> some (i, s!"op=[hs] impl=[{showHsObs o}] model=[{showHsObs mo}]") })
      else (s'', { res with tags := (tagsOf p o).foldl Driver.addTag res.tags })
    | _, _ => (s, res)

end Driver.WsHandshake
