import Driver.Util
import Sonic.Spec.ByteBuffer

/-! Spec-only acceptor for `bytebuffer` traces (property monitor of C09; depends on no model).

Trace, per call:  `! <op> <args…>`   then  `? cap=<n>`  (capacity after the call; environment)
then  `< <ret…> ; saved=<hex> data=<hex> pend=<hex> len=<n> cap=<n> rsv=<n>`  (or `; nodump`, or
`< panic`, or `< panic ; saved=…` for a `reserve`).  A script starts with `! new`. -/
namespace Driver.ByteBufferSpec
open Sonic.Spec.ByteBuffer

def hexVal (c : Char) : Option Nat :=
  if '0' ≤ c ∧ c ≤ '9' then some (c.toNat - '0'.toNat)
  else if 'a' ≤ c ∧ c ≤ 'f' then some (c.toNat - 'a'.toNat + 10) else none

def hexList : List Char → Option (List UInt8)
  | [] => some []
  | a :: b :: r => do
      let x ← hexVal a; let y ← hexVal b; let t ← hexList r
      pure (UInt8.ofNat (x * 16 + y) :: t)
  | _ => none

def parseHex (s : String) : Option (List UInt8) := if s = "-" then some [] else hexList s.toList

def hexDigit (n : Nat) : Char := if n < 10 then Char.ofNat (48 + n) else Char.ofNat (87 + n)
def showHex (l : List UInt8) : String :=
  if l.isEmpty then "-" else String.ofList (l.flatMap fun b => [hexDigit (b.toNat / 16), hexDigit (b.toNat % 16)])

def parseErr : String → Option Err
  | "nil" => some .nil | "eof" => some .eof | "needmore" => some .needMore | "other" => some .other | _ => none
def showErr : Err → String
  | .nil => "nil" | .eof => "eof" | .needMore => "needmore" | .other => "other"

def nat? (s : String) : Option Nat := s.toNat?
def byte? (s : String) : Option UInt8 := do
  let l ← parseHex s
  match l with | [x] => some x | _ => none

/-- `n:f,n:f,…` (f = 1 ⇒ the writer fails) or `-`. -/
def parseResps (s : String) : Option (List (Nat × Bool)) :=
  if s = "-" then some [] else
  (s.splitOn ",").mapM fun t =>
    match t.splitOn ":" with
    | [n, f] => do let n ← nat? n; pure (n, f == "1")
    | _ => none

def showResps (l : List (Nat × Bool)) : String :=
  if l.isEmpty then "-" else ",".intercalate (l.map fun (n, f) => s!"{n}:{if f then 1 else 0}")

def parseOp : List String → Option Op
  | ["reserve", n] => (int? n).map .reserve
  | ["commit", n] => (int? n).map .commit
  | ["consume", n] => (int? n).map .consume
  | ["save", n] => (int? n).map .save
  | ["discard", i, l] => do let i ← int? i; let l ← int? l; pure (.discard i l)
  | ["discardall"] => some .discardAll
  | ["savedslot", i, l] => do let i ← int? i; let l ← int? l; pure (.savedSlot i l)
  | ["reset"] => some .reset
  | ["read", n] => (nat? n).map .read
  | ["readbyte"] => some .readByte
  | ["readfrom", n, seed, e] => do let n ← nat? n; let s ← byte? seed; let e ← parseErr e; pure (.readFrom n s e)
  | ["unreadbyte"] => some .unreadByte
  | ["write", h] => (parseHex h).map .write
  | ["writebyte", h] => (byte? h).map .writeByte
  | ["writestring", h] => (parseHex h).map .writeString
  | ["writeto", r] => (parseResps r).map .writeTo
  -- Prefault() on a buffer with nothing buffered (the harness makes the call only then): no change to the three regions
  | ["prefault"] => some (.reserve 0)
  | ["prepareread", n] => (int? n).map .prepareRead
  | ["claim", r, seed] => do let r ← int? r; let s ← byte? seed; pure (.claim r s)
  | ["claimfixed", n, seed] => do let n ← int? n; let s ← byte? seed; pure (.claimFixed n s)
  | ["shrinkby", n] => (int? n).map .shrinkBy
  | ["shrinkto", n] => (int? n).map .shrinkTo
  | _ => none

def opName : Op → String
  | .reserve _ => "reserve" | .commit _ => "commit" | .consume _ => "consume" | .save _ => "save"
  | .discard _ _ => "discard" | .discardAll => "discardall" | .savedSlot _ _ => "savedslot" | .reset => "reset"
  | .read _ => "read" | .readByte => "readbyte" | .readFrom _ _ _ => "readfrom" | .unreadByte => "unreadbyte"
  | .write _ => "write" | .writeByte _ => "writebyte" | .writeString _ => "writestring" | .writeTo _ => "writeto"
  | .prepareRead _ => "prepareread" | .claim _ _ => "claim" | .claimFixed _ _ => "claimfixed"
  | .shrinkBy _ => "shrinkby" | .shrinkTo _ => "shrinkto"

def showOp : Op → String
  | .reserve n => s!"reserve {n}" | .commit n => s!"commit {n}" | .consume n => s!"consume {n}" | .save n => s!"save {n}"
  | .discard i l => s!"discard {i} {l}" | .discardAll => "discardall" | .savedSlot i l => s!"savedslot {i} {l}"
  | .reset => "reset" | .read n => s!"read {n}" | .readByte => "readbyte"
  | .readFrom n s e => s!"readfrom {n} {showHex [s]} {showErr e}" | .unreadByte => "unreadbyte"
  | .write b => s!"write {showHex b}" | .writeByte x => s!"writebyte {showHex [x]}" | .writeString b => s!"writestring {showHex b}"
  | .writeTo r => s!"writeto {showResps r}" | .prepareRead n => s!"prepareread {n}"
  | .claim r s => s!"claim {r} {showHex [s]}" | .claimFixed n s => s!"claimfixed {n} {showHex [s]}"
  | .shrinkBy n => s!"shrinkby {n}" | .shrinkTo n => s!"shrinkto {n}"

def parseRet : List String → Option Ret
  | ["unit"] => some .unit
  | ["int", v] => (int? v).map .int
  | ["slot", i, l] => do let i ← int? i; let l ← int? l; pure (.slot i l)
  | ["bytes", "?"] => some (.bytes none)
  | ["bytes", h] => (parseHex h).map fun b => .bytes (some b)
  | ["rd", n, h, e] => do let n ← int? n; let h ← parseHex h; let e ← parseErr e; pure (.rd n h e)
  | ["rb", "-", e] => (parseErr e).map (.rb none)
  | ["rb", h, e] => do let x ← byte? h; let e ← parseErr e; pure (.rb (some x) e)
  | ["nerr", n, e] => do let n ← int? n; let e ← parseErr e; pure (.nerr n e)
  | ["err", e] => (parseErr e).map .err
  | ["wt", n, h, e] => do let n ← int? n; let h ← parseHex h; let e ← parseErr e; pure (.wt n h e)
  | ["claimed", n] => (int? n).map .claimed
  | _ => none

def showRet : Ret → String
  | .unit => "unit" | .int v => s!"int {v}" | .slot i l => s!"slot {i} {l}"
  | .bytes none => "bytes ?" | .bytes (some b) => s!"bytes {showHex b}"
  | .rd n h e => s!"rd {n} {showHex h} {showErr e}"
  | .rb none e => s!"rb - {showErr e}" | .rb (some x) e => s!"rb {showHex [x]} {showErr e}"
  | .nerr n e => s!"nerr {n} {showErr e}" | .err e => s!"err {showErr e}"
  | .wt n h e => s!"wt {n} {showHex h} {showErr e}" | .claimed n => s!"claimed {n}"

def kv (key : String) (tok : String) : Option String :=
  if tok.startsWith (key ++ "=") then some (tok.drop (key.length + 1)).toString else none

def parseDump : List String → Option Dump
  | [a, b, c, d, e, f] => do
      let s ← (kv "saved" a).bind parseHex
      let r ← (kv "data" b).bind parseHex
      let p ← (kv "pend" c).bind parseHex
      let l ← (kv "len" d).bind int?
      let cp ← (kv "cap" e).bind int?
      let rs ← (kv "rsv" f).bind int?
      pure { saved := s, readable := r, pending := p, len := l, cap := cp, reserved := rs }
  | _ => none

def showDump : Option Dump → String
  | none => "nodump"
  | some d => s!"saved={showHex d.saved} data={showHex d.readable} pend={showHex d.pending} len={d.len} cap={d.cap} rsv={d.reserved}"

/-- Split the tokens of a `<` line at `;`. -/
def parseObs (toks : List String) : Option Obs :=
  let (a, b) := toks.span (· ≠ ";")
  let b := b.drop 1
  let ret? : Option (Option Ret) := if a = ["panic"] then some none else (parseRet a).map some
  let dump? : Option (Option Dump) :=
    if b = [] ∨ b = ["nodump"] then some none else (parseDump b).map some
  match ret?, dump? with
  | some r, some d => some { ret := r, dump := d }
  | _, _ => none

def showObs (o : Obs) : String :=
  (match o.ret with | none => "panic" | some r => showRet r) ++ " ; " ++ showDump o.dump

def showS (s : S) : String :=
  s!"saved={showHex s.saved} readable={showHex s.readable} pending={showHex s.pending} cap={s.cap} void={s.void}"

/-- The key names the shape of the failure: component, call, and whether it was a panic. -/
def failKey (op : Op) (ob : Obs) : String :=
  "bytebuffer." ++ opName op ++ (if ob.ret.isNone then ".panic" else if ob.dump.isNone then ".readback-panic" else "")

def allocLimitKey : String := "bytebuffer.reserve.alloc-limit"

def isAllocLimit (d : String) : Bool := (d.splitOn allocLimitKey).length > 1

/-- Replay a script against the monitor; `mstep` lets the model acceptor follow along
(it receives the operation, the reported capacity and the implementation's observation). -/
def checkWith {σ : Type} (sc : Driver.Script) (m0 : Int → σ)
    (mstep : σ → Op → Int → Obs → Driver.Result → Nat → (σ × Driver.Result)) : Driver.Result := Id.run do
  let mut res : Driver.Result := {}
  let mut m : σ := m0 0
  let mut s : Option S := none
  let mut pending : Option Op := none
  let mut isNew := false
  let mut envCap : Option Int := none
  let mut i := 0
  for ln in sc.lines do
    i := i + 1
    if ln.kind == '!' then
      envCap := none
      match ln.toks with
      | ["new"] => isNew := true; pending := none
      | toks =>
        isNew := false
        match parseOp toks with
        | some op => pending := some op; res := { res with ops := res.ops + 1 }
        | none =>
          pending := none
          res := { res with envBad := res.envBad <|> some (i, s!"unparsable operation: {ln.raw}") }
    else if ln.kind == '?' then
      match ln.toks with
      | [t] => match (kv "cap" t).bind int? with
          | some c => envCap := some c
          | none => res := { res with envBad := res.envBad <|> some (i, s!"unparsable environment line: {ln.raw}") }
      | _ => res := { res with envBad := res.envBad <|> some (i, s!"unparsable environment line: {ln.raw}") }
    else if ln.kind == '<' then
      match parseObs ln.toks with
      | none => res := { res with envBad := res.envBad <|> some (i, s!"unparsable observation: {ln.raw}") }
      | some ob =>
        if isNew then
          isNew := false
          match ob.dump with
          | some d =>
            m := m0 d.cap
            let s0 := init d.cap
            if ob.ret = some .unit ∧ DumpOk s0 d then s := some s0
            else
              res := { res with specFail := some (i, s!"key=bytebuffer.new a new buffer is not empty: obs=[{showObs ob}]") }
              s := none
          | none =>
            res := { res with specFail := some (i, s!"key=bytebuffer.new.panic obs=[{showObs ob}]") }
            s := none
        else match pending with
        | none => pure ()
        | some op =>
          pending := none
          let c := envCap.getD (match ob.dump with | some d => d.cap | none => 0)
          let (m', res') := mstep m op c ob res i
          m := m'; res := res'
          match s with
          | none => pure ()
          | some st =>
            match step st op ob with
            | some st' =>
              if ob.ret.isNone && !st.void && opName op == "reserve" then
                -- the exempted panic of an un-allocatable Reserve: recorded as a (known) finding, monitoring goes on
                if res.specFail.isNone then
                  res := { res with specFail := some (i, s!"key={allocLimitKey} op=[{showOp op}] panics in append (growth beyond the allocator's limit); the buffer reads back unchanged") }
              if st'.void && !st.void then res := { res with tags := Driver.addTag res.tags "spec-void" }
              s := some st'
            | none =>
              let keep : Bool := match res.specFail with | some (_, d) => !(isAllocLimit d) | none => false
              if !keep then
                res := { res with specFail := some (i, s!"key={failKey op ob} op=[{showOp op}] obs=[{showObs ob}] rejected by the three-list monitor; state before: {showS st}; expected: {match eff st op with | some (s', r) => showRet r ++ " -> " ++ showS s' | none => "(outside the property)"}") }
              s := none
  return res

def check (sc : Driver.Script) : Driver.Result :=
  checkWith sc (fun _ => ()) (fun _ _ _ _ r _ => ((), r))

end Driver.ByteBufferSpec
