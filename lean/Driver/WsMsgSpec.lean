import Driver.Util
import Driver.WsStreamSpec
import Sonic.Spec.WsMessages

/-! Spec-only acceptor for the harness component `wsmsg` (C06): trace parsing and the message-delivery monitor. Imports no
model; `Driver/WsMsg.lean` plugs the composed model in through `Hook`. -/
namespace Driver.WsMsgSpec
open Sonic.Spec.WsMessages
open Sonic.Spec.WsStream (Err InFrame)
open Driver.WsStreamSpec (hex? nat? kv err? inFrame? ctl? showErr showIn showHex showCtl async?)

/-- `f:<hex>` / `p:<hex>` / `q:<hex>` -/
inductive Item where
  | frag (p : Bytes)
  | ctl (c : Ctl)

def item? (t : String) : Option Item :=
  let body := (t.drop 2).toString
  if t.startsWith "f:" then (hex? body).map .frag
  else if t.startsWith "p:" then (hex? body).map fun p => .ctl ⟨9, p⟩
  else if t.startsWith "q:" then (hex? body).map fun p => .ctl ⟨10, p⟩
  else none

/-- Group the items into fragments, each with the control frames in front of it; the rest = trailing control frames. -/
def group : List Item → List Ctl → List (List Ctl × Bytes) → List (List Ctl × Bytes) × List Ctl
  | [], cs, acc => (acc.reverse, cs.reverse)
  | .ctl c :: r, cs, acc => group r (c :: cs) acc
  | .frag p :: r, cs, acc => group r [] ((cs.reverse, p) :: acc)

def parseOp : List String → Option Op
  | ["new", m, b] => do pure (.new (← nat? m) (← nat? b))
  -- flags: utf8 = ValidateUTF8(true), bump = the maximum is raised while an asynchronous read waits: no effect on what a
  -- conforming peer's messages (all within the original maximum) are delivered as
  | "new" :: m :: b :: _flags => do pure (.new (← nat? m) (← nat? b))
  | "msg" :: ty :: items => do
      let its ← items.mapM item?
      let (parts, trailing) := group its [] []
      if trailing.isEmpty then pure (.msg { ty := ← nat? ty, parts := parts }) else none
  | "tail" :: items => do
      let its ← items.mapM item?
      let (parts, trailing) := group its [] []
      if parts.isEmpty then pure (.tail trailing) else none
  | ["cut", n] => do pure (.cut (← nat? n))
  | ["encode"] => some .encode
  | ["read", api, mode] => do
      pure (.read (← if api == "frame" then some Api.frame else if api == "msg" then some Api.msg else none) (← async? mode) none)
  | ["read", api, mode, pre] => do
      pure (.read (← if api == "frame" then some Api.frame else if api == "msg" then some Api.msg else none) (← async? mode)
        (some (← nat? pre)))
  | _ => none

/-- One `<` line. -/
inductive OutLine where
  | ok
  | wire (bs : Bytes)
  | frame (o : FrameOut)
  | msg (o : MsgOut)
  | panic

def parseOut : List String → Option OutLine
  | ["ok"] => some .ok
  | ["panic"] => some .panic
  | "hang" :: _ => some .panic
  | ["wire", h] => (hex? h).map .wire
  | ["frame", e, f] => do pure (.frame { err := ← err? (← kv "err" e), f := ← inFrame? (← kv "f" f) })
  | ["msg", e, t, n, d, tail, c] => do
      pure (.msg { err := ← err? (← kv "err" e), ty := ← nat? (← kv "type" t), n := ← nat? (← kv "n" n), data := ← hex? (← kv "data" d),
                   clean := (← kv "tail" tail) == "clean", ctl := ← ctl? (← kv "ctl" c) })
  | _ => none

def showFrameOut (o : FrameOut) : String := s!"frame err={showErr o.err} f={showIn o.f}"

def clip (b : Bytes) : String := if b.length ≤ 24 then showHex b else s!"{showHex (b.take 24)}…({b.length})"

def showMsgOut (o : MsgOut) : String :=
  s!"msg err={showErr o.err} type={o.ty} n={o.n} data={clip o.data} tail={if o.clean then "clean" else "dirty"} ctl={showCtl (o.ctl.map fun c => (c.1, c.2.take 8))}"

def showObs : Obs → String
  | .ok => "ok"
  | .panic => "panic"
  | .wire b => s!"wire {clip b}"
  | .frames l => " | ".intercalate (l.map fun o => s!"frame err={showErr o.err} f={match o.f with | none => "nil" | some f => s!"{if f.fin then 1 else 0}:{f.rsv}:{f.op}:{if f.masked then 1 else 0}:{clip f.payload}"}")
  | .msgs l => " | ".intercalate (l.map showMsgOut)

/-- An operation with everything the implementation printed for it. -/
structure OpRec where
  op : Op
  raw : String
  line : Nat                     -- index of the last line of the operation
  obs : Obs
  rds : List (Int × Nat)         -- transport reads logged during the operation: (room offered, bytes returned)

structure Hook (σ : Type) where
  init : σ
  step : σ → OpRec → Driver.Result → σ × Driver.Result

structure Pending where
  op : Op
  raw : String
  outs : Array OutLine := #[]
  rds : Array (Int × Nat) := #[]
  last : Nat

def obsOf (p : Pending) : Option Obs :=
  if p.outs.any (fun o => match o with | .panic => true | _ => false) then some .panic
  else match p.op with
  | .read .frame _ _ =>
      (p.outs.toList.mapM fun (o : OutLine) => match o with | .frame x => some x | _ => none).map .frames
  | .read .msg _ _ =>
      (p.outs.toList.mapM fun (o : OutLine) => match o with | .msg x => some x | _ => none).map .msgs
  | _ => match p.outs.toList with
    | [.ok] => some .ok
    | [.wire b] => some (.wire b)
    | _ => none

def checkWith {σ : Type} (hook : Option (Hook σ)) (sc : Driver.Script) : Driver.Result := Id.run do
  let mut res : Driver.Result := {}
  let mut m : Option σ := hook.map (·.init)
  let mut s : Option S := some init
  let mut pend : Option Pending := none
  let mut i := 0
  -- a sentinel line closes the last operation
  for ln in sc.lines.push { kind := '!', toks := ["end"], raw := "! end" } do
    i := i + 1
    if ln.kind == '!' then
      if let some p := pend then
        match obsOf p with
        | none => res := { res with envBad := res.envBad <|> some (p.last, s!"unexpected result lines for [{p.raw.take 60}]") }
        | some ob =>
          let rec_ : OpRec := { op := p.op, raw := p.raw, line := p.last, obs := ob, rds := p.rds.toList }
          if let (some h, some ms) := (hook, m) then
            let (m', res') := h.step ms rec_ res
            m := some m'; res := res'
          if let some st := s then
            match step st p.op ob with
            | some st' => s := some st'
            | none =>
              res := { res with specFail := res.specFail <|> some (p.last,
                s!"key=wsmsg.{explain st p.op ob} op=[{p.raw.take 60}] obs=[{showObs ob}] rejected by the C06 monitor (max={st.max} buf={st.buf} messages={st.sess.msgs.length} frames={st.sess.frames.length})") }
              s := none
        pend := none
      if ln.toks != ["end"] then
        match parseOp ln.toks with
        | some op => pend := some { op := op, raw := ln.raw, last := i }; res := { res with ops := res.ops + 1 }
        | none => res := { res with envBad := res.envBad <|> some (i, s!"unparsable operation: {ln.raw.take 80}") }
    else if ln.kind == '?' then
      match ln.toks, pend with
      | ["rd", room, n], some p =>
        match Driver.int? room, nat? n with
        | some r, some k => pend := some { p with rds := p.rds.push (r, k), last := i }
        | _, _ => res := { res with envBad := res.envBad <|> some (i, s!"unparsable environment line: {ln.raw.take 80}") }
      | _, _ => res := { res with envBad := res.envBad <|> some (i, s!"unknown environment line: {ln.raw.take 80}") }
    else if ln.kind == '<' then
      match parseOut ln.toks, pend with
      | some o, some p => pend := some { p with outs := p.outs.push o, last := i }
      | none, _ => res := { res with envBad := res.envBad <|> some (i, s!"unparsable result line: {ln.raw.take 80}") }
      | _, none => pure ()
  return res

def check (sc : Driver.Script) : Driver.Result := checkWith (σ := Unit) none sc

end Driver.WsMsgSpec
