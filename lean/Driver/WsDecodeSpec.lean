import Driver.Util
import Sonic.Spec.WsFrame

/-! Spec-only acceptor for the harness component `wsdecode` (C07): trace parsing and the RFC 6455 monitor. Imports no
model; `Driver/WsDecode.lean` plugs the model in through `Hook`. -/
namespace Driver.WsDecodeSpec
open Sonic.Spec.WsFrame

def hexVal (c : Char) : Option Nat :=
  if '0' ≤ c ∧ c ≤ '9' then some (c.toNat - '0'.toNat)
  else if 'a' ≤ c ∧ c ≤ 'f' then some (c.toNat - 'a'.toNat + 10)
  else none

def unhexAux : List Char → List UInt8 → Option (List UInt8)
  | [], acc => some acc.reverse
  | [_], _ => none
  | a :: b :: r, acc => do
    let x ← hexVal a
    let y ← hexVal b
    unhexAux r (UInt8.ofNat (x * 16 + y) :: acc)

def unhex (s : String) : Option (List UInt8) :=
  if s = "-" then some [] else unhexAux s.toList []

def hexDigit (n : Nat) : Char := if n < 10 then Char.ofNat (48 + n) else Char.ofNat (87 + n)

def hex (l : List UInt8) : String :=
  if l.isEmpty then "-" else
  String.ofList (l.foldr (fun b acc => hexDigit (b.toNat / 16) :: hexDigit (b.toNat % 16) :: acc) [])

def bool? (s : String) : Option Bool := if s = "1" then some true else if s = "0" then some false else none

/-- A parsed script operation. -/
inductive SOp where
  | new (max reserve : Int)
  | feed (bs : List UInt8)
  | read (bs : List UInt8)
  | decode
  | commit (n : Int)                      -- src.Commit(n) by the caller
  | encfeed (f : Frame) (opcode : Nat)    -- opcode as given to SetOpcode (0..255)

def parseOp : List String → Option SOp
  | ["new", m, r] => do pure (.new (← int? m) (← int? r))
  | ["feed", h] => (unhex h).map .feed
  | ["read", h] => (unhex h).map .read
  | ["decode"] => some .decode
  | ["commit", n] => (int? n).map .commit
  | ["encfeed", fin, r1, r2, r3, op, m, mask, p] => do
      let op ← op.toNat?
      let masked ← bool? m
      let mask ← if masked then unhex mask else some []
      pure (.encfeed { fin := ← bool? fin, rsv1 := ← bool? r1, rsv2 := ← bool? r2, rsv3 := ← bool? r3, opcode := op % 16,
                       masked := masked, mask := mask, payload := ← unhex p } op)
  | _ => none

structure Lens where
  save : Int
  read : Int
  write : Int
  reserved : Int
  deriving DecidableEq

inductive Out where
  | out (o : Outcome)
  | wire (bs : List UInt8)
  deriving DecidableEq

def parseLens : List String → Option Lens
  | ["buf", a, b, c, d] => do pure ⟨← int? a, ← int? b, ← int? c, ← int? d⟩
  | _ => none

/-- `<` line → (outcome, region lengths). -/
def parseObs : List String → Option (Out × Option Lens)
  | ["panic"] => some (.out .panic, none)
  | "ok" :: r => do pure (.out .ok, ← parseLens r)
  | "n" :: k :: r => do pure (.out (.took (← k.toNat?)), ← parseLens r)
  | "needmore" :: r => do pure (.out .needMore, ← parseLens r)
  | "err" :: "toobig" :: r => do pure (.out .tooBig, ← parseLens r)
  | "err" :: _ :: r => do pure (.out .other, (parseLens r))
  | "wire" :: h :: r => do pure (.wire (← unhex h), ← parseLens r)
  | "frame" :: fin :: r1 :: r2 :: r3 :: op :: m :: mask :: len :: p :: r => do
      let f : Frame := { fin := ← bool? fin, rsv1 := ← bool? r1, rsv2 := ← bool? r2, rsv3 := ← bool? r3, opcode := ← op.toNat?,
                         masked := ← bool? m, mask := ← unhex mask, payload := ← unhex p }
      pure (.out (.frame f (← len.toNat?)), ← parseLens r)
  | _ => none

def showOutcome : Outcome → String
  | .ok => "ok" | .took n => s!"n {n}" | .needMore => "needmore" | .tooBig => "err toobig" | .panic => "panic" | .other => "err other"
  | .frame f size => s!"frame fin={f.fin} rsv={f.rsv1},{f.rsv2},{f.rsv3} op={f.opcode} masked={f.masked} mask={hex f.mask} len={size} payload={hex (f.payload.take 24)}{if f.payload.length > 24 then "…" else ""}({f.payload.length})"

def showOut : Out → String
  | .out o => showOutcome o
  | .wire bs => s!"wire {hex (bs.take 32)}({bs.length})"

def showLens (l : Lens) : String := s!"buf {l.save} {l.read} {l.write} {l.reserved}"

/-- What a model acceptor plugs into the script loop: its state and a step that follows one operation (with the
capacity reported by the environment and what the implementation printed) and records divergences. `none` = the
model stopped following (after the first divergence). -/
structure Hook (σ : Type) where
  init : σ
  step : σ → SOp → Int → Out → Option Lens → Nat → Driver.Result → Option σ × Driver.Result

/-! ### Monitor side -/

structure SpecState where
  s : S
  /-- `decode ∘ encode`: frames the library's encoder produced whose bytes are still ahead of the decoder,
  with the number of fed bytes that precede each. -/
  expect : List (Nat × Frame) := []
  fed : Nat := 0          -- bytes given to the decoder so far
  consumed : Nat := 0     -- bytes of yielded frames

def sstep (st : SpecState) (op : SOp) (out : Out) (l : Lens) : Except String SpecState :=
  let len := l.save + l.read + l.write
  let run (sop : Op) (o : Outcome) (k : S → SpecState) : Except String SpecState :=
    match step st.s sop ⟨o, len, l.reserved⟩ with
    | some s' => .ok (k s')
    | none => .error (explain st.s sop ⟨o, len, l.reserved⟩)
  match op, out with
  | .new max _, .out .ok => .ok { s := init max }
  | .feed bs, .out o => run (.feed bs) o fun s' => { st with s := s', fed := st.fed + bs.length }
  | .commit _, .out o => run (.feed []) o fun s' => { st with s := s' }
  | .read bs, .out o => run (.read bs) o fun s' => { st with s := s', fed := st.fed + (match o with | .took n => n | _ => 0) }
  | .encfeed f _, .wire w =>
      match step st.s (.feed w) ⟨.ok, len, l.reserved⟩ with
      | some s' => .ok { st with s := s', fed := st.fed + w.length, expect := st.expect ++ [(st.fed, f)] }
      | none => .error (explain st.s (.feed w) ⟨.ok, len, l.reserved⟩)
  | .decode, .out o =>
      match step st.s .decode ⟨o, len, l.reserved⟩ with
      | none => .error (explain st.s .decode ⟨o, len, l.reserved⟩)
      | some s' =>
        match o with
        | .frame f size =>
          -- the frame that starts where an encoder output starts must be the frame that was encoded
          let here := st.consumed
          let expect := st.expect.filter (fun e => e.1 > here)
          match st.expect.find? (fun e => e.1 = here) with
          | some (_, g) =>
            if g = f then .ok { st with s := s', consumed := here + size, expect := expect }
            else .error "key=wsdecode.decode-encode decoding the encoder's output returned a different frame"
          | none => .ok { st with s := s', consumed := here + size, expect := expect }
        | _ => .ok { st with s := s' }
  | _, .out .panic => .error "key=wsdecode.panic the call panicked"
  | _, _ => .error "key=wsdecode.outcome unexpected kind of result for this operation"

/-! ### Script loop -/

def checkWith {σ : Type} (hook : Option (Hook σ)) (sc : Driver.Script) : Driver.Result := Id.run do
  let mut res : Driver.Result := {}
  let mut m : Option σ := none
  let mut s : Option SpecState := none
  let mut pending : Option SOp := none
  let mut cap : Int := 0
  let mut i := 0
  for ln in sc.lines do
    i := i + 1
    if ln.kind == '!' then
      match parseOp ln.toks with
      | some op =>
        pending := some op; res := { res with ops := res.ops + 1 }
        if let .new _ _ := op then
          m := hook.map (·.init)
          s := some { s := init 0 }
      | none => pending := none; res := { res with envBad := res.envBad <|> some (i, s!"unparsable operation: {ln.raw.take 80}") }
    else if ln.kind == '?' then
      match ln.toks with
      | ["cap", n] => cap := (int? n).getD 0
      | _ => res := { res with envBad := res.envBad <|> some (i, s!"unknown environment line: {ln.raw.take 80}") }
    else if ln.kind == '<' then
      match pending, parseObs ln.toks with
      | some op, some (out, lens) =>
        pending := none
        -- model
        if let (some h, some ms) := (hook, m) then
          let (m', res') := h.step ms op cap out lens i res
          m := m'; res := res'
        -- monitor
        if let some st := s then
          match sstep st op out (lens.getD ⟨0, 0, 0, 0⟩) with
          | .ok st' => s := some st'
          | .error d =>
            res := { res with specFail := some (i, s!"{d}; op=[{match op with | .decode => "decode" | .feed _ => "feed" | .read _ => "read" | .new _ _ => "new" | .encfeed _ _ => "encfeed" | .commit _ => "commit"}] obs=[{showOut out}] pending={hex (st.s.pending.take 16)}({st.s.pending.length}) max={st.s.max}") }
            s := none
      | _, none => res := { res with envBad := res.envBad <|> some (i, s!"unparsable result line: {ln.raw.take 80}") }
      | none, _ => pure ()
  return res

def check (sc : Driver.Script) : Driver.Result := checkWith (σ := Unit) none sc

end Driver.WsDecodeSpec
