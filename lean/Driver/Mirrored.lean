import Driver.MirroredSpec
import Sonic.Model.Mirrored

namespace Driver.Mirrored
open Sonic.Spec.Mirrored Sonic.Gen.MirroredBuffer Sonic.Model.Mirrored Driver.MirroredSpec

def isPow2 (n : Int) : Bool := n > 0 && Go.land n (n - 1) == 0

/-- Non-default branches of the implementation model reached by a step (coverage only). -/
def tagsOf (s s' : St) (op : Op) (ob : Obs) : List String :=
  match op, ob with
  | .new req page, .created size =>
      (if req % page ≠ 0 then ["size-rounded"] else []) ++ (if isPow2 (size / page) then [] else ["size-not-pow2"])
  | .new _ _, .refused => ["new-refused"]
  | _, _ =>
  match s.buf, s'.buf with
  | some b, some b' =>
    (match op, ob with
      | .claim n, .view lo len =>
          (if len < n ∧ len > 0 then ["claim-clamped"] else []) ++ (if len = 0 ∧ n > 0 then ["claim-nil"] else [])
          ++ (if lo + len > b.size then ["claim-crosses-end"] else [])
      | .commit n, .int k =>
          (if k < n then ["commit-clamped"] else []) ++ (if k > 0 ∧ b'.tail < b.tail then ["tail-wrapped"] else [])
          ++ (if b'.used = b'.size then ["became-full"] else [])
      | .consume n, .int k =>
          (if k < n then ["consume-over"] else []) ++ (if k > 0 ∧ b'.head < b.head then ["head-wrapped"] else [])
          ++ (if 0 < k ∧ b'.used > 0 then ["consume-partial"] else [])
      | .write _, _ => (if s.cLen > 0 ∧ s.cLo + s.cLen > b.size then ["write-crosses-end"] else [])
      | .read off len, .bytes _ => (if len > 0 ∧ off + len > b.size then ["read-second-mapping"] else [])
      | _, .panic => ["panic"]
      | _, _ => [])
  | _, _ => []

/-- Model acceptor + monitor. The model state is `none` after the first divergence. -/
def check (sc : Driver.Script) : Driver.Result :=
  checkWith sc (some Sonic.Model.Mirrored.init) fun m op ob res i =>
    match m with
    | none => (none, res)
    | some st =>
      let (st', mo) := Sonic.Model.Mirrored.step st op
      if mo = ob then
        (some st', { res with tags := (tagsOf st st' op ob).foldl Driver.addTag res.tags })
      else match mo, ob with
        | .created _, .refused =>
          -- the arithmetic accepts the size but the OS refused the file or the mapping: environment
          (some Sonic.Model.Mirrored.init, { res with tags := Driver.addTag res.tags "new-os-refused" })
        | _, _ =>
          (none, { res with modelDiff := some (i, s!"op=[{showOp op}] impl=[{showObs ob}] model=[{showObs mo}]") })

end Driver.Mirrored
