import Driver.LoopSpec
import Sonic.Model.Loop

namespace Driver.Loop

/-- Model acceptor + monitor for `loop` traces. -/
def check (sc : Driver.Script) : Driver.Result :=
  Driver.LoopSpec.checkWith ({} : Sonic.Model.Loop.World) Sonic.Model.Loop.step sc

end Driver.Loop
