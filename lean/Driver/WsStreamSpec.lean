import Driver.Util
import Sonic.Spec.WsStream

/-! Spec-only acceptor for `wsstream` traces (C08, C15): parsing + the RFC 6455 monitor. -/
namespace Driver.WsStreamSpec
open Sonic.Spec.WsStream

def hexVal (c : Char) : Option Nat :=
  if '0' ≤ c ∧ c ≤ '9' then some (c.toNat - '0'.toNat)
  else if 'a' ≤ c ∧ c ≤ 'f' then some (c.toNat - 'a'.toNat + 10)
  else none

def hexList : List Char → Option Bytes
  | [] => some []
  | [_] => none
  | a :: b :: r => do
    let x ← hexVal a
    let y ← hexVal b
    let t ← hexList r
    pure (UInt8.ofNat (x * 16 + y) :: t)

def hex? (s : String) : Option Bytes := if s == "-" then some [] else hexList s.toList

def hexDigit (n : Nat) : Char := if n < 10 then Char.ofNat (48 + n) else Char.ofNat (87 + n)

def showHex (b : Bytes) : String :=
  if b.isEmpty then "-" else String.ofList (b.flatMap fun x => [hexDigit (x.toNat / 16), hexDigit (x.toNat % 16)])

def bool? : String → Option Bool
  | "1" => some true | "0" => some false | _ => none

def async? : String → Option Bool
  | "sync" => some false | "async" => some true | _ => none

def nat? (s : String) : Option Nat := s.toNat?

def parseOp : List String → Option Op
  | ["peer", fin, rsv, op, m, p] => do
    pure (.peer { fin := ← bool? fin, rsv := ← nat? rsv, op := ← nat? op, masked := ← bool? m, payload := ← hex? p })
  | ["eof"] => some .eof
  | ["ioerr"] => some .ioerr
  | ["nextframe", a] => do pure (.nextFrame (← async? a))
  | ["nextmsg", a, n] => do pure (.nextMsg (← async? a) (← nat? n))
  | ["write", a, t, p] => do pure (.write (← async? a) (← nat? t) (← hex? p))
  | ["writeframe", a, fin, op, p] => do pure (.writeFrame (← async? a) (← bool? fin) (← nat? op) (← hex? p))
  | ["flush", a] => do pure (.flush (← async? a))
  | ["close", a, c, r] => do pure (.close (← async? a) (← nat? c) (← hex? r))
  | _ => none

def err? : String → Option Err
  | "nil" => some .nil | "eof" => some .eof | "cancelled" => some .cancelled | "needmore" => some .needmore
  | "toobig" => some .tooBig | "overmax" => some .overMax
  | "proto-rsv" => some (.proto .rsv) | "proto-masked" => some (.proto .masked) | "proto-ctlfin" => some (.proto .ctlFin)
  | "proto-ctlbig" => some (.proto .ctlBig) | "proto-opcode" => some (.proto .opcode)
  | "proto-unexpcont" => some .unexpCont | "proto-expcont" => some .expCont
  | "nodata" => some .nodata | "ioerr" => some .ioerr | "other" => some .other
  | _ => none

def showErr : Err → String
  | .nil => "nil" | .eof => "eof" | .cancelled => "cancelled" | .needmore => "needmore" | .tooBig => "toobig"
  | .overMax => "overmax" | .proto .rsv => "proto-rsv" | .proto .masked => "proto-masked" | .proto .ctlFin => "proto-ctlfin"
  | .proto .ctlBig => "proto-ctlbig" | .proto .opcode => "proto-opcode" | .unexpCont => "proto-unexpcont"
  | .expCont => "proto-expcont" | .nodata => "nodata" | .ioerr => "ioerr" | .other => "other"

def state? : String → Option StreamState
  | "handshake" => some .handshake | "active" => some .active | "closedbyus" => some .closedByUs
  | "closedbypeer" => some .closedByPeer | "closeacked" => some .closeAcked | "terminated" => some .terminated
  | _ => none

def showState : StreamState → String
  | .handshake => "handshake" | .active => "active" | .closedByUs => "closedbyus" | .closedByPeer => "closedbypeer"
  | .closeAcked => "closeacked" | .terminated => "terminated"

/-- value of `key=value` -/
def kv (key : String) (tok : String) : Option String :=
  let pre := key ++ "="
  if tok.startsWith pre then some ((tok.drop pre.length).toString) else none

def inFrame? (s : String) : Option (Option InFrame) :=
  if s == "nil" then some none else
  match s.splitOn ":" with
  | [fin, rsv, op, m, p] => do
    pure (some { fin := ← bool? fin, rsv := ← nat? rsv, op := ← nat? op, masked := ← bool? m, payload := ← hex? p })
  | _ => none

def showIn : Option InFrame → String
  | none => "nil"
  | some f => s!"{if f.fin then 1 else 0}:{f.rsv}:{f.op}:{if f.masked then 1 else 0}:{showHex f.payload}"

def outFrame? (s : String) : Option OutFrame :=
  match s.splitOn ":" with
  | [fin, op, m, p] => do pure { fin := ← bool? fin, op := ← nat? op, masked := ← bool? m, payload := ← hex? p }
  | _ => none

def showOut (f : OutFrame) : String :=
  s!"{if f.fin then 1 else 0}:{f.op}:{if f.masked then 1 else 0}:{showHex f.payload}"

/-- A wire that did not parse into whole, well-formed frames is represented by a frame no rule accepts. -/
def garbageFrame : OutFrame := { fin := false, op := 99, masked := false, payload := [] }

def wire? (s : String) : Option (List OutFrame) :=
  if s == "-" then some [] else
  if s.contains '+' then some [garbageFrame] else
  (s.splitOn ",").mapM outFrame?

def showWire (w : List OutFrame) : String := if w.isEmpty then "-" else ",".intercalate (w.map showOut)

def ctl? (s : String) : Option (List (Nat × Bytes)) :=
  if s == "-" then some [] else
  (s.splitOn ",").mapM fun e => match e.splitOn ":" with
    | [t, p] => do pure (← nat? t, ← hex? p)
    | _ => none

def showCtl (c : List (Nat × Bytes)) : String :=
  if c.isEmpty then "-" else ",".intercalate (c.map fun (t, p) => s!"{t}:{showHex p}")

def post? : List String → Option Post
  | [st, pe, wi] => do
    pure { state := ← state? (← kv "state" st), pending := ← nat? (← kv "pending" pe), wire := ← wire? (← kv "wire" wi) }
  | _ => none

def parseObs : List String → Option Obs
  | ["panic"] => some .panic
  | "hang" :: _ => some .panic
  | "ok" :: r => do pure (.ok .none (← post? r))
  | "frame" :: e :: f :: r => do pure (.ok (.frame (← err? (← kv "err" e)) (← inFrame? (← kv "f" f))) (← post? r))
  | "msg" :: e :: t :: n :: d :: tail :: c :: r => do
    pure (.ok (.msg (← err? (← kv "err" e)) (← nat? (← kv "type" t)) (← nat? (← kv "n" n)) (← hex? (← kv "data" d))
      ((← kv "tail" tail) == "clean") (← ctl? (← kv "ctl" c))) (← post? r))
  | "call" :: e :: r => do pure (.ok (.call (← err? (← kv "err" e))) (← post? r))
  | _ => none

def showPost (p : Post) : String := s!"state={showState p.state} pending={p.pending} wire={showWire p.wire}"

def showObs : Obs → String
  | .panic => "panic"
  | .ok .none p => s!"ok {showPost p}"
  | .ok (.frame e f) p => s!"frame err={showErr e} f={showIn f} {showPost p}"
  | .ok (.msg e t n d cl c) p =>
    s!"msg err={showErr e} type={t} n={n} data={showHex d} tail={if cl then "clean" else "dirty"} ctl={showCtl c} {showPost p}"
  | .ok (.call e) p => s!"call err={showErr e} {showPost p}"

def showStage : Stage → String
  | .opened => "open" | .closing => "closing" | .peerClosed => "peer-closed" | .acked => "acked" | .aborted => "aborted"

def showExpect : Expect → String
  | .frame f => showOut f | .closeCode c => s!"close({c})" | .closeAny => "close(*)"

def showWant : Want → String
  | .nothing => "nothing" | .eos => "end-of-stream" | .abnormal => "EOF(+Close 1006)" | .transport e => s!"transport error {showErr e}"
  | .over => "error: frame over the maximum" | .violation b => s!"protocol error, nothing delivered beyond [{showHex b}]"
  | .deliverFrame f => s!"frame {showIn (some f)}" | .tooBig => "ErrMessageTooBig" | .frag e => showErr e
  | .deliverMsg t d => s!"message type={t} data={showHex d}" | .accepted => "nil" | .refused => "an error (refused)"

/-- Replay a script against the monitor; `mstep` lets the model acceptor follow along. A line `? defer` says that from
here on the scripted transport holds asynchronous writes back (until the `flush async` that reports the pump): the monitor
is unaffected (frames inside the transport are counted as pending by the harness), the model acceptor is told through
`menv` (the model of stream.go is written for a transport that completes every write at once and stops following). -/
def checkWith {σ : Type} (sc : Driver.Script) (m0 : Nat → σ)
    (mstep : σ → Op → Obs → Driver.Result → Nat → (σ × Driver.Result)) (menv : σ → List String → σ := fun m _ => m) : Driver.Result := Id.run do
  let mut res : Driver.Result := {}
  let mut m : σ := m0 0
  let mut s : Option S := some (init 0)
  let mut pending : Option Op := none
  let mut praw := ""
  let mut isNew := false
  let mut i := 0
  for ln in sc.lines do
    i := i + 1
    if ln.kind == '?' then
      m := menv m ln.toks
      match ln.toks with
      | ["defer"] => res := { res with tags := Driver.addTag res.tags "write-held-back-by-the-transport" }
      | ["setmax", n] =>
        -- SetMaxMessageSize on the live stream: the configured maximum changes from here on
        s := s.map fun st => { st with max := (nat? n).getD st.max }
        res := { res with tags := Driver.addTag res.tags "max-changed-on-live-stream" }
      | _ => pure ()
    else if ln.kind == '!' then
      match ln.toks with
      | ["new", n] =>
        let n := (nat? n).getD 0
        m := m0 n; s := some (init n); pending := none; isNew := true
      | toks =>
        match parseOp toks with
        | some op => pending := some op; praw := ln.raw; res := { res with ops := res.ops + 1 }
        | none => res := { res with envBad := res.envBad <|> some (i, s!"unparsable operation: {ln.raw}") }
    else if ln.kind == '<' then
      if isNew then
        isNew := false
        -- a fresh stream is open, has nothing pending and has written nothing
        if ln.toks != ["ok", "state=active", "pending=0", "wire=-"] then
          res := { res with specFail := res.specFail <|> some (i, s!"key=wsstream.fresh a fresh stream reported [{ln.raw}]") }
      else
      match pending, parseObs ln.toks with
      | some op, some ob =>
        pending := none
        let (m', res') := mstep m op ob res i
        m := m'; res := res'
        match s with
        | some st =>
          match step st op ob with
          | some st' => s := some st'
          | none =>
            let (st', want) := match ob with
              | .ok _ p => advance st (p.state == StreamState.closedByUs) op
              | .panic => (st, Want.nothing)
            res := { res with specFail := res.specFail <|> some (i,
              s!"key=wsstream.{explain st op ob} op=[{praw}] obs=[{showObs ob}] rejected by the RFC 6455 monitor (stage after={showStage st'.stage}, must-return={showWant want}, must-have-submitted={st'.expect.map showExpect}, seen-on-wire={st'.seen})") }
            s := none
        | none => pure ()
      | some _, none =>
        res := { res with envBad := res.envBad <|> some (i, s!"unparsable observation: {ln.raw}") }
        pending := none
      | none, _ => pure ()
  return res

def check (sc : Driver.Script) : Driver.Result :=
  checkWith sc (fun _ => ()) (fun _ _ _ r _ => ((), r))

end Driver.WsStreamSpec
