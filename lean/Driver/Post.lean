import Driver.PostSpec
import Sonic.Model.Post

namespace Driver.Post
open Sonic.Model.Post
open Sonic.Spec.Post (Ev)

/-- Model state for the acceptor: the interleaving model's state plus the `nested` relation accumulated so far. -/
structure M where
  st : St := init (fun _ => [])
  nests : List (Nat × Nat) := []

def nestedOf (nests : List (Nat × Nat)) : Nat → List Nat := fun h => (nests.filter (·.1 == h)).map (·.2)

/-- run `k` steps of thread `t` (all must be enabled) -/
def stepsN (nested : Nat → List Nat) (s : St) (t : Option Nat) : Nat → Option St
  | 0 => some s
  | k + 1 => match step nested s t with
    | some s' => stepsN nested s' t k
    | none => none

/-- one round of the loop thread: from `waiting` through dispatch back to `waiting` (fuel bounds the round) -/
def loopRound (nested : Nat → List Nat) (s : St) : Nat → Option St
  | 0 => none
  | f + 1 => match step nested s none with
    | none => none
    | some s' => if s'.lpc == .waiting then some s' else loopRound nested s' f

def mstep (m : M) : Ev → Option M
  | .nest h h' => some { m with nests := m.nests ++ [(h, h')] }
  | .posted p h ok pending posted =>
    -- goroutine p performs one complete Post(h): lock, append, unlock, wake
    let s0 := setPoster m.st p { todo := [h] }
    match stepsN (nestedOf m.nests) s0 (some p) 4 with
    | none => none
    | some s1 => if ok && pending == s1.pending && posted == (s1.posts.length : Int) then some { m with st := s1 } else none
  | .ran hs again sameTid pending posted _ _ =>
    if again || !sameTid then none else
    -- PollOne: if the eventfd is readable the loop makes one dispatch round, else nothing happens
    let before := m.st.executed.length
    let s1? := if m.st.counter > 0 then loopRound (nestedOf m.nests) m.st (8 + 8 * (m.st.posts.length + 1) * (m.nests.length + 2)) else some m.st
    match s1? with
    | none => none
    | some s1 =>
      if s1.executed.drop before == hs && pending == s1.pending && posted == (s1.posts.length : Int) then some { m with st := s1 } else none

def check (sc : Driver.Script) : Driver.Result := Driver.PostSpec.checkWith ({} : M) mstep sc

end Driver.Post
