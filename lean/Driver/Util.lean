/-
Shared plumbing of the trace acceptor `sonicdrv` (core Lean only, so that it links natively).
-/
namespace Driver

structure Line where
  kind : Char            -- '!' operation, '?' environment observation, '<' implementation output
  toks : List String
  raw  : String
  deriving Repr

structure Script where
  id    : String
  lines : Array Line

/-- Outcome of replaying one script. `modelDiff` / `specFail` carry the 1-based index of the line
(within the script) where the implementation's output differs from the model's, respectively is
rejected by the property monitor. -/
structure Result where
  ops       : Nat := 0
  modelDiff : Option (Nat × String) := none
  specFail  : Option (Nat × String) := none
  envBad    : Option (Nat × String) := none     -- '?' line outside what the model allows
  tags      : List String := []                  -- non-default model branches this script reached
  more      : List String := []                  -- clauses violated after (or together with) the first one

def parseLine (s : String) : Option Line :=
  let s := s.trimAscii.toString
  if s.length < 2 then none else
  let k := s.front
  if k == '!' || k == '?' || k == '<' then
    some { kind := k, toks := (s.drop 1).trimAscii.toString.splitOn " " |>.filter (· ≠ ""), raw := s }
  else none

partial def readAll (h : IO.FS.Stream) (acc : Array String) : IO (Array String) := do
  let line ← h.getLine
  if line.isEmpty then return acc else readAll h (acc.push line)

def splitScripts (lines : Array String) : Array Script := Id.run do
  let mut out : Array Script := #[]
  let mut cur : Array Line := #[]
  let mut id := "0"
  let mut seen := false
  for l in lines do
    let t := l.trimAscii.toString
    if t.startsWith "# script" then
      if seen then out := out.push { id := id, lines := cur }
      id := (t.drop 8).trimAscii.toString
      cur := #[]
      seen := true
    else match parseLine t with
      | some ln => cur := cur.push ln; seen := true
      | none => pure ()
  if seen then out := out.push { id := id, lines := cur }
  return out

def int? (s : String) : Option Int := s.toInt?

def hexVal (c : Char) : Option Nat :=
  if '0' ≤ c ∧ c ≤ '9' then some (c.toNat - '0'.toNat)
  else if 'a' ≤ c ∧ c ≤ 'f' then some (c.toNat - 'a'.toNat + 10)
  else if 'A' ≤ c ∧ c ≤ 'F' then some (c.toNat - 'A'.toNat + 10)
  else none

/-- `-` is the empty byte string; otherwise an even number of hex digits. -/
def hex? (s : String) : Option (List UInt8) :=
  if s == "-" then some [] else
  let rec go : List Char → List UInt8 → Option (List UInt8)
    | [], acc => some acc.reverse
    | [_], _ => none
    | a :: b :: r, acc => do
        let x ← hexVal a
        let y ← hexVal b
        go r (UInt8.ofNat (x * 16 + y) :: acc)
  go s.toList []

def toHex (b : List UInt8) : String :=
  if b.isEmpty then "-" else
  let d (n : Nat) : Char := if n < 10 then Char.ofNat (n + 48) else Char.ofNat (n + 87)
  String.ofList (b.flatMap fun x => [d (x.toNat / 16), d (x.toNat % 16)])

/-- value of `key=` among the tokens -/
def attr? (toks : List String) (key : String) : Option String :=
  (toks.find? (·.startsWith (key ++ "="))).map (fun t => (t.drop (key.length + 1)).toString)

def report (id : String) (r : Result) : IO Unit := do
  let m := match r.modelDiff with | none => "ok" | some (l, _) => s!"diff@{l}"
  let s := match r.specFail with | none => "ok" | some (l, _) => s!"fail@{l}"
  let e := match r.envBad with | none => "ok" | some (l, _) => s!"bad@{l}"
  IO.println s!"script {id} ops={r.ops} model={m} spec={s} env={e} tags={",".intercalate r.tags}"
  if let some (_, d) := r.modelDiff then IO.println s!"  model-detail: {d}"
  if let some (_, d) := r.specFail then IO.println s!"  spec-detail: {d}"
  if !r.more.isEmpty then IO.println s!"  spec-more: {" || ".intercalate r.more}"
  if let some (_, d) := r.envBad then IO.println s!"  env-detail: {d}"

def addTag (ts : List String) (t : String) : List String := if ts.contains t then ts else ts ++ [t]

def mainWith (components : List (String × (Script → Result))) (args : List String) : IO UInt32 := do
  match args with
  | [comp] =>
    match components.lookup comp with
    | none => IO.eprintln s!"unknown component {comp}"; return 2
    | some chk =>
      let lines ← readAll (← IO.getStdin) #[]
      let scripts := splitScripts lines
      let mut bad := 0
      for sc in scripts do
        let r := chk sc
        report sc.id r
        if r.modelDiff.isSome || r.specFail.isSome || r.envBad.isSome then bad := bad + 1
      IO.println s!"summary scripts={scripts.size} bad={bad}"
      return 0
  | _ => IO.eprintln "usage: <driver> <component> < trace"; return 2

end Driver
