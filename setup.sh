#!/bin/sh
# Build the framework from files on disk only (offline). Run once after a fresh restore.
set -e
cd "$(dirname "$0")"
export GOFLAGS=-mod=mod GOPROXY=off
mkdir -p work tools/bin harness/bin evidence replays
(cd tools/go2lean && go build -o ../bin/go2lean .)
tools/bin/go2lean tools/go2lean/spec.json /repo lean/Sonic/Gen
(cd tools/respaths && go build -o ../bin/respaths .)
tools/bin/respaths tools/respaths/config.json /repo lean/Sonic/Gen
cp /repo/go.sum harness/go.sum
(cd harness && go build -tags verif -o bin/harness .)
python3 gen_lean_index.py
# Build every proof module and both acceptors. A proof that does not check on the current tree is
# reported by the corresponding ./check, not here.
(cd lean && lake build Sonic sonicdrv sonicspec) || (cd lean && lake build sonicspec)
