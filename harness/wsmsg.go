package main

// Component "wsmsg" (property C06): message delivery fidelity of websocket.Stream under fragmentation and
// segmentation. A script describes what a conforming peer (server) sends, at message level, and how the resulting byte
// stream is cut into transport reads; the same session is then replayed through the four read APIs, each on a fresh
// client Stream attached (hook VerifAttach) to the scripted in-memory transport of memstream.go.
//
// Script operations ("!" lines):
//
//	new <max> <buf>            SetMaxMessageSize(max) for every stream of this script; <buf> = size of the caller's buffer
//	                           handed to NextMessage/AsyncNextMessage
//	msg <type> <item>...       one message of type 1 (text) / 2 (binary). Items, in wire order:
//	                             f:<hex>  a fragment (first one carries the type opcode, later ones opcode 0, FIN on the last)
//	                             p:<hex>  a Ping frame, q:<hex> a Pong frame inserted before the next fragment
//	                           the last item is a fragment
//	tail <item>...             control frames sent after the last message (p:/q: only)
//	cut <n>                    the next transport segment has n bytes (what is left after the last cut is one more segment)
//	encode                     prints the byte stream of the session so far ("< wire <hex>"), encoded by wsEncodePeer
//	                           (independent of the library)
//	read frame|msg sync|async [<pre>]
//	                           fresh stream; the session's bytes are queued as segments (asynchronous readers: only the first
//	                           <pre> segments, the others arrive one by one each time the read is left pending); the API is
//	                           called until it reports an error (at most frames+3 times)
//
// Trace of a read: per API call, "? rd <room> <n>" for every transport read it made (room = len of the buffer offered =
// Reserved() of the stream's read buffer, n = bytes returned; the capacity behind <room> is the Go runtime's choice), then one
// "<" line: `frame err=.. f=fin:rsv:op:masked:payload` or `msg err=.. type=.. n=.. data=.. tail=clean|dirty|range ctl=..`
// (ctl = what the control callback received during that call, in order).

import (
	"bufio"
	"fmt"
	"os"
	"strings"
	"time"

	"github.com/talostrading/sonic"
	"github.com/talostrading/sonic/codec/websocket"
)

func init() {
	components["wsmsg"] = &component{gen: wsmsgGen, enum: wsmsgEnum, run: wsmsgRun, direct: wsmsgDirect}
}

// ---- session description ---------------------------------------------------------------------------

type wsmsgItem struct {
	kind    byte // 'f', 'p', 'q'
	payload []byte
}

type wsmsgLine struct {
	ty    int // 1, 2; 0 = tail
	items []wsmsgItem
}

func wsmsgParseItems(toks []string) []wsmsgItem {
	var items []wsmsgItem
	for _, t := range toks {
		if len(t) < 3 || t[1] != ':' || (t[0] != 'f' && t[0] != 'p' && t[0] != 'q') {
			panic("bad item in script: " + t)
		}
		items = append(items, wsmsgItem{kind: t[0], payload: unhx(t[2:])})
	}
	return items
}

// wsmsgFrames encodes one line; it returns the bytes and the offset of every frame within them.
func wsmsgFrames(l wsmsgLine) (out []byte, starts []int) {
	last := -1
	for i, it := range l.items {
		if it.kind == 'f' {
			last = i
		}
	}
	if l.ty != 0 && last != len(l.items)-1 {
		panic("bad msg line: the last item must be a fragment")
	}
	first := true
	for i, it := range l.items {
		starts = append(starts, len(out))
		switch it.kind {
		case 'p':
			out = append(out, wsEncodePeer(true, 0, 9, false, it.payload)...)
		case 'q':
			out = append(out, wsEncodePeer(true, 0, 10, false, it.payload)...)
		default:
			if l.ty == 0 {
				panic("bad tail line: fragments are not allowed")
			}
			op := 0
			if first {
				op = l.ty
			}
			first = false
			out = append(out, wsEncodePeer(i == last, 0, op, false, it.payload)...)
		}
	}
	return
}

func wsmsgItemsStr(items []wsmsgItem) string {
	var parts []string
	for _, it := range items {
		parts = append(parts, fmt.Sprintf("%c:%s", it.kind, wsHx(it.payload)))
	}
	return strings.Join(parts, " ")
}

// ---- transport that logs every read -------------------------------------------------------------------

type wsmsgStream struct {
	*memStream
	w     *bufio.Writer
	reads int // transport reads so far
	limit int // more reads than this cannot be needed: the reader is spinning (e.g. on zero-length reads)
}

func (s *wsmsgStream) log(room, n int) {
	fmt.Fprintf(s.w, "? rd %d %d\n", room, n)
	s.reads++
	if s.reads > s.limit {
		panic("wsmsg: the reader keeps reading from the transport without making progress")
	}
}

func (s *wsmsgStream) Read(b []byte) (int, error) {
	n, err := s.memStream.Read(b)
	s.log(len(b), n)
	return n, err
}

func (s *wsmsgStream) AsyncRead(b []byte, cb sonic.AsyncCallback) {
	s.memStream.AsyncRead(b, func(err error, n int) {
		s.log(len(b), n)
		cb(err, n)
	})
}

var _ sonic.Stream = (*wsmsgStream)(nil)

// ---- executing a script ------------------------------------------------------------------------------

func wsmsgRun(script []string, w *bufio.Writer) {
	if wsIoc == nil {
		wsIoc = sonic.MustIO()
	}
	dog := time.AfterFunc(30*time.Second, func() {
		fmt.Fprintf(w, "< hang\n")
		w.Flush()
		os.Exit(3)
	})
	defer dog.Stop()
	var (
		max, bufSize int
		wire         []byte
		nframes      int
		cuts         []int
	)
	segments := func() [][]byte {
		var segs [][]byte
		rest := wire
		for _, c := range cuts {
			n0 := c
			if c > len(rest) {
				c = len(rest)
			}
			// ("cut 0": an empty segment — a transport read that completes with no bytes and no error)
			if c > 0 || n0 == 0 {
				segs = append(segs, rest[:c])
			}
			rest = rest[c:]
		}
		if len(rest) > 0 {
			segs = append(segs, rest)
		}
		return segs
	}
	for _, line := range script {
		f := strings.Fields(line)
		fmt.Fprintf(w, "! %s\n", line)
		p := guard(func() {
			switch f[0] {
			case "new":
				max, bufSize = atoi(f[1]), atoi(f[2])
				wsmsgUTF8, wsmsgBump = false, false
				for _, fl := range f[3:] {
					switch fl {
					case "utf8":
						wsmsgUTF8 = true
					case "bump":
						wsmsgBump = true
					}
				}
				wire, nframes, cuts = nil, 0, nil
				fmt.Fprintf(w, "< ok\n")
			case "msg", "tail":
				l := wsmsgLine{}
				toks := f[1:]
				if f[0] == "msg" {
					l.ty = atoi(f[1])
					if l.ty != 1 && l.ty != 2 {
						panic("bad message type")
					}
					toks = f[2:]
				}
				l.items = wsmsgParseItems(toks)
				b, starts := wsmsgFrames(l)
				wire = append(wire, b...)
				nframes += len(starts)
				fmt.Fprintf(w, "< ok\n")
			case "cut":
				n := atoi(f[1])
				if n < 0 {
					panic("bad cut")
				}
				cuts = append(cuts, n)
				fmt.Fprintf(w, "< ok\n")
			case "encode":
				fmt.Fprintf(w, "< wire %s\n", wsHx(wire))
			case "read":
				segs := segments()
				pre := len(segs)
				async := f[2] == "async"
				if f[2] != "sync" && !async {
					panic("bad read mode")
				}
				if async && len(f) > 3 {
					pre = minInt(atoi(f[3]), len(segs))
				}
				wsmsgRead(w, f[1], async, max, bufSize, segs, pre, nframes+3)
			default:
				panic("bad op " + f[0])
			}
		})
		if p {
			fmt.Fprintf(w, "< panic\n")
		}
	}
}

// wsmsgUTF8: the streams of this script validate text payloads (ValidateUTF8(true), off by default). A conforming peer sends
// valid UTF-8 in text messages, so delivery must be the same; the generator then draws valid multi-byte text (cut into
// fragments at any byte position) and binary payloads that are not valid UTF-8.
var wsmsgUTF8 bool

// wsmsgBump: while an asynchronous read is waiting for the transport, the application raises the maximum message size
// (SetMaxMessageSize(max + 70000), more than the read buffer has room for): nothing about the messages in transit changes.
var wsmsgBump bool

func wsmsgRead(w *bufio.Writer, api string, async bool, max, bufSize int, segs [][]byte, pre, bound int) {
	ws, err := websocket.NewWebsocketStream(wsIoc, nil, websocket.RoleClient)
	if err != nil {
		panic(err)
	}
	ms := newMemStream()
	total := 0
	for _, s := range segs {
		total += len(s)
	}
	// every read but one per call returns at least one byte
	st := &wsmsgStream{memStream: ms, w: w, limit: total + bound + 8 + len(segs)}
	if err := ws.VerifAttach(st); err != nil {
		panic(err)
	}
	ws.SetMaxMessageSize(max)
	if wsmsgUTF8 {
		ws.ValidateUTF8(true)
	}
	var ctl []string
	ws.SetControlCallback(func(mt websocket.MessageType, payload []byte) {
		ctl = append(ctl, fmt.Sprintf("%d:%s", int(mt), wsHx(payload)))
	})
	for _, s := range segs[:pre] {
		ms.feedRaw(s)
	}
	late := segs[pre:]
	// an asynchronous read left pending: the next segment arrives; with none left the transport reports "no data"
	// (a script never blocks)
	bumped := false
	wait := func(done *bool) {
		for !*done {
			if wsmsgBump && !bumped {
				bumped = true
				ws.SetMaxMessageSize(max + 70000)
			}
			if len(late) > 0 {
				ms.feedRaw(late[0])
				late = late[1:]
				ms.pump()
				continue
			}
			ms.readErr = errNoData
			ms.pump()
			if !*done {
				panic("asynchronous read never completed")
			}
		}
	}
	for call := 0; call < bound; call++ {
		var rerr error
		switch api {
		case "frame":
			var fr websocket.Frame
			if async {
				done := false
				ws.AsyncNextFrame(func(e error, g websocket.Frame) { rerr, fr, done = e, g, true })
				wait(&done)
			} else {
				fr, rerr = ws.NextFrame()
			}
			fmt.Fprintf(w, "< frame err=%s f=%s\n", wsErr(rerr), wsFrameStr(fr))
		case "msg":
			mem := make([]byte, bufSize+16)
			for i := range mem {
				mem[i] = 0xa5
			}
			b := mem[8 : 8+bufSize : 8+bufSize]
			var (
				mt websocket.MessageType
				n  int
			)
			ctl = ctl[:0]
			if async {
				done := false
				ws.AsyncNextMessage(b, func(e error, k int, t websocket.MessageType) { rerr, n, mt, done = e, k, t, true })
				wait(&done)
			} else {
				mt, n, rerr = ws.NextMessage(b)
			}
			tail := "clean"
			if n < 0 || n > bufSize {
				tail = "range"
				n = 0
			} else {
				for i, v := range mem {
					if (i < 8 || i >= 8+n) && v != 0xa5 {
						tail = "dirty"
					}
				}
			}
			c := "-"
			if len(ctl) > 0 {
				c = strings.Join(ctl, ",")
			}
			fmt.Fprintf(w, "< msg err=%s type=%d n=%d data=%s tail=%s ctl=%s\n", wsErr(rerr), int(mt), n, wsHx(b[:n]), tail, c)
		default:
			panic("bad read api " + api)
		}
		if rerr != nil {
			return
		}
	}
}

// ---- generator -----------------------------------------------------------------------------------------

type wsmsgG struct {
	r   *rng
	max int
}

// size of a message payload: the property's length classes, bounded by lim; the big ones are rare
func (g *wsmsgG) msgSize(lim int, allowBig bool) int {
	var n int
	switch x := g.r.intn(40); {
	case x < 3:
		n = 0
	case x < 6:
		n = 1
	case x < 9:
		n = 125
	case x < 12:
		n = 126
	case x < 15:
		n = 127
	case x < 17:
		n = lim
	case x < 19:
		n = lim - 1
	case x == 19 && allowBig:
		n = g.r.pick(65535, 65536, 65537)
	case x < 24:
		n = g.r.intn(300)
	default:
		n = g.r.intn(24)
	}
	if n < 0 {
		n = 0
	}
	if n > lim {
		n = lim
	}
	if n > 4096 && !allowBig {
		n = g.r.intn(200)
	}
	return n
}

func (g *wsmsgG) ctlItem() wsmsgItem {
	lim := minInt(125, g.max)
	n := 0
	switch g.r.intn(6) {
	case 0:
		n = lim
	case 1:
		n = 0
	default:
		n = g.r.intn(minInt(lim, 5) + 1)
	}
	k := byte('p')
	if g.r.intn(3) == 0 {
		k = 'q'
	}
	return wsmsgItem{kind: k, payload: g.r.bytes(n)}
}

// fragment cuts a payload into 1..6 fragments (empty ones included) with control frames in between
func (g *wsmsgG) fragment(payload []byte) []wsmsgItem {
	k := 1
	switch g.r.intn(5) {
	case 0, 1:
		k = 1
	case 2:
		k = 2
	default:
		k = 1 + g.r.intn(6)
	}
	pts := make([]int, k-1)
	for i := range pts {
		switch g.r.intn(6) {
		case 0:
			pts[i] = 0
		case 1:
			pts[i] = len(payload)
		case 2:
			pts[i] = minInt(len(payload), g.r.pick(1, 125, 126, 127, 65535, 65536))
		default:
			pts[i] = g.r.intn(len(payload) + 1)
		}
	}
	// sort
	for i := range pts {
		for j := i + 1; j < len(pts); j++ {
			if pts[j] < pts[i] {
				pts[i], pts[j] = pts[j], pts[i]
			}
		}
	}
	var items []wsmsgItem
	prev := 0
	for i := 0; i < k; i++ {
		end := len(payload)
		if i < k-1 {
			end = pts[i]
		}
		if g.r.intn(3) == 0 && (i > 0 || g.r.intn(2) == 0) {
			for c := 1 + g.r.intn(2); c > 0; c-- {
				items = append(items, g.ctlItem())
			}
		}
		items = append(items, wsmsgItem{kind: 'f', payload: payload[prev:end]})
		prev = end
	}
	return items
}

// cutPoints chooses a segmentation of a stream of n bytes whose frames start at the given offsets.
func (g *wsmsgG) cutPoints(n int, starts []int) []int {
	if n == 0 {
		return nil
	}
	var pts []int
	switch g.r.intn(8) {
	case 0: // one segment
	case 1: // byte by byte (short streams), else small pieces at the start
		lim := minInt(n-1, 64)
		for i := 1; i <= lim; i++ {
			pts = append(pts, i)
		}
	case 2, 3: // inside / around frame headers
		for c := 1 + g.r.intn(5); c > 0; c-- {
			s := starts[g.r.intn(len(starts))]
			pts = append(pts, s+g.r.pick(0, 1, 2, 3, 4, 5, 6, 9, 10, 11))
		}
	case 4: // equal pieces
		k := 2 + g.r.intn(6)
		for i := 1; i < k; i++ {
			pts = append(pts, i*n/k)
		}
	default:
		for c := 1 + g.r.intn(8); c > 0; c-- {
			pts = append(pts, g.r.intn(n+1))
		}
	}
	for i := range pts {
		for j := i + 1; j < len(pts); j++ {
			if pts[j] < pts[i] {
				pts[i], pts[j] = pts[j], pts[i]
			}
		}
	}
	var cuts []int
	prev := 0
	for _, p := range pts {
		if p <= prev || p >= n {
			if g.r.intn(8) != 0 { // now and then keep a zero-length cut (it is skipped by the transport)
				continue
			}
			p = prev
		}
		cuts = append(cuts, p-prev)
		prev = p
	}
	return cuts
}

func wsmsgGen(r *rng, maxops int, w *bufio.Writer) {
	side := newRng(r.s ^ 0x5bd1e9955bd1e995)
	g := &wsmsgG{r: r}
	g.max = r.pick(125, 126, 127, 300, 300, 1000, 1000, 4096, 16, 2)
	big := r.intn(60) == 0
	if big {
		g.max = r.pick(65535, 65536, 70000, 70000)
		if r.intn(8) == 0 {
			g.max = websocket.DefaultMaxMessageSize
		}
	}
	nmsg := 1 + r.intn(wsMaxInt(1, minInt(maxops, 5)))
	if r.intn(10) == 0 {
		nmsg = 0
	}
	utf8 := r.intn(5) == 0 // the streams of this script validate text payloads
	var lines []wsmsgLine
	largest := 0
	usedBig := false
	for i := 0; i < nmsg; i++ {
		n := g.msgSize(g.max, big && !usedBig)
		if n > 4096 {
			usedBig = true
		}
		if n > largest {
			largest = n
		}
		ty, payload := 1+r.intn(2), r.bytes(n)
		if utf8 && ty == 1 {
			// valid UTF-8 of exactly n bytes with 1- to 4-byte sequences (the fragmentation below cuts at byte positions,
			// also inside a sequence, which RFC 6455 5.6 allows)
			payload = payload[:0]
			for len(payload) < n {
				seq := [][]byte{{0x41 + byte(r.intn(26))}, {0xc3, 0xa9}, {0xe2, 0x82, 0xac}, {0xf0, 0x9f, 0x98, 0x80}, {0xed, 0x9f, 0xbf}, {0x7f}}[r.intn(6)]
				if len(payload)+len(seq) > n {
					seq = []byte{0x20}
				}
				payload = append(payload, seq...)
			}
		}
		if utf8 && ty == 2 && n > 0 {
			payload[r.intn(n)] = byte(r.pick(0x80, 0xc0, 0xff, 0xfe, 0xed)) // never valid UTF-8 on its own
		}
		lines = append(lines, wsmsgLine{ty: ty, items: g.fragment(payload)})
	}
	if r.intn(4) == 0 {
		var items []wsmsgItem
		for c := 1 + r.intn(2); c > 0; c-- {
			items = append(items, g.ctlItem())
		}
		lines = append(lines, wsmsgLine{items: items})
	}
	buf := largest
	switch r.intn(4) {
	case 0:
		buf = largest + 1
	case 1:
		buf = 2*g.max + 8
		if buf > 200000 {
			buf = largest + 7
		}
	}
	// outside the property's hypotheses (model and implementation must still agree): a buffer or a maximum that is too
	// small for one of the messages
	if r.intn(25) == 0 && largest > 0 {
		if r.intn(2) == 0 {
			buf = r.intn(largest)
		} else {
			g.max = r.intn(largest)
		}
	}
	flags := ""
	if utf8 {
		flags += " utf8"
	}
	if r.intn(4) == 0 && largest <= g.max && buf >= largest {
		flags += " bump" // (only inside the property's hypotheses: raising the maximum must not change what is delivered)
	}
	fmt.Fprintf(w, "! new %d %d%s\n", g.max, buf, flags)
	var wire []byte
	var starts []int
	for _, l := range lines {
		b, st := wsmsgFrames(l)
		for _, s := range st {
			starts = append(starts, len(wire)+s)
		}
		wire = append(wire, b...)
		if l.ty == 0 {
			fmt.Fprintf(w, "! tail %s\n", wsmsgItemsStr(l.items))
		} else {
			fmt.Fprintf(w, "! msg %d %s\n", l.ty, wsmsgItemsStr(l.items))
		}
	}
	fmt.Fprintf(w, "! encode\n")
	cuts := g.cutPoints(len(wire), starts)
	// one script in four: transport reads that complete with no bytes and no error between the segments ("cut 0"; drawn from a
	// generator of their own, so that the sessions themselves are the same with and without them)
	if side.intn(4) == 0 {
		for k := 1 + side.intn(3); k > 0; k-- {
			at := side.intn(len(cuts) + 1)
			cuts = append(cuts[:at], append([]int{0}, cuts[at:]...)...)
		}
	}
	for _, c := range cuts {
		fmt.Fprintf(w, "! cut %d\n", c)
	}
	nseg := len(cuts) + 1
	fmt.Fprintf(w, "! read frame sync\n")
	fmt.Fprintf(w, "! read frame async %d\n", r.pick(0, 1, nseg, nseg, r.intn(nseg+1)))
	fmt.Fprintf(w, "! read msg sync\n")
	fmt.Fprintf(w, "! read msg async %d\n", r.pick(0, 1, nseg, nseg, r.intn(nseg+1)))
}

// ---- exhaustive: short sessions at every 2-way and 3-way split ----------------------------------------------

// enum <limit>: for each of the fixed short sessions below, the unsplit stream, every split into two segments and — for
// streams of at most <limit> bytes — every split into three; longer streams get the splits whose points lie within 12 bytes of
// a frame start (inside the headers, 16- and 64-bit length fields included; 2-way only above 2000 bytes).
func wsmsgEnum(args []string, w *bufio.Writer) {
	limit := atoi(args[0])
	rp := func(n int, seed byte) string { // deterministic payload
		b := make([]byte, n)
		for i := range b {
			b[i] = seed + byte(i*7)
		}
		return wsHx(b)
	}
	type sess struct {
		max, buf int
		lines    []string
	}
	sessions := []sess{
		{16, 16, []string{"msg 1 f:68656c6c6f"}},
		{16, 5, []string{"msg 2 f:6865 f:6c6c6f", "msg 1 f:-"}},
		{16, 8, []string{"msg 1 f:01 p:aa f:02 q:- f:-"}},                                     // control frames between fragments, empty final fragment
		{16, 8, []string{"msg 2 p:0102 f:- f:- f:616263", "tail q:bb p:-"}},                   // empty fragments, leading and trailing controls
		{4, 4, []string{"msg 1 f:61626364", "msg 2 f:61 f:62 f:63 f:64"}},                     // exactly the maximum
		{200, 200, []string{"msg 2 f:" + rp(126, 1), "msg 1 f:01 p:" + rp(125, 3) + " f:02"}}, // 16-bit length, longest control frame
		{70000, 65540, []string{"msg 2 f:" + rp(3, 9) + " f:" + rp(65536, 2) + " f:-"}},       // 64-bit length
	}
	k := 0
	for _, s := range sessions {
		var wire []byte
		var starts []int
		for _, ln := range s.lines {
			f := strings.Fields(ln)
			l := wsmsgLine{}
			toks := f[1:]
			if f[0] == "msg" {
				l.ty = atoi(f[1])
				toks = f[2:]
			}
			l.items = wsmsgParseItems(toks)
			b, st := wsmsgFrames(l)
			for _, x := range st {
				starts = append(starts, len(wire)+x)
			}
			wire = append(wire, b...)
		}
		n := len(wire)
		near := func(p int) bool {
			for _, s := range starts {
				if p >= s && p <= s+12 {
					return true
				}
			}
			return p >= n-2
		}
		emit := func(cuts ...int) {
			fmt.Fprintf(w, "# script %d\n! new %d %d\n", k, s.max, s.buf)
			for _, ln := range s.lines {
				fmt.Fprintf(w, "! %s\n", ln)
			}
			if k%16 == 0 {
				fmt.Fprintf(w, "! encode\n")
			}
			for _, c := range cuts {
				fmt.Fprintf(w, "! cut %d\n", c)
			}
			pre := k % (len(cuts) + 2)
			fmt.Fprintf(w, "! read frame sync\n! read frame async %d\n! read msg sync\n! read msg async %d\n", pre, pre)
			k++
		}
		emit()
		for i := 1; i < n; i++ {
			if n > limit && !near(i) {
				continue
			}
			emit(i)
		}
		for i := 1; i < n && n <= 2000; i++ {
			if n > limit && !near(i) {
				continue
			}
			for j := i + 1; j < n; j++ {
				if n > limit && !near(j) {
					continue
				}
				emit(i, j-i)
			}
		}
	}
}
