package main

// Component "fds", direct mode, part 2: NewMirroredBuffer when re-mapping fails (repair ae96d19). The only way to make
// mmap(MAP_FIXED) over an existing region fail from outside is to exhaust the process' mapping count
// (vm.max_map_count), which is fatal for the Go runtime if it needs a mapping of its own at that moment — so the trial
// runs in a child process and an abnormal exit of the child is "inconclusive", not a failure.

import (
	"bufio"
	"fmt"
	"os"
	"os/exec"
	"runtime"
	"runtime/debug"
	"strconv"
	"strings"
	"syscall"
	"time"

	sonicbytes "github.com/talostrading/sonic/bytes"
)

func init() {
	fdsMirroredRemapTrial = fdsMmapParent
}

var fdsMapsBuf = make([]byte, 1<<16)

// fdsMapsCount counts the process' mappings without allocating (the caller may be at the mapping limit).
func fdsMapsCount() int {
	fd, err := syscall.Open("/proc/self/maps", syscall.O_RDONLY, 0)
	if err != nil {
		return -1
	}
	defer syscall.Close(fd)
	n := 0
	for {
		k, err := syscall.Read(fd, fdsMapsBuf)
		if k <= 0 || err != nil {
			break
		}
		for _, c := range fdsMapsBuf[:k] {
			if c == '\n' {
				n++
			}
		}
	}
	return n
}

// fdsVmSizeKB: total size of the address space in kB.
func fdsVmSizeKB() int {
	b, err := os.ReadFile("/proc/self/status")
	if err != nil {
		return -1
	}
	for _, l := range strings.Split(string(b), "\n") {
		if strings.HasPrefix(l, "VmSize:") {
			f := strings.Fields(l)
			if len(f) >= 2 {
				n, _ := strconv.Atoi(f[1])
				return n
			}
		}
	}
	return -1
}

func fdsMmapParent(d *fdsDirectState) {
	d.counts["mirrored-remap"]++
	cmd := exec.Command(os.Args[0], "fds", "direct", "0", "mmapchild")
	out, err := func() ([]byte, error) {
		done := make(chan struct{})
		var o []byte
		var e error
		go func() { o, e = cmd.Output(); close(done) }()
		select {
		case <-done:
			return o, e
		case <-time.After(90 * time.Second):
			_ = cmd.Process.Kill()
			<-done
			return o, fmt.Errorf("timeout")
		}
	}()
	verdict := ""
	for _, l := range strings.Split(string(out), "\n") {
		if strings.HasPrefix(l, "MMAP-") {
			verdict = l
		}
	}
	switch {
	case strings.HasPrefix(verdict, "MMAP-LEAK"):
		d.fail("mirrored.remap-failure-leaks-mapping", "NewMirroredBuffer failed after mmapAllocate and left its anonymous mapping behind: %s", verdict)
	case strings.HasPrefix(verdict, "MMAP-OK"):
		f := strings.Fields(verdict)
		if len(f) >= 2 {
			n, _ := strconv.Atoi(f[1])
			d.counts["provoked.mirrored-remap"] = n
		}
	default:
		_ = err
		d.counts["mirrored-remap-inconclusive"]++
	}
}

// fdsMmapChild: fill the address space with single-page mappings that cannot be merged until the limit is near, then
// call NewMirroredBuffer with 0, 1, 2 … mappings to spare.
func fdsMmapChild(w *bufio.Writer) {
	// grow the heap once so that the runtime needs no mapping of its own while the process sits at the limit
	warm := make([]byte, 64<<20)
	for i := 0; i < len(warm); i += 4096 {
		warm[i] = 1
	}
	warm = nil
	runtime.GC()
	debug.SetGCPercent(-1)
	raw, err := os.ReadFile("/proc/sys/vm/max_map_count")
	if err != nil {
		fmt.Fprintln(w, "MMAP-SKIP no max_map_count")
		return
	}
	maxMaps, _ := strconv.Atoi(strings.TrimSpace(string(raw)))
	if maxMaps <= 0 || maxMaps > 300000 {
		fmt.Fprintln(w, "MMAP-SKIP limit", maxMaps)
		return
	}
	page := syscall.Getpagesize()
	var fill []uintptr
	add := func(i int) bool {
		prot := syscall.PROT_NONE
		if i%2 == 1 {
			prot = syscall.PROT_READ
		}
		a, _, e := syscall.Syscall6(syscall.SYS_MMAP, 0, uintptr(page), uintptr(prot), syscall.MAP_PRIVATE|syscall.MAP_ANONYMOUS, ^uintptr(0), 0)
		if e != 0 {
			return false
		}
		fill = append(fill, a)
		return true
	}
	fill = make([]uintptr, 0, maxMaps+16)
	// coarse fill, then exact
	for i := 0; fdsMapsCountFast(len(fill)) < maxMaps-64; i++ {
		if !add(i) {
			break
		}
	}
	for i := 0; i < 200 && fdsMapsCount() < maxMaps-8; i++ {
		if !add(i) {
			break
		}
	}
	for i := 0; ; i++ {
		if !add(i) {
			break
		}
	}
	provoked, leaks := 0, 0
	detail := ""
	leakKB := 2 * page / 1024
	for round := 0; round < 2; round++ {
		for spare := 0; spare <= 8; spare++ {
			// free `spare` mappings
			for k := 0; k < spare && len(fill) > 0; k++ {
				a := fill[len(fill)-1]
				fill = fill[:len(fill)-1]
				_, _, _ = syscall.Syscall(syscall.SYS_MUNMAP, a, uintptr(page), 0)
			}
			before, mapsBefore := fdsVmSizeKB(), fdsMapsCount()
			b, err := sonicbytes.NewMirroredBuffer(page, false)
			after, mapsAfter := fdsVmSizeKB(), fdsMapsCount()
			if err == nil {
				_ = b.Destroy()
			} else {
				provoked++
				// exactly the two pages of the anonymous mapping stayed behind (anything else is the runtime's own business)
				if after-before == leakKB {
					leaks++
					detail = fmt.Sprintf("spare=%d err=%v VmSize %d->%d kB maps %d->%d", spare, err, before, after, mapsBefore, mapsAfter)
				}
			}
			// refill
			for i := 0; ; i++ {
				if !add(i) {
					break
				}
			}
		}
	}
	if leaks >= 2 {
		fmt.Fprintf(w, "MMAP-LEAK %d of %d failures: %s\n", leaks, provoked, detail)
	} else {
		fmt.Fprintf(w, "MMAP-OK %d\n", provoked)
	}
}

// fdsMapsCountFast avoids reading /proc/self/maps 60000 times: every successful add is one more mapping.
var fdsMapsBase = -1

func fdsMapsCountFast(added int) int {
	if fdsMapsBase < 0 {
		fdsMapsBase = fdsMapsCount()
	}
	return fdsMapsBase + added
}
