//go:build verif

package main

// wsmsgDirect (property C06, Go-only oracle): sessions with messages far above the sizes of the traced scripts — payloads of
// 1..3 MiB under a maximum raised with SetMaxMessageSize, followed and preceded by small messages that share transport segments
// with them. The traced component prints every payload in hex and is replayed by the Lean acceptor, which bounds its sizes at
// 512 KiB; here only the outcome is compared: every message arrives exactly once, in order, with its type, its bytes and its
// length, through NextFrame, AsyncNextFrame, NextMessage and AsyncNextMessage alike. The peer's bytes come from wsEncodePeer
// (independent of the library).

import (
	"bufio"
	"bytes"
	"fmt"

	"github.com/talostrading/sonic/codec/websocket"
)

type wsmsgSent struct {
	ty      int
	payload []byte
}

func wsmsgDirect(seed uint64, tier string, args []string, w *bufio.Writer) {
	fails := 0
	fail := func(key, format string, a ...any) {
		fails++
		if fails <= 10 {
			fmt.Fprintf(w, "DIRECT-FAIL key=wsmsg.%s %s\n", key, fmt.Sprintf(format, a...))
		}
	}
	r := newRng(seed*2654435761 + 17)
	sessions := 30
	if tier == "thorough" {
		sessions = 600
	}
	delivered, bytesDelivered := 0, 0
	for s := 0; s < sessions; s++ {
		max := r.pick(2<<20, 3<<20, 4<<20)
		g := &wsmsgG{r: r, max: max}
		// message sizes of the session: small ones around one or two large ones
		var sizes []int
		switch s % 6 {
		case 0:
			sizes = []int{1<<20 + 700 + r.intn(4000), 5, 5}
		case 1:
			sizes = []int{3, 2<<20 + r.intn(100), 0, 126, 1<<20 + 1, 70000, 1}
		case 2:
			sizes = []int{max, 1, 65536, 2}
		case 3:
			sizes = []int{600000, 600000, 7, 1<<20 + 600000, 9}
		default:
			for i, k := 0, 2+r.intn(5); i < k; i++ {
				if r.intn(3) == 0 {
					sizes = append(sizes, 1<<20+r.intn(max-(1<<20)+1))
				} else {
					sizes = append(sizes, g.msgSize(70000, true))
				}
			}
		}
		for i := range sizes {
			sizes[i] = minInt(sizes[i], max) // a conforming peer for this reader: nothing above the configured maximum
		}
		var sent []wsmsgSent
		var wire []byte
		var starts []int
		for _, n := range sizes {
			m := wsmsgSent{ty: 1 + r.intn(2), payload: r.bytes(n)}
			sent = append(sent, m)
			items := []wsmsgItem{{kind: 'f', payload: m.payload}}
			if r.intn(2) == 0 {
				items = g.fragment(m.payload)
			}
			b, st := wsmsgFrames(wsmsgLine{ty: m.ty, items: items})
			for _, x := range st {
				starts = append(starts, len(wire)+x)
			}
			wire = append(wire, b...)
		}
		// segmentation: whole; large equal pieces; pieces that end shortly after a frame start (the end of a large frame and
		// the beginning of the next one arrive together); random
		var segs [][]byte
		switch k := r.intn(4); k {
		case 0:
			segs = [][]byte{wire}
		case 1:
			step := r.pick(65536, 1<<20, 300000, 1<<20+4096)
			for o := 0; o < len(wire); o += step {
				segs = append(segs, wire[o:minInt(len(wire), o+step)])
			}
		case 2:
			o := 0
			for _, st := range starts {
				c := st + 1 + r.intn(12)
				if c > o && c < len(wire) {
					segs = append(segs, wire[o:c])
					o = c
				}
			}
			segs = append(segs, wire[o:])
		default:
			o := 0
			for o < len(wire) {
				n := 1 + r.intn(r.pick(100, 70000, 2<<20))
				segs = append(segs, wire[o:minInt(len(wire), o+n)])
				o += n
			}
		}
		for _, api := range []string{"frame sync", "frame async", "msg sync", "msg async"} {
			got, err := wsmsgCollect(api, max, segs, r.intn(len(segs)+1))
			what := fmt.Sprintf("session %d (max %d, message sizes %v, %d segments) read with %s", s, max, sizes, len(segs), api)
			if err != "" {
				fail("direct.big-message", "%s: %s", what, err)
				continue
			}
			if len(got) != len(sent) {
				fail("direct.big-message", "%s: %d messages delivered, %d sent", what, len(got), len(sent))
				continue
			}
			for i := range sent {
				if got[i].ty != sent[i].ty || !bytes.Equal(got[i].payload, sent[i].payload) {
					fail("direct.big-message", "%s: message %d arrived with type %d and %d bytes (sent: type %d, %d bytes; first difference at byte %d)",
						what, i, got[i].ty, len(got[i].payload), sent[i].ty, len(sent[i].payload), firstDiff(got[i].payload, sent[i].payload))
					break
				}
				delivered++
				bytesDelivered += len(sent[i].payload)
			}
		}
	}
	fmt.Fprintf(w, "DIRECT-STAT {\"wsmsg_big_sessions\": %d, \"wsmsg_big_messages_compared\": %d, \"wsmsg_big_bytes_compared\": %d, \"wsmsg_direct_failures\": %d}\n",
		sessions, delivered, bytesDelivered, fails)
}

func firstDiff(a, b []byte) int {
	for i := 0; i < len(a) && i < len(b); i++ {
		if a[i] != b[i] {
			return i
		}
	}
	return minInt(len(a), len(b))
}

// wsmsgCollect reads one session to its end (the transport reporting "no data") and returns the messages the API delivered; a
// non-empty string is a failure of the reader itself.
func wsmsgCollect(api string, max int, segs [][]byte, pre int) (out []wsmsgSent, problem string) {
	defer func() {
		if p := recover(); p != nil {
			problem = fmt.Sprintf("panic: %v", p)
		}
	}()
	ws, err := websocket.NewWebsocketStream(wsIoc, nil, websocket.RoleClient)
	if err != nil {
		panic(err)
	}
	ms := newMemStream()
	if err := ws.VerifAttach(ms); err != nil {
		panic(err)
	}
	ws.SetMaxMessageSize(max)
	async := api == "frame async" || api == "msg async"
	if !async {
		pre = len(segs)
	}
	for _, s := range segs[:pre] {
		ms.feed(s)
	}
	late := segs[pre:]
	wait := func(done *bool) {
		for !*done {
			if len(late) > 0 {
				ms.feed(late[0])
				late = late[1:]
				ms.pump()
				continue
			}
			ms.readErr = errNoData
			ms.pump()
			if !*done {
				panic("asynchronous read never completed")
			}
		}
	}
	var cur *wsmsgSent
	buf := make([]byte, max)
	for calls := 0; calls < 1000; calls++ {
		var rerr error
		if api == "frame sync" || api == "frame async" {
			var fr websocket.Frame
			if async {
				done := false
				ws.AsyncNextFrame(func(e error, g websocket.Frame) { rerr, fr, done = e, g, true })
				wait(&done)
			} else {
				fr, rerr = ws.NextFrame()
			}
			if rerr == nil {
				op := int(fr.Opcode())
				switch {
				case op >= 8:
				case op == 0:
					if cur == nil {
						return out, "a continuation frame was delivered with no message open"
					}
					cur.payload = append(cur.payload, fr.Payload()...)
				default:
					if cur != nil {
						return out, "a new message was opened inside a fragmented one"
					}
					cur = &wsmsgSent{ty: op, payload: append([]byte(nil), fr.Payload()...)}
				}
				if op < 8 && fr.IsFIN() {
					out = append(out, *cur)
					cur = nil
				}
			}
		} else {
			var (
				mt websocket.MessageType
				n  int
			)
			if async {
				done := false
				ws.AsyncNextMessage(buf, func(e error, k int, t websocket.MessageType) { rerr, n, mt, done = e, k, t, true })
				wait(&done)
			} else {
				mt, n, rerr = ws.NextMessage(buf)
			}
			if rerr == nil {
				if n < 0 || n > len(buf) {
					return out, fmt.Sprintf("a message was reported with length %d", n)
				}
				out = append(out, wsmsgSent{ty: int(mt), payload: append([]byte(nil), buf[:n]...)})
			}
		}
		if rerr != nil {
			if rerr != errNoData {
				return out, fmt.Sprintf("after %d messages the reader reported %v (the transport had only run out of data)", len(out), rerr)
			}
			return out, ""
		}
	}
	return out, "the reader kept returning without an error after the session had ended"
}
