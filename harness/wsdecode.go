package main

// Component wsdecode (C07): a real websocket.FrameCodec decoding from a real sonic.ByteBuffer.
//
// Script operations
//
//	new <max> <reserve>      NewByteBuffer (+ Reserve(reserve) if > 0, as NewWebsocketStream does), NewFrameCodec(src, dst, max)
//	feed <hex>               src.Write(bytes): the whole segment enters the write area (the buffer grows)
//	read <hex>               bytes are appended to the transport backlog, then ONE src.ReadFrom(transport) as CodecConn.ReadNext
//	                         does: at most Reserved() bytes enter the buffer, the rest stays in the backlog
//	decode                   codec.Decode(src)
//	commit <n>               src.Commit(n) by the caller: received bytes are already in the read area when Decode runs
//	                         (what a caller does who fills the buffer with Write + Commit, or decodes from the buffer an
//	                         encoder committed to)
//	encfeed <fin> <rsv1> <rsv2> <rsv3> <opcode> <masked> <maskhex> <payloadhex>
//	                         builds the frame with the library's Frame setters, encodes it with codec.Encode and
//	                         feeds the encoder's output to src (Write)
//
// Trace lines per operation: "? cap <n>" (capacity of src afterwards: chosen by Go's append, an environment value)
// and one "<" line: the outcome followed by "buf <SaveLen> <ReadLen> <WriteLen> <Reserved>".

import (
	"bufio"
	"bytes"
	"encoding/binary"
	"encoding/hex"
	"errors"
	"fmt"
	"strings"

	"github.com/talostrading/sonic"
	"github.com/talostrading/sonic/codec/websocket"
	"github.com/talostrading/sonic/sonicerrors"
)

func init() {
	components["wsdecode"] = &component{gen: wsdecodeGen, enum: wsdecodeEnum, run: wsdecodeRun, direct: wsdecodeDirect}
}

func wsdHex(b []byte) string {
	if len(b) == 0 {
		return "-"
	}
	return hex.EncodeToString(b)
}

func wsdUnhex(s string) []byte {
	if s == "-" {
		return nil
	}
	b, err := hex.DecodeString(s)
	if err != nil {
		panic("bad hex in script: " + s)
	}
	return b
}

// ---- an independent frame writer for the generator (not the library's encoder) -------------------

type wsdGenFrame struct {
	b0      byte // fin/rsv/opcode
	masked  bool
	mask    [4]byte
	form    int    // 0 = 7-bit, 1 = 16-bit, 2 = 64-bit length form
	declLen uint64 // declared payload length
	body    int    // payload bytes actually present (< declLen for truncated frames)
}

func (g wsdGenFrame) bytes(r *rng) []byte {
	var out []byte
	out = append(out, g.b0)
	b1 := byte(0)
	if g.masked {
		b1 = 0x80
	}
	switch g.form {
	case 0:
		out = append(out, b1|byte(g.declLen&0x7f))
	case 1:
		out = append(out, b1|126)
		out = binary.BigEndian.AppendUint16(out, uint16(g.declLen))
	default:
		out = append(out, b1|127)
		out = binary.BigEndian.AppendUint64(out, g.declLen)
	}
	if g.masked {
		out = append(out, g.mask[:]...)
	}
	out = append(out, r.bytes(g.body)...)
	return out
}

// wsdecodeValidFrame draws a frame whose declared length is in one of the property's length classes.
func wsdecodeFrame(r *rng, max int) wsdGenFrame {
	g := wsdGenFrame{b0: byte(r.next())}
	if r.intn(3) == 0 { // canonical header bytes more often than not
		g.b0 = byte(0x80 | r.pick(0, 1, 2, 8, 9, 10))
	}
	g.masked = r.intn(2) == 0
	copy(g.mask[:], r.bytes(4))
	classes := []uint64{0, 1, 2, 125, 126, 127, 200, 65535, 65536, uint64(max), uint64(max) - 1}
	var n uint64
	for tries := 0; tries < 8; tries++ { // mostly lengths the decoder accepts
		n = classes[r.intn(len(classes))]
		if max >= 0 && n <= uint64(max) {
			break
		}
		n = 0
	}
	switch r.intn(24) {
	case 0: // huge declared lengths: header only, the decoder must refuse before buffering
		n = []uint64{1 << 63, 1<<63 + 1, ^uint64(0), 1<<63 - 1, 1 << 32, 1 << 62, 0x8000000000000000 + uint64(r.intn(1<<20))}[r.intn(7)]
	case 1:
		n = uint64(max) + 1
	case 2:
		n = classes[r.intn(len(classes))]
	case 3, 4:
		n = uint64(r.intn(300))
	}
	if max > 1<<20 && n+1 >= uint64(max) && n <= uint64(max) { // never make the decoder buffer for gigabytes
		n = uint64(r.intn(130))
	}
	g.declLen = n
	switch {
	case n > 65535:
		g.form = 2
	case n > 125:
		g.form = 1
	default:
		g.form = 0
	}
	if r.intn(10) == 0 && g.form < 2 { // a longer than necessary length form (the decoder accepts it)
		g.form += 1 + r.intn(2-g.form)
	}
	g.body = int(n)
	if n > uint64(max) || n > 1<<20 {
		g.body = r.intn(20) // refused: a few trailing bytes only
	}
	return g
}

func wsdecodeSplit(r *rng, data []byte) [][]byte {
	var segs [][]byte
	for len(data) > 0 {
		var k int
		switch r.intn(6) {
		case 0:
			k = 1
		case 1:
			k = 1 + r.intn(4)
		case 2:
			k = 1 + r.intn(16)
		case 3:
			k = len(data)
		default:
			k = 1 + r.intn(len(data))
		}
		if k > len(data) {
			k = len(data)
		}
		segs = append(segs, data[:k])
		data = data[k:]
	}
	return segs
}

func wsdecodeGen(r *rng, maxops int, w *bufio.Writer) {
	max := r.pick(0, 1, 125, 126, 127, 200, 200, 300, 1000, 600)
	if r.intn(100) == 0 {
		max = r.pick(65535, 65536, 70000)
	}
	if r.intn(400) == 0 {
		max = websocket.DefaultMaxMessageSize
	}
	if r.intn(40) == 0 {
		max = r.pick(-1, -5, 1<<31)
	}
	reserve := r.pick(0, 0, 4096, 4096, 100, 513)
	fmt.Fprintf(w, "! new %d %d\n", max, reserve)
	feedOp := r.pick(0, 0, 1, 2) // 0 = feed, 1 = read, 2 = mixed
	nframes := 1 + r.intn(4)
	if maxops < 10 {
		nframes = 1
	}
	big := 0
	var data []byte
	for i := 0; i < nframes; i++ {
		switch r.intn(12) {
		case 0: // hostile: random bytes
			data = append(data, r.bytes(1+r.intn(24))...)
		case 1: // the library's own encoder (decode what the encoder produced)
			if len(data) > 0 {
				wsdecodeEmit(r, w, data, feedOp)
				data = nil
			}
			n := r.pick(0, 1, 125, 126, 127, 200, max, max+1, max-1)
			if r.intn(12) == 0 {
				n = r.pick(65535, 65536)
			}
			if r.intn(5) == 0 {
				// frames that end within a few bytes of the capacity the write buffer has (512, then what append grows it to)
				n = r.pick(490, 1130, 1260, 4070) + r.intn(30)
			}
			if n < 0 {
				n = 0
			}
			if n > 70001 {
				n = 3
			}
			masked := r.intn(2)
			fmt.Fprintf(w, "! encfeed %d %d %d %d %d %d %s %s\n", r.intn(2), r.intn(2), r.intn(2), r.intn(2), r.intn(16), masked,
				wsdHex(r.bytes(4*masked)), wsdHex(r.bytes(n)))
			wsdecodeDrain(r, w)
		default:
			g := wsdecodeFrame(r, max)
			if g.body > 4096 {
				big++
				if big > 1 {
					g.declLen, g.body, g.form = 5, 5, 0
				}
			}
			data = append(data, g.bytes(r)...)
		}
	}
	if r.intn(8) == 0 && len(data) > 0 { // truncated tail
		data = data[:len(data)-1-r.intn(len(data))]
	}
	wsdecodeEmit(r, w, data, feedOp)
	fmt.Fprintf(w, "! decode\n! decode\n")
}

// wsdecodeEmit writes the byte string as segments, decoding after each one.
func wsdecodeEmit(r *rng, w *bufio.Writer, data []byte, feedOp int) {
	for _, seg := range wsdecodeSplit(r, data) {
		op := "feed"
		if feedOp == 1 || (feedOp == 2 && r.intn(2) == 0) {
			op = "read"
		}
		fmt.Fprintf(w, "! %s %s\n", op, wsdHex(seg))
		if r.intn(6) == 0 { // the caller commits (part of) what was received, or more than that
			fmt.Fprintf(w, "! commit %d\n", r.pick(len(seg), 1+r.intn(len(seg)+1), 1<<20, len(seg)+r.intn(40), 0, -1))
		}
		if r.intn(5) != 0 {
			wsdecodeDrain(r, w)
		}
	}
	// let the backlog of partial reads drain
	if feedOp != 0 {
		for i := 0; i < 3; i++ {
			fmt.Fprintf(w, "! read -\n")
			wsdecodeDrain(r, w)
		}
	}
}

func wsdecodeDrain(r *rng, w *bufio.Writer) {
	for i, n := 0, 1+r.intn(4); i < n; i++ {
		fmt.Fprintf(w, "! decode\n")
	}
}

// enum <family>: short canonical byte strings at every split into two and three segments, and every
// composition into segments for the shortest ones; decoding is run to exhaustion after every segment.
func wsdecodeEnum(args []string, w *bufio.Writer) {
	limit := atoi(args[0]) // compositions are enumerated for strings up to this length
	strs := []string{
		"8100",                       // empty text
		"810548656c6c6f",             // "Hello"
		"818537fa213d7f9f4d5158",     // masked "Hello"
		"0103486578" + "8002abcd",    // fragmented
		"8900" + "8a00" + "880203e8", // ping, pong, close
		"827e00051122334455",         // 16-bit form of a short length
		"827f00000000000000021122",   // 64-bit form of a short length
		"827f8000000000000000",       // 2^63
		"82ffffffffffffffffff01020304",
		"827e00c9",                // 201 > max 200
		"82fe00c801020304",        // masked 200, body missing
		"f1050102030405" + "7200", // rsv bits, reserved opcodes
	}
	k := 0
	emit := func(segs [][]byte) {
		fmt.Fprintf(w, "# script %d\n! new 200 0\n", k)
		k++
		for i, s := range segs {
			op := "feed"
			if (k+i)%3 == 0 {
				op = "read"
			}
			fmt.Fprintf(w, "! %s %s\n", op, wsdHex(s))
			if (k+2*i)%5 == 0 {
				fmt.Fprintf(w, "! commit %d\n", 1<<20)
			}
			fmt.Fprintf(w, "! decode\n! decode\n! decode\n! decode\n")
		}
	}
	for _, hs := range strs {
		b := wsdUnhex(hs)
		n := len(b)
		if n <= limit {
			for m := 0; m < 1<<(n-1); m++ { // every composition
				var segs [][]byte
				start := 0
				for i := 1; i < n; i++ {
					if m&(1<<(i-1)) != 0 {
						segs = append(segs, b[start:i])
						start = i
					}
				}
				segs = append(segs, b[start:])
				emit(segs)
			}
			continue
		}
		emit([][]byte{b})
		for i := 1; i < n; i++ {
			emit([][]byte{b[:i], b[i:]})
			for j := i + 1; j < n; j++ {
				emit([][]byte{b[:i], b[i:j], b[j:]})
			}
		}
	}
}

// ---- run ---------------------------------------------------------------------------------------

type wsdBacklogReader struct{ b []byte }

func (t *wsdBacklogReader) Read(p []byte) (int, error) {
	n := copy(p, t.b)
	t.b = t.b[n:]
	return n, nil
}

func wsdecodeRun(script []string, w *bufio.Writer) {
	var (
		src, dst *sonic.ByteBuffer
		codec    *websocket.FrameCodec
		tr       = &wsdBacklogReader{}
	)
	buf := func() string {
		return fmt.Sprintf("buf %d %d %d %d", src.SaveLen(), src.ReadLen(), src.WriteLen(), src.Reserved())
	}
	for _, line := range script {
		f := strings.Fields(line)
		fmt.Fprintf(w, "! %s\n", line)
		var out string
		p := guard(func() {
			switch f[0] {
			case "new":
				src, dst = sonic.NewByteBuffer(), sonic.NewByteBuffer()
				if n := atoi(f[2]); n > 0 {
					src.Reserve(n)
				}
				codec = websocket.NewFrameCodec(src, dst, atoi(f[1]))
				tr = &wsdBacklogReader{}
				out = "ok"
			case "feed":
				src.Write(wsdUnhex(f[1]))
				out = "ok"
			case "commit":
				src.Commit(atoi(f[1]))
				out = "ok"
			case "read":
				tr.b = append(tr.b, wsdUnhex(f[1])...)
				n, err := src.ReadFrom(tr)
				if err != nil {
					panic("transport error")
				}
				out = fmt.Sprintf("n %d", n)
			case "decode":
				fr, err := codec.Decode(src)
				switch {
				case err == nil:
					out = "frame " + wsdShowFrame(fr)
				case errors.Is(err, sonicerrors.ErrNeedMore):
					out = "needmore"
				case errors.Is(err, websocket.ErrPayloadOverMaxSize):
					out = "err toobig"
				default:
					out = "err other"
				}
				if err != nil && fr != nil {
					out += " nonnil"
				}
			case "encfeed":
				fr := websocket.NewFrame()
				if f[1] == "1" {
					fr.SetFIN()
				}
				if f[2] == "1" {
					fr.SetRSV1()
				}
				if f[3] == "1" {
					fr.SetRSV2()
				}
				if f[4] == "1" {
					fr.SetRSV3()
				}
				fr.SetOpcode(websocket.Opcode(atoi(f[5])))
				if f[6] == "1" {
					fr.SetIsMasked()
				}
				fr.SetPayload(wsdUnhex(f[8]))
				if f[6] == "1" {
					copy(fr.Mask(), wsdUnhex(f[7]))
				}
				if err := codec.Encode(fr, dst); err != nil {
					panic("encode error")
				}
				wire := append([]byte(nil), dst.Data()...)
				dst.Consume(len(wire))
				if dst.ReadLen() != 0 || dst.WriteLen() != 0 {
					panic("encoder left bytes behind")
				}
				src.Write(wire)
				out = "wire " + wsdHex(wire)
			default:
				panic("bad op " + f[0])
			}
		})
		if p {
			fmt.Fprintf(w, "< panic\n")
			continue
		}
		fmt.Fprintf(w, "? cap %d\n", src.Cap())
		fmt.Fprintf(w, "< %s %s\n", out, buf())
	}
}

// showFrame: fin rsv1 rsv2 rsv3 opcode masked mask len payload
func wsdShowFrame(f websocket.Frame) string {
	b2i := func(b bool) int {
		if b {
			return 1
		}
		return 0
	}
	return fmt.Sprintf("%d %d %d %d %d %d %s %d %s", b2i(f.IsFIN()), b2i(f.IsRSV1()), b2i(f.IsRSV2()), b2i(f.IsRSV3()),
		int(f.Opcode()), b2i(f.IsMasked()), wsdHex(f.Mask()), len(f), wsdHex(f.Payload()))
}

// wsdecodeDirect: a consumer that keeps every decoded frame in the source buffer's save area (src.Save(len(frame)) after each
// Decode) — the model of the decoder has no save area, so this usage is checked here against the generator's own frame
// list: every frame is yielded once, byte-identical, in order; with nothing more received the decoder asks for more and
// invents nothing; the saved frames stay intact.
func wsdecodeDirect(seed uint64, tier string, args []string, w *bufio.Writer) {
	trials := 400
	if tier == "thorough" {
		trials = 6000
	}
	r := newRng(seed*977 + 5)
	side := newRng((seed*977 + 5) ^ 0xd15ca4d)
	fails := 0
	fail := func(key, format string, a ...any) {
		fails++
		fmt.Fprintf(w, "DIRECT-FAIL key=wsdecode.%s %s\n", key, fmt.Sprintf(format, a...))
	}
	for t := 0; t < trials && fails < 3; t++ {
		func() {
			defer func() {
				if p := recover(); p != nil {
					fail("panic", "decoder over a buffer with saved frames panicked: %v", p)
				}
			}()
			max := r.pick(125, 200, 300, 1000)
			src := sonic.NewByteBuffer()
			if r.intn(2) == 0 {
				src.Reserve(4096)
			}
			codec := websocket.NewFrameCodec(src, sonic.NewByteBuffer(), max)
			var frames [][]byte
			var wire []byte
			for i, n := 0, 1+r.intn(5); i < n; i++ {
				g := wsdGenFrame{b0: byte(0x80*r.intn(2) | r.pick(0, 1, 2, 9, 10)), masked: r.intn(2) == 0}
				copy(g.mask[:], r.bytes(4))
				g.declLen = uint64(minInt(r.pick(0, 1, 2, 5, 125, 126, 127, max), max))
				g.body = int(g.declLen)
				if g.declLen > 125 {
					g.form = 1
				}
				b := g.bytes(r)
				frames = append(frames, b)
				wire = append(wire, b...)
			}
			segs := wsdecodeSplit(r, wire)
			var slots []sonic.Slot
			var kept []int
			discards := t%2 == 1
			discarded := 0
			next := 0
			for guard := 0; guard < 10*len(wire)+20; guard++ {
				f, err := codec.Decode(src)
				if err == nil && f != nil {
					if next >= len(frames) || !bytes.Equal(f, frames[next]) {
						fail("saved-frames", "frame %d yielded over a buffer with %d saved frames differs from what was received (got %d bytes %x…)", next, len(slots), len(f), f[:minInt(len(f), 8)])
						return
					}
					next++
					sl := src.Save(len(f))
					if discards && side.intn(2) == 0 {
						// a consumer that is done with the saved copy at once: Discard closes the gap under whatever has been
						// received behind the frame (committed or not) — the next Decode must find the next frame there
						if !bytes.Equal(src.SavedSlot(sl), frames[next-1]) {
							fail("saved-frames", "frame %d as saved differs from what was received", next-1)
							return
						}
						src.Discard(sl)
						discarded++
						continue
					}
					slots = append(slots, sl)
					kept = append(kept, next-1)
					continue
				}
				if !errors.Is(err, sonicerrors.ErrNeedMore) {
					fail("saved-frames", "unexpected error %v after %d frames", err, next)
					return
				}
				if len(segs) == 0 {
					break
				}
				src.Write(segs[0])
				segs = segs[1:]
			}
			if next != len(frames) {
				fail("saved-frames", "%d of %d received frames were yielded", next, len(frames))
				return
			}
			for i := 0; i < 3; i++ {
				if f, err := codec.Decode(src); f != nil || !errors.Is(err, sonicerrors.ErrNeedMore) {
					fail("saved-frames", "with nothing more received Decode returned a frame of %d bytes / %v", len(f), err)
					return
				}
			}
			for i, sl := range slots {
				if !bytes.Equal(src.SavedSlot(sl), frames[kept[i]]) {
					fail("saved-frames", "saved frame %d changed", i)
					return
				}
			}
		}()
	}
	// Frame.ReadFrom (the frame's own decoder, for applications that read frames from an io.Reader): one Frame object reused for a
	// sequence of frames of every length class, masked and not, produced by the independent encoder — each decodes to what was sent
	readFrom := 0
	var rfHist []string
	func() {
		defer func() {
			if p := recover(); p != nil {
				fail("panic", "Frame.ReadFrom on a reused frame panicked: %v (payload sizes so far: %v)", p, rfHist)
			}
		}()
		for round := 0; round < 40 && fails < 3; round++ {
			fr := websocket.NewFrame()
			var hist []int
			for i := 0; i < 12; i++ {
				n := r.pick(0, 1, 2, 5, 9, 125, 126, 127, 300, 4096, 65535, 65536, 70000, r.intn(200))
				masked := r.intn(2) == 0
				op := r.pick(1, 2, 9, 10, 0)
				if op >= 8 && n > 125 {
					n = r.intn(126)
				}
				payload := r.bytes(n)
				wire := wsEncodePeer(true, 0, op, false, payload)
				if masked {
					// the same frame with the mask bit, a key and the payload XORed with it (RFC 6455 5.3)
					key := []byte{byte(r.next()), byte(r.next()), byte(r.next()), byte(r.next())}
					hl := len(wire) - len(payload)
					m := append([]byte(nil), wire[:hl]...)
					m[1] |= 0x80
					m = append(m, key...)
					for j, x := range payload {
						m = append(m, x^key[j%4])
					}
					wire = m
				}
				hist = append(hist, n)
				rfHist = append(rfHist, fmt.Sprintf("%d/op%d/m%v", n, op, masked))
				if i == 0 {
					rfHist = rfHist[len(rfHist)-1:]
				}
				got, err := fr.ReadFrom(bytes.NewReader(wire))
				readFrom++
				pl := fr.Payload()
				if err == nil && fr.IsMasked() {
					fr.UnmaskPayload()
					pl = fr.Payload()
				}
				if n == 0 {
					// (observed on the unchanged tree: after an empty frame Payload() of a reused Frame still shows the previous
					// frame's bytes — PayloadLength() is 0; the comparison goes by the declared length)
					pl = pl[:0]
				}
				if err != nil || int(got) != len(wire) || !fr.IsFIN() || int(fr.Opcode()) != op || fr.IsMasked() != masked || fr.PayloadLength() != n || !bytes.Equal(pl, payload) {
					fail("frame", "Frame.ReadFrom on a frame object reused for payloads of %v bytes: the last one (opcode %d, masked=%v) decoded with err=%v, %d of %d bytes consumed, declared length %d, payload equal=%v",
						hist, op, masked, err, got, len(wire), fr.PayloadLength(), bytes.Equal(pl, payload))
					break
				}
			}
		}
	}()
	fmt.Fprintf(w, "DIRECT-STAT {\"wsdecode_saved_frame_trials\": %d, \"wsdecode_frame_readfrom_calls\": %d, \"wsdecode_saved_frame_failures\": %d}\n", trials, readFrom, fails)
}
