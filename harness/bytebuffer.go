package main

// Component "bytebuffer" (property C09): drives the real sonic.ByteBuffer.
//
// Script lines (one call each; the first line of a script is "new"):
//
//	reserve N | commit N | consume N | save N | discard I L | discardall | savedslot I L | reset
//	read N | readbyte | readfrom N SEED ERR | unreadbyte | write HEX | writebyte HH | writestring HEX
//	awriteto n:f,... | areadfrom N SEED   AsyncWriteTo / AsyncReadFrom over callees that complete inside the call (traced as
//	                                      writeto / readfrom: same outcome)
//	writeto n:f,n:f,... | prepareread N | claim RET SEED | claimfixed N SEED | shrinkby N | shrinkto N
//
// Integer arguments may be symbolic: SL RL WL (SaveLen/ReadLen/WriteLen), R (Reserved), L (Len), MAX, MIN,
// optionally followed by /2 and/or +k / -k.  Byte strings may be "*N:SS" (N pattern bytes starting at 0xSS).
// Symbols are resolved against the live buffer just before the call and the *resolved* line is what is
// echoed into the trace, so traces (and replays, and shrunk scripts) are self-contained.
//
// Trace per call:  "! <resolved call>", "? cap=<Cap() after the call>", then
// "< <ret> ; saved=<hex> data=<hex> pend=<hex> len=<Len> cap=<Cap> rsv=<Reserved>".  A panicking call
// prints "< panic" and ends the script, except Reserve (which must leave the buffer untouched): there
// the buffer is still read back and the script goes on.

import (
	"bufio"
	"encoding/hex"
	"errors"
	"fmt"
	"io"
	"math"
	"strconv"
	"strings"

	"github.com/talostrading/sonic"
	"github.com/talostrading/sonic/sonicerrors"
)

func init() {
	components["bytebuffer"] = &component{gen: bbGen, enum: bbEnum, run: bbRun, direct: bbDirect}
}

// ---- scripted callees ----------------------------------------------------------------------------

var errScripted = errors.New("scripted failure")

func fillPattern(p []byte, seed byte) {
	for i := range p {
		p[i] = seed + byte(i)
	}
}

type scriptedReader struct {
	n    int
	seed byte
	err  error
}

func (r *scriptedReader) Read(p []byte) (int, error) {
	if r.err != nil {
		return r.n, r.err
	}
	fillPattern(p, r.seed)
	if r.n < len(p) {
		return r.n, nil
	}
	return len(p), nil
}

type wresp struct {
	n    int
	fail bool
}

type scriptedWriter struct {
	resps []wresp
	out   []byte
}

func (w *scriptedWriter) Write(p []byte) (int, error) {
	if len(w.resps) == 0 {
		w.out = append(w.out, p...)
		return len(p), nil
	}
	r := w.resps[0]
	w.resps = w.resps[1:]
	if r.fail {
		return 0, errScripted
	}
	k := r.n
	if k > len(p) {
		k = len(p)
	}
	w.out = append(w.out, p[:k]...)
	return k, nil
}

// asynchronous twins of the scripted callees: they complete inside the call
type scriptedAsyncWriter struct{ w *scriptedWriter }

func (a scriptedAsyncWriter) AsyncWrite(p []byte, cb sonic.AsyncCallback) {
	n, err := a.w.Write(p)
	cb(err, n)
}

func (a scriptedAsyncWriter) AsyncWriteAll(p []byte, cb sonic.AsyncCallback) {
	done := 0
	for done < len(p) {
		n, err := a.w.Write(p[done:])
		done += n
		if err != nil {
			cb(err, done)
			return
		}
	}
	cb(nil, done)
}

type scriptedAsyncReader struct{ r *scriptedReader }

func (a scriptedAsyncReader) AsyncRead(p []byte, cb sonic.AsyncCallback) {
	n, err := a.r.Read(p)
	cb(err, n)
}

func (a scriptedAsyncReader) AsyncReadAll(p []byte, cb sonic.AsyncCallback) {
	n, err := a.r.Read(p)
	cb(err, n)
}

// ---- run ----------------------------------------------------------------------------------------

func hx(b []byte) string {
	if len(b) == 0 {
		return "-"
	}
	return hex.EncodeToString(b)
}

func errName(err error) string {
	switch {
	case err == nil:
		return "nil"
	case err == io.EOF:
		return "eof"
	case errors.Is(err, sonicerrors.ErrNeedMore):
		return "needmore"
	default:
		return "other"
	}
}

// resolveInt evaluates an integer argument: INT | SYM[/2][+k|-k].
func resolveInt(b *sonic.ByteBuffer, s string) int {
	if v, err := strconv.ParseInt(s, 10, 64); err == nil {
		return int(v)
	}
	i := 0
	for i < len(s) && s[i] >= 'A' && s[i] <= 'Z' {
		i++
	}
	var v int
	switch s[:i] {
	case "SL":
		v = b.SaveLen()
	case "RL":
		v = b.ReadLen()
	case "WL":
		v = b.WriteLen()
	case "R":
		v = b.Reserved()
	case "L":
		v = b.Len()
	case "MAX":
		v = math.MaxInt64
	case "MIN":
		v = math.MinInt64
	default:
		panic("bad symbol in script: " + s)
	}
	rest := s[i:]
	if strings.HasPrefix(rest, "/2") {
		v /= 2
		rest = rest[2:]
	}
	if rest != "" {
		k, err := strconv.ParseInt(rest, 10, 64)
		if err != nil {
			panic("bad integer expression in script: " + s)
		}
		v += int(k) // wraps like Go
	}
	return v
}

func resolveNat(b *sonic.ByteBuffer, s string) int {
	v := resolveInt(b, s)
	if v < 0 {
		return 0
	}
	if v > 1<<22 {
		return 1 << 22
	}
	return v
}

func resolveBytes(s string) []byte {
	if s == "-" {
		return nil
	}
	if strings.HasPrefix(s, "*") {
		parts := strings.Split(s[1:], ":")
		n := atoi(parts[0])
		seed, _ := strconv.ParseUint(parts[1], 16, 8)
		p := make([]byte, n)
		fillPattern(p, byte(seed))
		return p
	}
	b, err := hex.DecodeString(s)
	if err != nil {
		panic("bad hex in script: " + s)
	}
	return b
}

func resolveByte(s string) byte {
	v, err := strconv.ParseUint(s, 16, 8)
	if err != nil {
		panic("bad byte in script: " + s)
	}
	return byte(v)
}

func parseResps(s string) []wresp {
	if s == "-" {
		return nil
	}
	var out []wresp
	for _, t := range strings.Split(s, ",") {
		p := strings.Split(t, ":")
		out = append(out, wresp{n: atoi(p[0]), fail: p[1] == "1"})
	}
	return out
}

func parseErrName(s string) error {
	switch s {
	case "nil":
		return nil
	case "eof":
		return io.EOF
	case "needmore":
		return sonicerrors.ErrNeedMore
	default:
		return errScripted
	}
}

func bbDump(b *sonic.ByteBuffer) (out string) {
	out = "nodump"
	guard(func() {
		sl, rl, wl := b.SaveLen(), b.ReadLen(), b.WriteLen()
		saved, data := b.Saved(), b.Data()
		if len(saved) != sl || len(data) != rl {
			out = "inconsistent-accessors"
			return
		}
		pend := data[len(data) : len(data)+wl] // the write area lies directly behind the read area
		out = fmt.Sprintf("saved=%s data=%s pend=%s len=%d cap=%d rsv=%d", hx(saved), hx(data), hx(pend), b.Len(), b.Cap(), b.Reserved())
	})
	return
}

func bbRun(script []string, w *bufio.Writer) {
	var b *sonic.ByteBuffer
	for _, line := range script {
		f := strings.Fields(line)
		if f[0] == "new" {
			b = sonic.NewByteBuffer()
			fmt.Fprintf(w, "! new\n? cap=%d\n< unit ; %s\n", b.Cap(), bbDump(b))
			continue
		}
		if b == nil {
			b = sonic.NewByteBuffer()
		}
		// resolve symbolic arguments against the live buffer; a panic here means the buffer can no
		// longer be read back, which the previous line already reported
		var resolved string
		var call func() string
		if guard(func() { resolved, call = bbPrepare(b, f) }) {
			return
		}
		fmt.Fprintf(w, "! %s\n", resolved)
		var ret string
		p := guard(func() { ret = call() })
		capAfter := 0
		guard(func() { capAfter = b.Cap() })
		fmt.Fprintf(w, "? cap=%d\n", capAfter)
		if p {
			if f[0] == "reserve" {
				fmt.Fprintf(w, "< panic ; %s\n", bbDump(b))
				continue
			}
			fmt.Fprintf(w, "< panic\n")
			return
		}
		d := bbDump(b)
		fmt.Fprintf(w, "< %s ; %s\n", ret, d)
		if d == "nodump" {
			return
		}
	}
}

// bbPrepare resolves the arguments of one script line and returns the resolved line and the call.
func bbPrepare(b *sonic.ByteBuffer, f []string) (string, func() string) {
	switch f[0] {
	case "reserve":
		n := resolveInt(b, f[1])
		return fmt.Sprintf("reserve %d", n), func() string { b.Reserve(n); return "unit" }
	case "prefault":
		// Prefault() zeroes the whole capacity: only meaningful (and only made) while nothing is buffered; then it leaves the three
		// regions as they are, like Reserve(0) — which is what the model is told. With bytes buffered the call is not made.
		return "prefault", func() string {
			if b.Len() == 0 {
				b.Prefault()
			}
			return "unit"
		}
	case "commit":
		n := resolveInt(b, f[1])
		return fmt.Sprintf("commit %d", n), func() string { b.Commit(n); return "unit" }
	case "consume":
		n := resolveInt(b, f[1])
		return fmt.Sprintf("consume %d", n), func() string { b.Consume(n); return "unit" }
	case "save":
		n := resolveInt(b, f[1])
		return fmt.Sprintf("save %d", n), func() string {
			s := b.Save(n)
			return fmt.Sprintf("slot %d %d", s.Index, s.Length)
		}
	case "discard":
		i, l := resolveInt(b, f[1]), resolveInt(b, f[2])
		return fmt.Sprintf("discard %d %d", i, l), func() string {
			return fmt.Sprintf("int %d", b.Discard(sonic.Slot{Index: i, Length: l}))
		}
	case "discardall":
		return "discardall", func() string { b.DiscardAll(); return "unit" }
	case "savedslot":
		i, l := resolveInt(b, f[1]), resolveInt(b, f[2])
		return fmt.Sprintf("savedslot %d %d", i, l), func() string {
			s := b.SavedSlot(sonic.Slot{Index: i, Length: l})
			if i+l > b.Len() {
				return "bytes ?" // reaches into memory behind len(data): contents are not part of the buffer
			}
			return "bytes " + hx(s)
		}
	case "reset":
		return "reset", func() string { b.Reset(); return "unit" }
	case "read":
		n := resolveNat(b, f[1])
		return fmt.Sprintf("read %d", n), func() string {
			dst := make([]byte, n)
			k, err := b.Read(dst)
			return fmt.Sprintf("rd %d %s %s", k, hx(dst[:k]), errName(err))
		}
	case "readbyte":
		return "readbyte", func() string {
			x, err := b.ReadByte()
			if err != nil {
				return "rb - " + errName(err)
			}
			return fmt.Sprintf("rb %02x nil", x)
		}
	case "readfrom":
		n, seed, e := resolveNat(b, f[1]), resolveByte(f[2]), parseErrName(f[3])
		return fmt.Sprintf("readfrom %d %02x %s", n, seed, errName(e)), func() string {
			k, err := b.ReadFrom(&scriptedReader{n: n, seed: seed, err: e})
			return fmt.Sprintf("nerr %d %s", k, errName(err))
		}
	case "unreadbyte":
		return "unreadbyte", func() string { return "err " + errName(b.UnreadByte()) }
	case "write":
		bs := resolveBytes(f[1])
		return "write " + hx(bs), func() string {
			k, err := b.Write(bs)
			return fmt.Sprintf("nerr %d %s", k, errName(err))
		}
	case "writebyte":
		x := resolveByte(f[1])
		return fmt.Sprintf("writebyte %02x", x), func() string { return "err " + errName(b.WriteByte(x)) }
	case "writestring":
		bs := resolveBytes(f[1])
		return "writestring " + hx(bs), func() string {
			k, err := b.WriteString(string(bs))
			return fmt.Sprintf("nerr %d %s", k, errName(err))
		}
	case "writeto":
		resps := parseResps(f[1])
		return "writeto " + f[1], func() string {
			sw := &scriptedWriter{resps: resps}
			k, err := b.WriteTo(sw)
			return fmt.Sprintf("wt %d %s %s", k, hx(sw.out), errName(err))
		}
	case "awriteto":
		// AsyncWriteTo over an asynchronous writer that completes inside the call and never fails (with a failing writer the
		// asynchronous variant keeps what was delivered, by its documentation): same outcome as WriteTo, traced as such
		resps := parseResps(f[1])
		for i := range resps {
			resps[i].fail = false
		}
		plan := make([]string, len(resps))
		for i, r := range resps {
			plan[i] = fmt.Sprintf("%d:0", r.n)
		}
		planText := "-"
		if len(plan) > 0 {
			planText = strings.Join(plan, ",")
		}
		return "writeto " + planText, func() string {
			sw := &scriptedWriter{resps: resps}
			k, calls := 0, 0
			var cerr error
			b.AsyncWriteTo(scriptedAsyncWriter{sw}, func(err error, n int) { k, cerr, calls = n, err, calls+1 })
			if calls != 1 {
				return fmt.Sprintf("wt %d %s callback-ran-%d-times", k, hx(sw.out), calls)
			}
			return fmt.Sprintf("wt %d %s %s", k, hx(sw.out), errName(cerr))
		}
	case "areadfrom":
		n, seed := resolveNat(b, f[1]), resolveByte(f[2])
		return fmt.Sprintf("readfrom %d %02x %s", n, seed, errName(nil)), func() string {
			k, calls := 0, 0
			var cerr error
			b.AsyncReadFrom(scriptedAsyncReader{&scriptedReader{n: n, seed: seed}}, func(err error, m int) { k, cerr, calls = m, err, calls+1 })
			if calls != 1 {
				return fmt.Sprintf("nerr %d callback-ran-%d-times", k, calls)
			}
			return fmt.Sprintf("nerr %d %s", k, errName(cerr))
		}
	case "prepareread":
		n := resolveInt(b, f[1])
		return fmt.Sprintf("prepareread %d", n), func() string { return "err " + errName(b.PrepareRead(n)) }
	case "claim":
		ret, seed := resolveInt(b, f[1]), resolveByte(f[2])
		return fmt.Sprintf("claim %d %02x", ret, seed), func() string {
			b.Claim(func(p []byte) int { fillPattern(p, seed); return ret })
			return "unit"
		}
	case "claimfixed":
		n, seed := resolveInt(b, f[1]), resolveByte(f[2])
		return fmt.Sprintf("claimfixed %d %02x", n, seed), func() string {
			s := b.ClaimFixed(n)
			fillPattern(s, seed)
			return fmt.Sprintf("claimed %d", len(s))
		}
	case "shrinkby":
		n := resolveInt(b, f[1])
		return fmt.Sprintf("shrinkby %d", n), func() string { return fmt.Sprintf("int %d", b.ShrinkBy(n)) }
	case "shrinkto":
		n := resolveInt(b, f[1])
		return fmt.Sprintf("shrinkto %d", n), func() string { return fmt.Sprintf("int %d", b.ShrinkTo(n)) }
	}
	panic("bad op " + f[0])
}

// ---- gen ----------------------------------------------------------------------------------------

// count picks an argument around the length named by sym: mostly valid, biased to the boundaries,
// sometimes hostile.  None of the calls it is used for allocates, so huge values are safe.
func bbCount(r *rng, sym string) string {
	switch r.intn(20) {
	case 0:
		return "0"
	case 1:
		return "-1"
	case 2, 3, 4:
		return sym
	case 5, 6:
		return sym + "+1"
	case 7, 8:
		return sym + "-1"
	case 9, 10:
		return sym + "/2"
	case 11:
		return []string{"MAX", "MIN", "MAX-1", "MIN+1", "MIN+2", "MIN+3", "4294967296", "-4294967296", "4611686018427387904"}[r.intn(9)]
	case 12:
		return sym + "+" + strconv.Itoa(2+r.intn(600))
	default:
		return strconv.Itoa(1 + r.intn(6))
	}
}

// claim sizes: mostly small (every claimed byte is echoed in every later line of the trace), the
// boundary "exactly the room" / "one more than the room" regularly, hostile values sometimes.
func bbClaimArg(r *rng) string {
	switch r.intn(16) {
	case 0:
		return "R"
	case 1, 2:
		return "R+1"
	case 3:
		return []string{"R-1", "R/2", "R+2"}[r.intn(3)]
	case 4:
		return []string{"MAX", "MIN", "-1", "MAX-1", "4294967296", "4611686018427387904"}[r.intn(6)]
	case 5:
		return "0"
	default:
		return strconv.Itoa(1 + r.intn(9))
	}
}

func bbPayload(r *rng) string {
	n := []int{0, 1, 1, 2, 2, 3, 3, 4, 5, 6, 8, 8, 13, 16}[r.intn(14)]
	if r.intn(14) == 0 {
		// occasionally large, to cross the initial capacity (512) and force reallocation
		n = []int{40, 100, 300, 511, 512, 513, 700, 2100}[r.intn(8)]
	}
	if n <= 16 {
		return hx(r.bytes(n))
	}
	return fmt.Sprintf("*%d:%02x", n, r.intn(256))
}

func bbSlot(r *rng, forDiscard bool) (string, string) {
	// forms that are inside the save area (or have a non-positive length) whatever SaveLen is
	safe := [][2]string{{"0", "SL"}, {"0", "SL"}, {"0", "SL/2"}, {"SL/2", "SL/2"}, {"1", "SL/2"}, {"1", "SL-2"}, {"1", "SL-2"},
		{"2", "SL-3"}, {"1", "SL-1"}, {"0", "SL-1"}, {"3", "SL/2-1"}, {"SL/2", "0"}, {"SL", "0"}, {"0", "0"}, {"2", "-1"}, {"0", "MIN"}}
	// valid for most non-empty save areas
	likely := [][2]string{{"0", "1"}, {"1", "1"}, {"SL-1", "1"}, {"SL/2", "1"}, {"2", "2"}, {"0", "2"}}
	// not inside the save area (outside the property; model and code must still agree)
	hostile := [][2]string{{"0", "SL+1"}, {"-1", "1"}, {"SL", "1"}, {"MAX", "1"}, {"1", "MAX"}, {"MIN", "MAX"}, {"SL-1", "2"},
		{"SL/2", "SL"}, {"0", "L"}, {"0", "L+1"}, {"SL", "WL"}, {"4294967296", "1"}}
	if !forDiscard {
		// SavedSlot does not ignore non-positive lengths
		safe = [][2]string{{"0", "SL"}, {"0", "SL"}, {"0", "SL/2"}, {"SL/2", "SL/2"}, {"SL/2", "0"}, {"SL", "0"}, {"0", "0"}}
	}
	var s [2]string
	switch k := r.intn(40); {
	case k < 35:
		s = safe[r.intn(len(safe))]
	case k < 39:
		s = likely[r.intn(len(likely))]
	default:
		s = hostile[r.intn(len(hostile))]
	}
	return s[0], s[1]
}

func bbReserveArg(r *rng) string {
	switch r.intn(16) {
	case 0:
		return "0"
	case 1:
		return "-1"
	case 2:
		return "MIN"
	case 3, 4:
		return "R"
	case 5, 6, 7:
		return "R+1"
	case 8:
		return "R-1"
	case 9:
		// beyond what the allocator can ever provide: panics inside append (never between 2^31 and 2^48:
		// such an allocation would be attempted for real)
		return []string{"MAX", "MAX-1", "4611686018427387904", "562949953421312"}[r.intn(4)]
	case 10:
		return "R+" + strconv.Itoa(1+r.intn(3000))
	default:
		return strconv.Itoa(1 + r.intn(900))
	}
}

func bbResps(r *rng) string {
	k := r.intn(5)
	if k == 0 {
		return "-"
	}
	var parts []string
	for i := 0; i < k; i++ {
		fail := 0
		if r.intn(7) == 0 {
			fail = 1
		}
		parts = append(parts, fmt.Sprintf("%d:%d", []int{0, 1, 1, 2, 3, 5, 100, 4000}[r.intn(8)], fail))
	}
	return strings.Join(parts, ",")
}

func bbGenOp(r *rng, w *bufio.Writer) {
	seed := func() string { return fmt.Sprintf("%02x", r.intn(256)) }
	switch r.intn(40) {
	case 0, 1, 2, 3, 4:
		fmt.Fprintf(w, "! write %s\n", bbPayload(r))
	case 5:
		fmt.Fprintf(w, "! writebyte %s\n", seed())
	case 6:
		fmt.Fprintf(w, "! writestring %s\n", bbPayload(r))
	case 7, 8, 9, 10, 11:
		fmt.Fprintf(w, "! commit %s\n", bbCount(r, "WL"))
	case 12, 13, 14:
		fmt.Fprintf(w, "! consume %s\n", bbCount(r, "RL"))
	case 15, 16, 17:
		fmt.Fprintf(w, "! save %s\n", bbCount(r, "RL"))
	case 18, 19, 20:
		i, l := bbSlot(r, true)
		fmt.Fprintf(w, "! discard %s %s\n", i, l)
	case 21:
		if r.intn(3) == 0 {
			fmt.Fprintf(w, "! discardall\n")
		} else {
			i, l := bbSlot(r, false)
			fmt.Fprintf(w, "! savedslot %s %s\n", i, l)
		}
	case 22:
		if r.intn(6) == 0 {
			fmt.Fprintf(w, "! reset\n")
		} else {
			fmt.Fprintf(w, "! unreadbyte\n")
		}
	case 23, 24:
		fmt.Fprintf(w, "! read %s\n", []string{"0", "1", "2", "RL", "RL+1", "RL-1", "RL/2", "8", "1000"}[r.intn(9)])
	case 25, 26:
		fmt.Fprintf(w, "! readbyte\n")
	case 27, 28:
		e := []string{"nil", "nil", "nil", "nil", "eof", "other"}[r.intn(6)]
		if e == "nil" && r.intn(3) == 0 {
			fmt.Fprintf(w, "! areadfrom %s %s\n", []string{"0", "1", "3", "7", "R", "R+1", "R-1", "R/2", "100", "5000"}[r.intn(10)], seed())
			break
		}
		fmt.Fprintf(w, "! readfrom %s %s %s\n", []string{"0", "1", "3", "7", "R", "R+1", "R-1", "R/2", "100", "5000"}[r.intn(10)], seed(), e)
	case 29, 30:
		if r.intn(3) == 0 {
			fmt.Fprintf(w, "! awriteto %s\n", bbResps(r))
			break
		}
		fmt.Fprintf(w, "! writeto %s\n", bbResps(r))
	case 31, 32:
		fmt.Fprintf(w, "! prepareread %s\n", []string{"RL", "RL+1", "RL-1", "L", "RL+" + strconv.Itoa(1+r.intn(5)), "0", "-1", "MIN", "MAX", "MIN+1", "1", "3"}[r.intn(12)])
	case 33:
		fmt.Fprintf(w, "! claim %s %s\n", bbClaimArg(r), seed())
	case 34, 35:
		fmt.Fprintf(w, "! claimfixed %s %s\n", bbClaimArg(r), seed())
	case 36:
		fmt.Fprintf(w, "! shrinkby %s\n", bbCount(r, "WL"))
	case 37:
		fmt.Fprintf(w, "! shrinkto %s\n", bbCount(r, "WL"))
	default:
		fmt.Fprintf(w, "! reserve %s\n", bbReserveArg(r))
	}
}

// Script: new, then a mix of single random calls and the documented workflows (write → commit →
// save/consume → discard), so that all three regions are usually non-empty.
func bbGen(r *rng, maxops int, w *bufio.Writer) {
	fmt.Fprintf(w, "! new\n")
	// one script in five starts the documented way for a latency-sensitive application: Reserve, then Prefault (which touches the
	// whole capacity and leaves the three regions as they are: empty); drawn from a generator of its own
	if side := newRng(r.s ^ 0x243f6a8885a308d3); side.intn(5) == 0 {
		if side.intn(2) == 0 {
			fmt.Fprintf(w, "! reserve %d\n", side.pick(1, 100, 513, 4096))
		}
		fmt.Fprintf(w, "! prefault\n")
	}
	n := 1 + r.intn(maxops)
	for i := 0; i < n; i++ {
		switch r.intn(10) {
		case 0:
			fmt.Fprintf(w, "! write %s\n! commit %s\n", bbPayload(r), []string{"WL", "WL-1", "WL/2", "2"}[r.intn(4)])
		case 1:
			fmt.Fprintf(w, "! save %s\n! write %s\n", []string{"1", "2", "RL/2", "RL"}[r.intn(4)], bbPayload(r))
		case 2:
			fmt.Fprintf(w, "! reserve %d\n! claimfixed %s %02x\n", 1+r.intn(40), []string{"3", "1", "2", "5", "8", "R"}[r.intn(6)], r.intn(256))
		default:
			bbGenOp(r, w)
		}
	}
}

// ---- enum ---------------------------------------------------------------------------------------

var bbAlphabets = map[string][]string{
	// every call of the API with boundary arguments
	"full": {
		"write aabb", "writebyte cc", "commit 1", "commit WL", "commit MAX", "commit -1",
		"consume 1", "consume RL+1", "consume MIN", "save 1", "save RL", "save MAX",
		"discard 0 1", "discard 1 1", "discard 0 SL", "discardall", "savedslot 0 SL",
		"read 1", "read RL+1", "readbyte", "readfrom 2 10 nil", "readfrom 2 10 other", "unreadbyte",
		"writeto -", "writeto 1:0,0:1", "prepareread RL+1", "prepareread L", "prepareread MIN",
		"claim 2 20", "claim R+1 20", "claimfixed 2 30", "claimfixed MAX 30", "shrinkby 1", "shrinkby MAX",
		"shrinkto 1", "shrinkto MIN", "reserve R+1", "reset",
	},
	// the calls that move region boundaries, for longer sequences
	"core": {
		"write aabbcc", "commit 2", "commit MAX", "consume 1", "consume MAX", "save 1", "save 2",
		"discard 0 1", "discard 1 1", "readbyte", "claimfixed 2 30", "shrinkto 1", "prepareread RL+1", "writeto 1:0",
	},
}

// enum <alphabet> <depth>: every sequence of <depth> calls over the alphabet, from an empty buffer
// and from one whose three regions are non-empty.
func bbEnum(args []string, w *bufio.Writer) {
	alphabet := bbAlphabets[args[0]]
	depth := atoi(args[1])
	prefixes := [][]string{{}, {"write 0102030405060708", "commit 6", "save 3"}}
	k := 0
	var rec func(seq []string)
	rec = func(seq []string) {
		if len(seq) == depth {
			for _, p := range prefixes {
				fmt.Fprintf(w, "# script %d\n! new\n", k)
				for _, op := range p {
					fmt.Fprintf(w, "! %s\n", op)
				}
				for _, op := range seq {
					fmt.Fprintf(w, "! %s\n", op)
				}
				k++
			}
			return
		}
		for _, op := range alphabet {
			rec(append(seq, op))
		}
	}
	rec(nil)
}
