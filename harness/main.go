// Command harness drives the real sonic packages (from /repo's working tree, built with -tags verif)
// and writes traces for the Lean driver (tie D of /verif/DESIGN.md).
//
//	harness <component> gen  <seed> <nscripts> <maxops>   scripts (only "!" lines) on stdout
//	harness <component> enum <bound...>                   exhaustive small-scope scripts on stdout
//	harness <component> run                               scripts on stdin -> trace ("!", "?", "<" lines) on stdout
//	harness <component> direct <seed> <tier> [args...]    runtime-only checks: DIRECT-FAIL / DIRECT-STAT lines
//
// Scripts are separated by lines "# script <k>".  Every random choice derives from the seed.
package main

import (
	"bufio"
	"fmt"
	"os"
	"strconv"
	"strings"
	"time"
)

type component struct {
	gen  func(r *rng, maxops int, w *bufio.Writer) // one script
	enum func(args []string, w *bufio.Writer)      // many scripts, each preceded by its "# script" line
	run  func(script []string, w *bufio.Writer)    // one script -> trace lines
	// optional: runtime-only checks no model can exhibit; prints DIRECT-FAIL / DIRECT-STAT lines
	direct func(seed uint64, tier string, args []string, w *bufio.Writer)
}

var components = map[string]*component{}

func main() {
	if len(os.Args) < 3 {
		fmt.Fprintln(os.Stderr, "usage: harness <component> gen|enum|run ...")
		os.Exit(2)
	}
	c := components[os.Args[1]]
	if c == nil {
		fmt.Fprintln(os.Stderr, "unknown component", os.Args[1])
		os.Exit(2)
	}
	w := bufio.NewWriterSize(os.Stdout, 1<<20)
	defer w.Flush()
	switch os.Args[2] {
	case "gen":
		seed, _ := strconv.ParseUint(os.Args[3], 10, 64)
		n, _ := strconv.Atoi(os.Args[4])
		maxops, _ := strconv.Atoi(os.Args[5])
		for k := 0; k < n; k++ {
			fmt.Fprintf(w, "# script %d\n", k)
			r := newRng(seed*1000003 + uint64(k))
			c.gen(r, maxops, w)
		}
	case "enum":
		c.enum(os.Args[3:], w)
	case "direct":
		if c.direct == nil || len(os.Args) < 5 {
			fmt.Fprintln(os.Stderr, "component has no direct mode (usage: harness <component> direct <seed> <tier>)")
			os.Exit(2)
		}
		seed, _ := strconv.ParseUint(os.Args[3], 10, 64)
		c.direct(seed, os.Args[4], os.Args[5:], w)
	case "run":
		sc := bufio.NewScanner(os.Stdin)
		sc.Buffer(make([]byte, 1<<20), 1<<26)
		var cur []string
		have := false
		// VERIF_BUDGET_S: stop starting scripts once this much time has passed (a changed library can make every script run
		// into a time-out); the scripts executed so far are complete, the rest is left out and counted on stderr
		budget, _ := strconv.ParseFloat(os.Getenv("VERIF_BUDGET_S"), 64)
		started := time.Now()
		skipped := 0
		scriptTimeout, _ := strconv.ParseFloat(os.Getenv("VERIF_SCRIPT_TIMEOUT_S"), 64)
		if scriptTimeout <= 0 {
			scriptTimeout = 90
		}
		flush := func() {
			if have {
				if budget > 0 && time.Since(started).Seconds() > budget {
					skipped++
					return
				}
				// a script that does not end (the library blocked the loop goroutine in a system call, or spins) ends the run:
				// what was executed so far is on stdout, the orchestrator names the script
				dog := time.AfterFunc(time.Duration(scriptTimeout*float64(time.Second)), func() {
					_, _ = os.Stdout.WriteString(fmt.Sprintf("\n< hang (the script did not end within %.0f s)\n", scriptTimeout))
					os.Exit(3)
				})
				c.run(cur, w)
				dog.Stop()
				w.Flush()
			}
		}
		for sc.Scan() {
			line := sc.Text()
			if strings.HasPrefix(line, "# script") {
				flush()
				if skipped > 0 {
					cur = cur[:0]
					have = true
					continue
				}
				fmt.Fprintln(w, line)
				cur = cur[:0]
				have = true
				continue
			}
			if strings.HasPrefix(line, "! ") {
				if !have {
					fmt.Fprintln(w, "# script 0")
					have = true
				}
				cur = append(cur, line[2:])
			}
		}
		flush()
		if skipped > 0 {
			fmt.Fprintf(w, "#budget %.0f s used up: %d scripts not executed\n", budget, skipped)
		}
	default:
		fmt.Fprintln(os.Stderr, "unknown mode", os.Args[2])
		os.Exit(2)
	}
}

// ---- deterministic PRNG (splitmix64) ------------------------------------------------------------

type rng struct{ s uint64 }

func newRng(seed uint64) *rng { return &rng{s: seed} }

func (r *rng) next() uint64 {
	r.s += 0x9e3779b97f4a7c15
	z := r.s
	z = (z ^ (z >> 30)) * 0xbf58476d1ce4e5b9
	z = (z ^ (z >> 27)) * 0x94d049bb133111eb
	return z ^ (z >> 31)
}

// intn returns a value in [0, n).
func (r *rng) intn(n int) int {
	if n <= 0 {
		return 0
	}
	return int(r.next() % uint64(n))
}

func (r *rng) pick(xs ...int) int { return xs[r.intn(len(xs))] }

func (r *rng) bytes(n int) []byte {
	b := make([]byte, n)
	for i := range b {
		b[i] = byte(r.next())
	}
	return b
}

// ---- helpers ---------------------------------------------------------------------------------

func atoi(s string) int {
	v, err := strconv.ParseInt(s, 10, 64)
	if err != nil {
		panic("bad integer in script: " + s)
	}
	return int(v)
}

// guard runs f and reports whether it panicked.
func guard(f func()) (panicked bool) {
	defer func() {
		if recover() != nil {
			panicked = true
		}
	}()
	f()
	return false
}
