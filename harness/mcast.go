package main

// Component "mcast" (C12): real UDP sockets of the library — sonic.NewPacketConn and multicast.NewUDPPeer — next to
// harness-owned raw sockets, all on one IO context per script, on the interfaces of this host (lo 127.0.0.1,
// eth0 192.0.2.2).
//
//	! pc <s> lo|any|empty                      sonic.NewPacketConn(ioc, "udp", "127.0.0.1:0" | ":0" | "")
//	! peer <s> any|any0|if|if0|lo0|g<k>|g<k>0  multicast.NewUDPPeer(ioc, "udp", ":P" | ":0" | "192.0.2.2:P" | ...)
//	! raw <s> tx3|rxlo|rxif                    harness socket: IP_TRANSPARENT sender bound to 192.0.2.3 (second source
//	                                           address on eth0) / plain receivers on 127.0.0.1 and 192.0.2.2
//	! join|leave|block|unblock ...             membership calls of the peer
//	! setloop|setttl|setout <s> <v>            setters, followed by the getters and the kernel's option record
//	! break <s> / mend <s>                     the peer's descriptor number temporarily refers to /dev/null: every
//	                                           setsockopt fails (ENOTSOCK) while the socket itself lives on
//	! send <s> to=<g<k>|s<j>> data=<hex|pat:seed:len> [atlimit]   (atlimit: issued with IO.Dispatched at the dispatch limit)
//	! read <s> <len> [all] / setbuf <s> <len> / poll / close <s>
//
// "?" lines are kernel oracles: `? kern` = getsockopt/getsockname on a duplicate of RawFd(), `? src` = the source
// address the kernel gives datagrams of that socket towards that destination, `? arrived` = the sockets whose
// receive queue grew (SO_MEMINFO) by the time a sentinel datagram sent after the write had been looped back.
// Real port numbers and group addresses never appear: ports are printed as small ids (1 = the script's shared
// port P, 10+s = the port the kernel gave socket s), groups as g<k>.

import (
	"bufio"
	"fmt"
	"net"
	"net/netip"
	"os"
	"runtime"
	"sort"
	"strings"
	"syscall"
	"unsafe"

	"github.com/talostrading/sonic"
	"github.com/talostrading/sonic/multicast"
	"golang.org/x/sys/unix"
)

func init() {
	components["mcast"] = &component{gen: mcastGen, enum: mcastEnum, run: mcastRun, direct: mcastDirect}
}

var (
	mcastIfIP   = [4]byte{192, 0, 2, 2} // eth0
	mcastIf3IP  = [4]byte{192, 0, 2, 3} // not configured anywhere: source address of the transparent raw sender
	mcastLoIP   = [4]byte{127, 0, 0, 1}
	mcastScript = 0
)

const mcastNGroups = 4

type mcastBuf struct {
	id int
	b  []byte
}

type mcastSock struct {
	id      int
	kind    string // pc peer raw
	form    string
	pc      sonic.PacketConn
	peer    *multicast.UDPPeer
	fd      int // descriptor number the library uses (RawFd) / the raw socket
	ofd     int // duplicate used by the oracle; survives break
	broken  bool
	closed  bool
	pending bool
	cands   []mcastBuf // buffers designated since the last completion (oldest first)
	rmem    uint32
	drops   uint32
}

type mcastWorld struct {
	w       *bufio.Writer
	ioc     *sonic.IO
	socks   map[int]*mcastSock
	port    int         // shared port P
	ports   map[int]int // real port -> id
	groups  [mcastNGroups][4]byte
	nbuf    int
	done    map[int]string // completions not yet printed, by socket
	stx     int            // sentinel sender / receiver (127.0.0.1)
	srx     int
	srxAddr *syscall.SockaddrInet4
	nullfd  int
	keep    [][]byte
}

func mcastPat(seed, n int) []byte {
	b := make([]byte, n)
	for i := range b {
		b[i] = byte(seed + i*7 + i/251)
	}
	return b
}

func mcastPrefill(id, n int) []byte {
	b := make([]byte, n)
	for i := range b {
		b[i] = byte(id*29 + i*3 + 0x5a)
	}
	return b
}

func (mw *mcastWorld) ipTok(ip [4]byte) string {
	for k, g := range mw.groups {
		if g == ip {
			return fmt.Sprintf("g%d", k)
		}
	}
	return fmt.Sprintf("%d.%d.%d.%d", ip[0], ip[1], ip[2], ip[3])
}

func (mw *mcastWorld) portTok(p int) string {
	if id, ok := mw.ports[p]; ok {
		return fmt.Sprint(id)
	}
	return fmt.Sprint(p)
}

func (mw *mcastWorld) addrTok(ip [4]byte, port int) string {
	return mw.ipTok(ip) + ":" + mw.portTok(port)
}

func mcastIP4(ip net.IP) [4]byte {
	var a [4]byte
	if v := ip.To4(); v != nil {
		copy(a[:], v)
	}
	return a
}

func (mw *mcastWorld) netAddrTok(a net.Addr) string {
	switch x := a.(type) {
	case *net.UDPAddr:
		if x == nil {
			return "-"
		}
		return mw.addrTok(mcastIP4(x.IP), x.Port)
	case *net.TCPAddr:
		if x == nil {
			return "-"
		}
		return mw.addrTok(mcastIP4(x.IP), x.Port)
	}
	return "-"
}

func (mw *mcastWorld) addrPortTok(a netip.AddrPort) string {
	if !a.IsValid() {
		return "-"
	}
	return mw.addrTok(a.Addr().As4(), int(a.Port()))
}

func mcastDrops(fd int) uint32 {
	var v [9]uint32
	l := uint32(unsafe.Sizeof(v))
	_, _, e := syscall.Syscall6(syscall.SYS_GETSOCKOPT, uintptr(fd), syscall.SOL_SOCKET, unix.SO_MEMINFO,
		uintptr(unsafe.Pointer(&v[0])), uintptr(unsafe.Pointer(&l)), 0)
	if e != 0 {
		return 0
	}
	return v[8] /* SK_MEMINFO_DROPS */
}

func mcastMeminfo(fd int) (rmem uint32, ok bool) {
	var v [9]uint32
	l := uint32(unsafe.Sizeof(v))
	_, _, e := syscall.Syscall6(syscall.SYS_GETSOCKOPT, uintptr(fd), syscall.SOL_SOCKET, unix.SO_MEMINFO,
		uintptr(unsafe.Pointer(&v[0])), uintptr(unsafe.Pointer(&l)), 0)
	if e != 0 {
		return 0, false
	}
	return v[0] /* SK_MEMINFO_RMEM_ALLOC */, true
}

func (mw *mcastWorld) sockname(fd int) (ip [4]byte, port int) {
	sa, err := syscall.Getsockname(fd)
	if err != nil {
		return
	}
	if s4, ok := sa.(*syscall.SockaddrInet4); ok {
		return s4.Addr, s4.Port
	}
	return
}

// kern prints the kernel's record for a peer: IP_MULTICAST_LOOP/TTL/IF/ALL and the bound address.
func (mw *mcastWorld) kern(s *mcastSock) {
	loop, e1 := syscall.GetsockoptInt(s.ofd, syscall.IPPROTO_IP, syscall.IP_MULTICAST_LOOP)
	ttl, e2 := syscall.GetsockoptInt(s.ofd, syscall.IPPROTO_IP, syscall.IP_MULTICAST_TTL)
	iff, e3 := syscall.GetsockoptInet4Addr(s.ofd, syscall.IPPROTO_IP, syscall.IP_MULTICAST_IF)
	all, e4 := syscall.GetsockoptInt(s.ofd, syscall.IPPROTO_IP, 49 /* IP_MULTICAST_ALL */)
	if e1 != nil || e2 != nil || e3 != nil || e4 != nil {
		fmt.Fprintf(mw.w, "? kern %d unavailable\n", s.id)
		return
	}
	ip, port := mw.sockname(s.ofd)
	fmt.Fprintf(mw.w, "? kern %d loop=%d ttl=%d if=%s all=%d name=%s\n", s.id, loop, ttl, mw.ipTok(iff), all, mw.addrTok(ip, port))
}

// get prints what the peer's getters report.
func (mw *mcastWorld) get(s *mcastSock) {
	p := s.peer
	outif := "-"
	iff, oip := p.Outbound()
	if iff != nil {
		outif = "0.0.0.0"
		if addrs, err := iff.Addrs(); err == nil {
			for _, a := range addrs {
				if n, ok := a.(*net.IPNet); ok && n.IP.To4() != nil {
					outif = mw.ipTok(mcastIP4(n.IP))
					break
				}
			}
		}
	}
	oipTok := "-"
	if oip.IsValid() && oip.Is4() {
		oipTok = mw.ipTok(oip.As4())
	}
	la := p.LocalAddr()
	fmt.Fprintf(mw.w, "< get %d loop=%d ttl=%d outif=%s outip=%s all=%d local=%s\n", s.id, b2i(p.Loop()), p.TTL(), outif, oipTok,
		b2i(p.All()), mw.addrTok(mcastIP4(la.IP), la.Port))
}

// portClash: the kernel gave a port-0 bind a port another socket of this script already has (possible between
// SO_REUSEPORT sockets); the caller closes the socket and tries again so that port ids stay unambiguous.
func (mw *mcastWorld) portClash(fd int) bool {
	_, port := mw.sockname(fd)
	_, known := mw.ports[port]
	return known && port != mw.port
}

func (mw *mcastWorld) register(s *mcastSock) {
	s.ofd, _ = syscall.Dup(s.fd)
	_, port := mw.sockname(s.ofd)
	if _, known := mw.ports[port]; !known {
		mw.ports[port] = 10 + s.id
	}
	// room for the bursts the generator produces (a 65507-byte datagram over eth0 arrives as 47 fragments, ~110 kB of
	// socket memory): receive-buffer overflow is not part of the model
	_ = syscall.SetsockoptInt(s.ofd, syscall.SOL_SOCKET, syscall.SO_RCVBUF, 4<<20)
	s.rmem, _ = mcastMeminfo(s.ofd)
	s.drops = mcastDrops(s.ofd)
	mw.socks[s.id] = s
}

func (mw *mcastWorld) bindAddr(form string) (string, bool) {
	switch {
	case form == "any":
		return fmt.Sprintf(":%d", mw.port), true
	case form == "any0":
		return ":0", true
	case form == "if":
		return fmt.Sprintf("192.0.2.2:%d", mw.port), true
	case form == "if0":
		return "192.0.2.2:0", true
	case form == "lo0":
		return "127.0.0.1:0", true
	case strings.HasPrefix(form, "g"):
		zero := strings.HasSuffix(form[1:], "0") && len(form) == 3
		k := int(form[1] - '0')
		if k < 0 || k >= mcastNGroups {
			return "", false
		}
		g := mw.groups[k]
		p := mw.port
		if zero {
			p = 0
		}
		return fmt.Sprintf("%d.%d.%d.%d:%d", g[0], g[1], g[2], g[3], p), true
	}
	return "", false
}

func (mw *mcastWorld) groupArg(tok string) string {
	if len(tok) == 2 && tok[0] == 'g' && tok[1] >= '0' && int(tok[1]-'0') < mcastNGroups {
		g := mw.groups[tok[1]-'0']
		return fmt.Sprintf("%d.%d.%d.%d", g[0], g[1], g[2], g[3])
	}
	switch tok {
	case "bad":
		return "10.0.0.1"
	}
	return "zzz"
}

func (mw *mcastWorld) sockFor(f []string, i int) *mcastSock {
	if len(f) <= i {
		return nil
	}
	s := mw.socks[atoi(f[i])]
	if s == nil || s.closed {
		return nil
	}
	return s
}

// barrier: a sentinel datagram sent after the write on the same CPU has been looped back, so every earlier
// datagram has been queued to its receivers (or dropped).
func (mw *mcastWorld) barrier() bool {
	if err := syscall.Sendto(mw.stx, []byte{1}, 0, mw.srxAddr); err != nil {
		return false
	}
	if waitReady(mw.srx, unix.POLLIN, 400) == 0 {
		return false
	}
	var b [8]byte
	_, _, _ = syscall.Recvfrom(mw.srx, b[:], 0)
	return true
}

func (mw *mcastWorld) arrivals() string {
	var ids []int
	for id := range mw.socks {
		ids = append(ids, id)
	}
	sort.Ints(ids)
	var out []string
	for _, id := range ids {
		s := mw.socks[id]
		if s.closed {
			continue
		}
		if v, ok := mcastMeminfo(s.ofd); ok {
			if v > s.rmem {
				out = append(out, fmt.Sprint(id))
			}
			s.rmem = v
		}
		if d := mcastDrops(s.ofd); d != s.drops {
			fmt.Fprintf(mw.w, "? overflow %d\n", id)
			s.drops = d
		}
	}
	if len(out) == 0 {
		return "-"
	}
	return strings.Join(out, ",")
}

func (mw *mcastWorld) resample(s *mcastSock) {
	if v, ok := mcastMeminfo(s.ofd); ok {
		s.rmem = v
	}
}

// srcOracle: the source address the kernel uses for datagrams of s towards dst.
func (mw *mcastWorld) srcOracle(s *mcastSock, dst *syscall.SockaddrInet4) string {
	ip, port := mw.sockname(s.ofd)
	if ip == [4]byte{} || ip[0]>>4 == 14 { // unbound or bound to a group: the route chooses
		ip = [4]byte{}
		fd, err := syscall.Socket(syscall.AF_INET, syscall.SOCK_DGRAM, 0)
		if err == nil {
			if iff, e := syscall.GetsockoptInet4Addr(s.ofd, syscall.IPPROTO_IP, syscall.IP_MULTICAST_IF); e == nil {
				_ = syscall.SetsockoptInet4Addr(fd, syscall.IPPROTO_IP, syscall.IP_MULTICAST_IF, iff)
			}
			if syscall.Connect(fd, dst) == nil {
				ip, _ = mw.sockname(fd)
			}
			_ = syscall.Close(fd)
		}
	}
	return mw.addrTok(ip, port)
}

func (mw *mcastWorld) newBuf(n int) mcastBuf {
	id := mw.nbuf
	mw.nbuf++
	b := mcastPrefill(id, n)
	mw.keep = append(mw.keep, b)
	return mcastBuf{id: id, b: b}
}

func (mw *mcastWorld) complete(s *mcastSock, err error, n int, from string) {
	var sb strings.Builder
	fmt.Fprintf(&sb, "< done %d %s %d %s", s.id, errClass(err), n, from)
	cands := s.cands
	if len(cands) > 4 {
		cands = cands[len(cands)-4:]
	}
	for _, c := range cands {
		k := n
		if k < 0 {
			k = 0
		}
		if k > len(c.b) {
			k = len(c.b)
		}
		fmt.Fprintf(&sb, " b%d=%s", c.id, hexOrDash(c.b[:k]))
	}
	if _, dup := mw.done[s.id]; dup {
		sb.WriteString(" again")
	}
	mw.done[s.id] += sb.String() + "\n"
	s.pending = false
	s.cands = nil
}

func (mw *mcastWorld) flushDone() {
	var ids []int
	for id := range mw.done {
		ids = append(ids, id)
	}
	sort.Ints(ids)
	for _, id := range ids {
		mw.w.WriteString(mw.done[id])
		if s := mw.socks[id]; s != nil && !s.closed {
			mw.resample(s)
		}
		delete(mw.done, id)
	}
}

func mcastAttr(f []string, key string) string {
	v, _ := attr(f, key)
	return v
}

func (mw *mcastWorld) exec(f []string) {
	w := mw.w
	if f[0] == "pc" || f[0] == "peer" || f[0] == "raw" {
		if len(f) < 3 || atoi(f[1]) < 0 || atoi(f[1]) >= 16 || mw.socks[atoi(f[1])] != nil {
			fmt.Fprintf(w, "< skipped\n")
			return
		}
	}
	switch f[0] {
	case "pc":
		id := atoi(f[1])
		addr := map[string]string{"lo": "127.0.0.1:0", "any": ":0", "empty": ""}[f[2]]
		pc, err := sonic.NewPacketConn(mw.ioc, "udp", addr)
		for try := 0; err == nil && try < 8 && mw.portClash(pc.RawFd()); try++ {
			_ = pc.Close()
			pc, err = sonic.NewPacketConn(mw.ioc, "udp", addr)
		}
		if err != nil {
			fmt.Fprintf(w, "< fail %s\n", errClass(err))
			return
		}
		s := &mcastSock{id: id, kind: "pc", form: f[2], pc: pc, fd: pc.RawFd()}
		mw.register(s)
		ip, port := mw.sockname(s.ofd)
		fmt.Fprintf(w, "< sock %d pc api=%s kern=%s\n", id, mw.netAddrTok(pc.LocalAddr()), mw.addrTok(ip, port))
		mw.kern(s)
	case "peer":
		id := atoi(f[1])
		addr, ok := mw.bindAddr(f[2])
		if !ok {
			fmt.Fprintf(w, "< fail badform\n")
			return
		}
		p, err := multicast.NewUDPPeer(mw.ioc, "udp", addr)
		for try := 0; err == nil && try < 8 && mw.portClash(p.NextLayer().RawFd()); try++ {
			_ = p.Close()
			p, err = multicast.NewUDPPeer(mw.ioc, "udp", addr)
		}
		if err != nil {
			fmt.Fprintf(w, "< fail other\n")
			return
		}
		s := &mcastSock{id: id, kind: "peer", form: f[2], peer: p, fd: p.NextLayer().RawFd()}
		mw.register(s)
		ip, port := mw.sockname(s.ofd)
		la := p.LocalAddr()
		fmt.Fprintf(w, "< sock %d peer api=%s kern=%s\n", id, mw.addrTok(mcastIP4(la.IP), la.Port), mw.addrTok(ip, port))
		mw.get(s)
		mw.kern(s)
	case "raw":
		id := atoi(f[1])
		fd := -1
		for try := 0; try < 8; try++ {
			var err error
			fd, err = syscall.Socket(syscall.AF_INET, syscall.SOCK_DGRAM|syscall.SOCK_NONBLOCK, 0)
			if err != nil {
				fmt.Fprintf(w, "< fail %s\n", errClass(err))
				return
			}
			var bind [4]byte
			switch f[2] {
			case "tx3":
				bind = mcastIf3IP
				if err := syscall.SetsockoptInt(fd, syscall.SOL_IP, syscall.IP_TRANSPARENT, 1); err != nil {
					_ = syscall.Close(fd)
					fmt.Fprintf(w, "< fail %s\n", errClass(err))
					return
				}
				_ = syscall.SetsockoptInet4Addr(fd, syscall.IPPROTO_IP, syscall.IP_MULTICAST_IF, mcastIfIP)
			case "rxlo":
				bind = mcastLoIP
			case "rxif":
				bind = mcastIfIP
			}
			if err := syscall.Bind(fd, &syscall.SockaddrInet4{Addr: bind}); err != nil {
				_ = syscall.Close(fd)
				fmt.Fprintf(w, "< fail %s\n", errClass(err))
				return
			}
			if !mw.portClash(fd) {
				break
			}
			_ = syscall.Close(fd)
			fd = -1
		}
		if fd < 0 {
			fmt.Fprintf(w, "< fail portclash\n")
			return
		}
		s := &mcastSock{id: id, kind: "raw", form: f[2], fd: fd}
		mw.register(s)
		ip, port := mw.sockname(s.ofd)
		fmt.Fprintf(w, "< sock %d raw api=%s kern=%s\n", id, mw.addrTok(ip, port), mw.addrTok(ip, port))
		mw.kern(s)
	case "get":
		s := mw.sockFor(f, 1)
		if s == nil || s.kind != "peer" {
			fmt.Fprintf(w, "< skipped\n")
			return
		}
		mw.get(s)
		mw.kern(s)
	case "setloop", "setttl", "setout":
		s := mw.sockFor(f, 1)
		if s == nil || s.kind != "peer" {
			fmt.Fprintf(w, "< skipped\n")
			return
		}
		var err error
		switch f[0] {
		case "setloop":
			err = s.peer.SetLoop(f[2] == "1")
		case "setttl":
			err = s.peer.SetTTL(uint8(atoi(f[2])))
		case "setout":
			err = s.peer.SetOutboundIPv4(f[2])
		}
		fmt.Fprintf(w, "< err %s\n", errClass(err))
		mw.get(s)
		mw.kern(s)
	case "join", "leave", "block", "unblock":
		s := mw.sockFor(f, 1)
		if s == nil || s.kind != "peer" {
			fmt.Fprintf(w, "< skipped\n")
			return
		}
		g := multicast.IP(mw.groupArg(f[2]))
		var err error
		switch f[0] {
		case "join":
			on, src := mcastAttr(f, "on"), mcastAttr(f, "src")
			switch {
			case on == "" && src == "":
				err = s.peer.Join(g)
			case src == "":
				err = s.peer.JoinOn(g, multicast.InterfaceName(on))
			case on == "":
				err = s.peer.JoinSource(g, multicast.SourceIP(src))
			default:
				err = s.peer.JoinSourceOn(g, multicast.SourceIP(src), multicast.InterfaceName(on))
			}
		case "leave":
			if src := mcastAttr(f, "src"); src == "" {
				err = s.peer.Leave(g)
			} else {
				err = s.peer.LeaveSource(g, multicast.SourceIP(src))
			}
		case "block":
			err = s.peer.BlockSource(g, multicast.SourceIP(f[3]))
		case "unblock":
			err = s.peer.UnblockSource(g, multicast.SourceIP(f[3]))
		}
		fmt.Fprintf(w, "< err %s\n", errClass(err))
	case "break":
		s := mw.sockFor(f, 1)
		if s == nil || s.kind != "peer" || s.broken || s.pending {
			fmt.Fprintf(w, "< skipped\n")
			return
		}
		if err := unix.Dup3(mw.nullfd, s.fd, 0); err != nil {
			fmt.Fprintf(w, "< skipped\n")
			return
		}
		s.broken = true
		fmt.Fprintf(w, "< ok\n")
	case "mend":
		s := mw.sockFor(f, 1)
		if s == nil || !s.broken {
			fmt.Fprintf(w, "< skipped\n")
			return
		}
		_ = unix.Dup3(s.ofd, s.fd, 0)
		s.broken = false
		fmt.Fprintf(w, "< ok\n")
	case "send":
		s := mw.sockFor(f, 1)
		to, data := mcastAttr(f, "to"), mcastAttr(f, "data")
		if s == nil || s.broken || to == "" {
			fmt.Fprintf(w, "< skipped\n")
			return
		}
		var payload []byte
		if strings.HasPrefix(data, "pat:") {
			p := strings.Split(data, ":")
			payload = mcastPat(atoi(p[1]), atoi(p[2]))
		} else if data != "-" && data != "" {
			payload = unhx(data)
		}
		dst := &syscall.SockaddrInet4{}
		if to[0] == 'g' {
			k := int(to[1] - '0')
			if k < 0 || k >= mcastNGroups {
				fmt.Fprintf(w, "< skipped\n")
				return
			}
			dst.Addr, dst.Port = mw.groups[k], mw.port
		} else {
			t := mw.socks[atoi(to[1:])]
			if t == nil || t.closed {
				fmt.Fprintf(w, "< skipped\n")
				return
			}
			dst.Addr, dst.Port = mw.sockname(t.ofd)
			if dst.Addr == [4]byte{} {
				dst.Addr = mcastLoIP
			}
		}
		fmt.Fprintf(w, "? src %s\n", mw.srcOracle(s, dst))
		for _, t := range mw.socks {
			if !t.closed {
				mw.resample(t)
			}
		}
		res := ""
		// "atlimit": the write is issued while IO.Dispatched is at MaxCallbackDispatch: the library defers it to the poller
		// and must still send this datagram to this destination
		atLimit := f[len(f)-1] == "atlimit" && s.kind != "raw"
		for _, other := range mw.socks {
			// (the polls that complete the deferred write must not complete a read, which the script completes at its own
			// `poll` and whose datagram the arrival oracle below has to find in the receive queue)
			if other.pending && !other.closed {
				atLimit = false
			}
		}
		if atLimit {
			mw.ioc.Dispatched = sonic.MaxCallbackDispatch
		}
		switch s.kind {
		case "raw":
			err := syscall.Sendto(s.fd, payload, 0, dst)
			for i := 0; err == syscall.EAGAIN && i < 50; i++ { // send buffer full (earlier fragments still on the wire)
				waitReady(s.fd, unix.POLLOUT, 20)
				err = syscall.Sendto(s.fd, payload, 0, dst)
			}
			n := len(payload)
			if err != nil {
				n = 0
			}
			res = fmt.Sprintf("%s %d", errClass(err), n)
		case "peer":
			// the same destination in the forms an application may hold it in: built from four bytes, IPv4-mapped (what
			// (*net.UDPAddr).AddrPort() gives for a resolved or parsed address), and through net.UDPAddr itself
			to := netip.AddrPortFrom(netip.AddrFrom4(dst.Addr), uint16(dst.Port))
			switch len(payload) % 3 {
			case 1:
				to = netip.AddrPortFrom(netip.AddrFrom16([16]byte{10: 0xff, 11: 0xff, 12: dst.Addr[0], 13: dst.Addr[1], 14: dst.Addr[2], 15: dst.Addr[3]}), uint16(dst.Port))
			case 2:
				to = (&net.UDPAddr{IP: net.IPv4(dst.Addr[0], dst.Addr[1], dst.Addr[2], dst.Addr[3]), Port: dst.Port}).AddrPort()
			}
			s.peer.AsyncWrite(payload, to, func(err error, n int) {
				res = fmt.Sprintf("%s %d", errClass(err), n)
			})
		case "pc":
			s.pc.AsyncWriteTo(payload, &net.UDPAddr{IP: net.IP(dst.Addr[:]), Port: dst.Port}, func(err error) {
				n := len(payload)
				if err != nil {
					n = 0
				}
				res = fmt.Sprintf("%s %d", errClass(err), n)
			})
		}
		if atLimit {
			mw.ioc.Dispatched = 0
		}
		for i := 0; res == "" && i < 50; i++ {
			waitReady(s.fd, unix.POLLOUT, 20)
			_, _ = mw.ioc.PollOne()
		}
		if res == "" {
			res = "incomplete 0"
		}
		fmt.Fprintf(w, "< wrote %s\n", res)
		mw.flushDone() // reads completed by the polls above (none unless the write blocked)
		if !mw.barrier() {
			fmt.Fprintf(w, "? barrier-timeout\n")
		}
		fmt.Fprintf(w, "? arrived %s\n", mw.arrivals())
	case "read":
		s := mw.sockFor(f, 1)
		if s == nil || s.broken || s.pending {
			fmt.Fprintf(w, "< skipped\n")
			return
		}
		buf := mw.newBuf(atoi(f[2]))
		s.cands = append(s.cands, buf)
		all := len(f) > 3 && f[3] == "all"
		// "atlimit": the read is issued while IO.Dispatched is at MaxCallbackDispatch, so the library must defer it to
		// the poller instead of completing it inline; the harness then polls until it has completed, so that the trace
		// (and the model) see the same completion as for an inline read — with the buffer designated for *this* read.
		atLimit := f[len(f)-1] == "atlimit" && s.kind != "raw"
		for _, other := range mw.socks {
			// (polling for this read must not complete another socket's read, which the script completes at its own `poll`)
			// (not only when that read is ready now: a looped-back multicast datagram may become readable a moment later,
			// during the polls below — seen once in a thorough run as a spurious read-overlap)
			if other != s && other.pending && !other.closed {
				atLimit = false
			}
		}
		if atLimit {
			mw.ioc.Dispatched = sonic.MaxCallbackDispatch
		}
		switch s.kind {
		case "raw":
			n, sa, err := syscall.Recvfrom(s.fd, buf.b, 0)
			if err == syscall.EAGAIN {
				s.cands = nil
				fmt.Fprintf(w, "< none\n")
				return
			}
			from := "-"
			if s4, ok := sa.(*syscall.SockaddrInet4); ok {
				from = mw.addrTok(s4.Addr, s4.Port)
			}
			mw.complete(s, err, n, from)
		case "peer":
			s.pending = true
			s.peer.AsyncRead(buf.b, func(err error, n int, from netip.AddrPort) {
				mw.complete(s, err, n, mw.addrPortTok(from))
			})
		case "pc":
			s.pending = true
			cb := func(err error, n int, from net.Addr) {
				mw.complete(s, err, n, mw.netAddrTok(from))
			}
			if all {
				s.pc.AsyncReadAllFrom(buf.b, cb)
			} else {
				s.pc.AsyncReadFrom(buf.b, cb)
			}
		}
		if atLimit {
			mw.ioc.Dispatched = 0
			for round := 0; round < 16 && s.pending && !s.closed && waitReady(s.ofd, unix.POLLIN, 0) != 0; round++ {
				_, _ = mw.ioc.PollOne()
			}
		}
		if s.pending {
			fmt.Fprintf(w, "< pending\n")
		}
		mw.flushDone()
	case "setbuf":
		s := mw.sockFor(f, 1)
		if s == nil || s.kind != "peer" {
			fmt.Fprintf(w, "< skipped\n")
			return
		}
		buf := mw.newBuf(atoi(f[2]))
		s.cands = append(s.cands, buf)
		s.peer.SetAsyncReadBuffer(buf.b)
		fmt.Fprintf(w, "< ok\n")
	case "poll":
		for round := 0; round < 16; round++ {
			ready := false
			for _, s := range mw.socks {
				if s.pending && !s.closed && waitReady(s.ofd, unix.POLLIN, 0) != 0 {
					ready = true
				}
			}
			if !ready {
				break
			}
			_, _ = mw.ioc.PollOne()
		}
		mw.flushDone()
		fmt.Fprintf(w, "< polled\n")
	case "close":
		s := mw.sockFor(f, 1)
		if s == nil || s.broken {
			fmt.Fprintf(w, "< skipped\n")
			return
		}
		mw.closeSock(s)
		fmt.Fprintf(w, "< ok\n")
	default:
		fmt.Fprintf(w, "< skipped\n")
	}
}

func (mw *mcastWorld) closeSock(s *mcastSock) {
	if s.closed {
		return
	}
	if s.broken {
		_ = unix.Dup3(s.ofd, s.fd, 0)
		s.broken = false
	}
	switch s.kind {
	case "pc":
		_ = s.pc.Close()
	case "peer":
		_ = s.peer.Close()
	case "raw":
		_ = syscall.Close(s.fd)
	}
	_ = syscall.Close(s.ofd)
	s.closed = true
}

func mcastPin() {
	runtime.LockOSThread()
	var set unix.CPUSet
	if err := unix.SchedGetaffinity(0, &set); err != nil {
		return
	}
	for c := 0; c < 1024; c++ {
		if set.IsSet(c) {
			var one unix.CPUSet
			one.Set(c)
			_ = unix.SchedSetaffinity(0, &one)
			return
		}
	}
}

func mcastRun(script []string, w *bufio.Writer) {
	mcastPin()
	mcastScript++
	mw := &mcastWorld{w: w, socks: map[int]*mcastSock{}, ports: map[int]int{}, done: map[int]string{}}
	ioc, err := sonic.NewIO()
	if err != nil {
		fmt.Fprintf(w, "? setup-failed io\n")
		return
	}
	mw.ioc = ioc
	defer ioc.Close()
	// the shared port P and the groups are chosen at run time (two checks may run at once on this host)
	// P lies below the ephemeral range so that no port-0 bind can ever be given it; an exclusive bind probes it
	h := uint32(os.Getpid())*2654435761 + uint32(mcastScript)*40503
	for t := uint32(0); t < 64 && mw.port == 0; t++ {
		cand := 20000 + int((h+7919*t)%12000)
		if fd, err := syscall.Socket(syscall.AF_INET, syscall.SOCK_DGRAM, 0); err == nil {
			if syscall.Bind(fd, &syscall.SockaddrInet4{Port: cand}) == nil {
				mw.port = cand
			}
			_ = syscall.Close(fd)
		}
	}
	if mw.port == 0 {
		fmt.Fprintf(w, "? setup-failed port\n")
		return
	}
	mw.ports[mw.port] = 1
	for k := range mw.groups {
		mw.groups[k] = [4]byte{239, byte(1 + (h>>8)%250), byte(h >> 16), byte(1 + 4*(int(h>>24)%60) + k)}
	}
	mw.stx, _ = syscall.Socket(syscall.AF_INET, syscall.SOCK_DGRAM, 0)
	mw.srx, _ = syscall.Socket(syscall.AF_INET, syscall.SOCK_DGRAM|syscall.SOCK_NONBLOCK, 0)
	defer syscall.Close(mw.stx)
	defer syscall.Close(mw.srx)
	if syscall.Bind(mw.srx, &syscall.SockaddrInet4{Addr: mcastLoIP}) != nil {
		fmt.Fprintf(w, "? setup-failed sentinel\n")
		return
	}
	_, sp := mw.sockname(mw.srx)
	mw.srxAddr = &syscall.SockaddrInet4{Addr: mcastLoIP, Port: sp}
	mw.nullfd, _ = syscall.Open("/dev/null", syscall.O_RDWR, 0)
	defer syscall.Close(mw.nullfd)
	defer func() {
		for _, s := range mw.socks {
			mw.closeSock(s)
		}
	}()
	for _, line := range script {
		f := strings.Fields(line)
		fmt.Fprintf(w, "! %s\n", line)
		if len(f) == 0 {
			continue
		}
		if guard(func() { mw.exec(f) }) {
			fmt.Fprintf(w, "< panic\n")
		}
	}
}

// ---- generator --------------------------------------------------------------------------------

var mcastSizes = []int{1, 1, 2, 3, 7, 8, 16, 31, 63, 64, 65, 100, 255, 256, 1371, 1372, 1373, 1400, 1472, 1473, 4096, 9000}

func mcastPayload(r *rng, big bool) (string, int) {
	switch r.intn(14) {
	case 0:
		if big {
			n := r.pick(65507, 65507, 65506, 32768, 65508)
			return fmt.Sprintf("pat:%d:%d", r.intn(256), n), n
		}
	case 1:
		if r.intn(3) == 0 {
			return "-", 0
		}
	case 2, 3, 4:
		n := 1 + r.intn(12)
		return hexOrDash(r.bytes(n)), n
	}
	n := mcastSizes[r.intn(len(mcastSizes))]
	if n <= 16 {
		return hexOrDash(r.bytes(n)), n
	}
	return fmt.Sprintf("pat:%d:%d", r.intn(256), n), n
}

func mcastReadLen(r *rng, last int) int {
	switch r.intn(8) {
	case 0:
		if last > 1 {
			return last - 1
		}
	case 1:
		return last + 1
	case 2:
		if last > 0 {
			return last
		}
	case 3:
		return r.pick(1, 2, 4, 8)
	case 4:
		return 65536
	}
	return r.pick(64, 2048, 2048, 70000)
}

func mcastGen(r *rng, maxops int, w *bufio.Writer) {
	if r.intn(5) < 2 {
		mcastGenPC(r, maxops, w)
	} else {
		mcastGenPeers(r, maxops, w)
	}
}

// packet connections on 127.0.0.1 (+ raw receivers): sizes, bursts, several senders, truncation.
func mcastGenPC(r *rng, maxops int, w *bufio.Writer) {
	n := 2 + r.intn(3)
	kinds := make([]string, n)
	for s := 0; s < n; s++ {
		switch r.intn(8) {
		case 0:
			kinds[s] = "raw"
			fmt.Fprintf(w, "! raw %d %s\n", s, r.pick2("rxlo", "rxif"))
		case 1:
			kinds[s] = "peer"
			fmt.Fprintf(w, "! peer %d %s\n", s, r.pick2("lo0", "if0", "any0"))
		default:
			kinds[s] = "pc"
			fmt.Fprintf(w, "! pc %d %s\n", s, r.pick2("lo", "lo", "any", "empty"))
		}
	}
	queued := make([][]int, n) // lengths queued per receiver (generator's guess; only steers the sizes)
	bytesQ := make([]int, n)
	ops := 3 + r.intn(maxops)
	for i := 0; i < ops; i++ {
		switch r.intn(10) {
		case 0, 1, 2, 3, 4:
			burst := 1
			if r.intn(4) == 0 {
				burst = 2 + r.intn(6)
			}
			for b := 0; b < burst; b++ {
				from, to := r.intn(n), r.intn(n)
				p, ln := mcastPayload(r, bytesQ[to] < 60000)
				if bytesQ[to]+ln > 150000 || len(queued[to]) > 40 {
					continue
				}
				fmt.Fprintf(w, "! send %d to=s%d data=%s%s\n", from, to, p, r.pick2("", "", "", " atlimit"))
				if ln <= 65507 {
					queued[to] = append(queued[to], ln)
					bytesQ[to] += ln
				}
			}
		case 5, 6, 7, 8:
			s := r.intn(n)
			last := 0
			if len(queued[s]) > 0 {
				last = queued[s][0]
				queued[s] = queued[s][1:]
				bytesQ[s] -= last
			}
			all := ""
			if kinds[s] == "pc" && r.intn(4) == 0 {
				all = " all"
			}
			fmt.Fprintf(w, "! read %d %d%s%s\n", s, mcastReadLen(r, last), all, r.pick2("", "", "", " atlimit"))
		case 9:
			fmt.Fprintf(w, "! poll\n")
		}
	}
	mcastDrain(r, w, n, 3)
}

func mcastDrain(r *rng, w *bufio.Writer, n, rounds int) {
	fmt.Fprintf(w, "! poll\n")
	for k := 0; k < rounds; k++ {
		for s := 0; s < n; s++ {
			fmt.Fprintf(w, "! read %d %d\n", s, r.pick(70000, 70000, 2048))
		}
		fmt.Fprintf(w, "! poll\n")
	}
}

// multicast peers: receivers sharing port P, senders with distinct source addresses, membership scripts.
func mcastGenPeers(r *rng, maxops int, w *bufio.Writer) {
	nrecv := 1 + r.intn(3)
	n := 0
	var recv, send []int
	for k := 0; k < nrecv; k++ {
		form := r.pick2("any", "any", "any", "any", "g0", "g1", "if", "any0", "g00")
		fmt.Fprintf(w, "! peer %d %s\n", n, form)
		recv = append(recv, n)
		n++
	}
	// senders: A = peer on 192.0.2.2, B = raw transparent 192.0.2.3, then optional extras
	fmt.Fprintf(w, "! peer %d if0\n", n)
	send = append(send, n)
	n++
	fmt.Fprintf(w, "! raw %d tx3\n", n)
	send = append(send, n)
	n++
	for _, extra := range []string{"peer any0", "peer lo0", "pc any", "pc lo", "peer if0"} {
		if r.intn(4) == 0 && n < 8 {
			fmt.Fprintf(w, "! %s %d %s\n", strings.Fields(extra)[0], n, strings.Fields(extra)[1])
			send = append(send, n)
			n++
		}
	}
	peers := func() int { // any peer (receivers mostly)
		if r.intn(5) == 0 {
			return send[0]
		}
		return recv[r.intn(len(recv))]
	}
	grp := func() string {
		if r.intn(25) == 0 {
			return r.pick2("bad", "junk")
		}
		return fmt.Sprintf("g%d", r.pick(0, 0, 0, 1, 1, 2))
	}
	src := func() string {
		if r.intn(30) == 0 {
			return "junk"
		}
		return r.pick2("192.0.2.2", "192.0.2.2", "192.0.2.3", "192.0.2.3", "127.0.0.1", "10.9.9.9")
	}
	member := func(s int) {
		g := grp()
		switch r.intn(12) {
		case 0, 1, 2:
			fmt.Fprintf(w, "! join %d %s\n", s, g)
		case 3:
			fmt.Fprintf(w, "! join %d %s on=%s\n", s, g, r.pick2("eth0", "eth0", "lo", "nope0"))
		case 4, 5:
			fmt.Fprintf(w, "! join %d %s src=%s\n", s, g, src())
		case 6:
			fmt.Fprintf(w, "! join %d %s on=%s src=%s\n", s, g, r.pick2("eth0", "eth0", "lo"), src())
		case 7:
			fmt.Fprintf(w, "! leave %d %s\n", s, g)
		case 8:
			fmt.Fprintf(w, "! leave %d %s src=%s\n", s, g, src())
		case 9, 10:
			fmt.Fprintf(w, "! block %d %s %s\n", s, g, src())
		case 11:
			fmt.Fprintf(w, "! unblock %d %s %s\n", s, g, src())
		}
	}
	setter := func(s int) {
		switch r.intn(7) {
		case 0, 1:
			fmt.Fprintf(w, "! setloop %d %d\n", s, r.intn(2))
		case 2, 3:
			fmt.Fprintf(w, "! setttl %d %d\n", s, r.pick(0, 1, 2, 64, 255, r.intn(256)))
		case 4, 5:
			fmt.Fprintf(w, "! setout %d %s\n", s, r.pick2("eth0", "eth0", "lo", "nope0"))
		case 6:
			fmt.Fprintf(w, "! get %d\n", s)
		}
	}
	// most scripts start from a joined state
	for _, s := range recv {
		if r.intn(4) != 0 {
			if r.intn(4) == 0 {
				fmt.Fprintf(w, "! join %d g0 src=%s\n", s, r.pick2("192.0.2.2", "192.0.2.3"))
			} else {
				fmt.Fprintf(w, "! join %d g0\n", s)
			}
		}
	}
	lastLen := 0
	qn := 0
	ops := 3 + r.intn(maxops)
	for i := 0; i < ops; i++ {
		switch r.intn(20) {
		case 0, 1, 2, 3:
			member(peers())
		case 4:
			setter(peers())
		case 5:
			// a sending peer (the raw sender and packet connections have no setters: the harness skips those)
			setter(send[r.pick(0, 0, r.intn(len(send)))])
		case 6:
			// failing system calls: the descriptor number refers to /dev/null for a while
			s := peers()
			fmt.Fprintf(w, "! break %d\n", s)
			for k := 0; k < 1+r.intn(3); k++ {
				if r.intn(3) == 0 {
					member(s)
				} else {
					setter(s)
				}
			}
			fmt.Fprintf(w, "! mend %d\n! get %d\n", s, s)
		case 7, 8, 9, 10, 11, 12:
			burst := 1
			if r.intn(5) == 0 {
				burst = 2 + r.intn(4)
			}
			for b := 0; b < burst && qn < 30; b++ {
				from := send[r.pick(0, 0, 1, 1, r.intn(len(send)))]
				p, ln := mcastPayload(r, qn < 2)
				to := grp()
				if to == "bad" || to == "junk" {
					to = "g3"
				}
				if r.intn(12) == 0 {
					to = fmt.Sprintf("s%d", recv[r.intn(len(recv))])
				}
				fmt.Fprintf(w, "! send %d to=%s data=%s%s\n", from, to, p, r.pick2("", "", "", " atlimit"))
				lastLen = ln
				if ln > 60000 {
					qn += 10
				} else {
					qn++
				}
			}
		case 13, 14, 15, 16:
			s := recv[r.intn(len(recv))]
			fmt.Fprintf(w, "! read %d %d%s\n", s, mcastReadLen(r, lastLen), r.pick2("", "", "", " atlimit"))
			if qn > 0 {
				qn--
			}
		case 17:
			s := recv[r.intn(len(recv))]
			fmt.Fprintf(w, "! setbuf %d %d\n", s, r.pick(1, 8, 64, 2048, 2048))
		case 18, 19:
			fmt.Fprintf(w, "! poll\n")
			qn = 0
		}
	}
	// drain the receivers
	fmt.Fprintf(w, "! poll\n")
	for k := 0; k < 3; k++ {
		for _, s := range recv {
			fmt.Fprintf(w, "! read %d %d\n", s, r.pick(70000, 70000, 2048))
		}
		fmt.Fprintf(w, "! poll\n")
	}
	for _, s := range recv {
		fmt.Fprintf(w, "! get %d\n", s)
	}
}

// enum <depth>: every membership script of that length over {join, joinsrc A, joinsrc B, leave, leavesrc A,
// block A, block B, unblock A} on one receiver, each followed by one datagram from A and one from B.
func mcastEnum(args []string, w *bufio.Writer) {
	depth := 2
	if len(args) > 0 {
		depth = atoi(args[0])
	}
	alphabet := []string{
		"join 0 g0", "join 0 g0 src=192.0.2.2", "join 0 g0 src=192.0.2.3", "leave 0 g0", "leave 0 g0 src=192.0.2.2",
		"block 0 g0 192.0.2.2", "block 0 g0 192.0.2.3", "unblock 0 g0 192.0.2.2",
	}
	k := 0
	var rec func(prefix []string)
	rec = func(prefix []string) {
		if len(prefix) == depth {
			fmt.Fprintf(w, "# script %d\n! peer 0 any\n! peer 1 if0\n! raw 2 tx3\n", k)
			for _, op := range prefix {
				fmt.Fprintf(w, "! %s\n! send 1 to=g0 data=a1\n! send 2 to=g0 data=b2\n", op)
			}
			fmt.Fprintf(w, "! read 0 64\n! read 0 64\n! read 0 64\n")
			k++
			return
		}
		for _, op := range alphabet {
			rec(append(append([]string{}, prefix...), op))
		}
	}
	rec(nil)
}
