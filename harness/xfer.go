// Component xfer (C02): single transfers through the real reactors on a schedule of per-call transport results that the
// harness fixes, so that `Sonic.Model.Xfer.readOp` / `writeOp` (the functions the C02 theorems are about) can be run on the
// very same schedule by `sonicdrv xfer` and compared with what the completion callback was given.
//
//	! new <streamlen> adapter|fifo|tcp      the peer's stream: byte i = (7i+1) mod 251
//	! read <len> <all> <sched>          sched = comma separated m<k> (the call moves up to k bytes), b (would block), e (EOF), f (fails)
//	< read <ok|eof|err> <n> <hex b[:n]> <1 if b[n:] is untouched>
//	! write <len> <id> <all> <sched>    buffer byte j = (11j+17id+3) mod 251
//	< write <ok|eof|err> <n> <hex of what the transport accepted during the operation>
//
// adapter: sonic.AsyncAdapter over one end of a socketpair (kept readable and writable) whose io.ReadWriter is scripted: every
// Read/Write call made by async_adapter.go consumes schedule entries (a move that cannot move anything is skipped, as in the model).
// fifo: sonic.Open on a FIFO (file.go: asyncReadNow / onRead on real read(2) calls); the harness feeds the chunk of each m entry
// before the call that is to see it, `b` is an empty pipe, `e` is the writer closing. Writes on a fifo: the library holds the write
// end of a one-page pipe (file.go: asyncWriteNow / onWrite on real write(2) calls), every call moves what fits (4096 bytes or the
// rest), the next one would block until the harness has drained the pipe, `f` is the reader going away (EPIPE).
package main

import (
	"bufio"
	"encoding/hex"
	"errors"
	"fmt"
	"io"
	"net"
	"os"
	"path/filepath"
	"strconv"
	"strings"
	"syscall"
	"time"

	"github.com/talostrading/sonic"
	"golang.org/x/sys/unix"
)

func init() {
	components["xfer"] = &component{gen: xferGen, enum: xferEnum, run: xferRun}
}

func xferStreamByte(i int) byte    { return byte((7*i + 1) % 251) }
func xferWriteByte(id, j int) byte { return byte((11*j + 17*id + 3) % 251) }

func xferHex(b []byte) string {
	if len(b) == 0 {
		return "-"
	}
	return hex.EncodeToString(b)
}

// one schedule: mostly moves around the amount still needed, then a terminal entry so that every operation completes
func xferSched(r *rng, length int, all bool, fifo bool, write bool) string {
	var es []string
	need := length
	n := 1 + r.intn(5)
	for i := 0; i < n && need > 0; i++ {
		if fifo && r.intn(4) == 0 && (i == 0 || true) {
			es = append(es, "b")
		}
		var k int
		switch r.intn(6) {
		case 0:
			k = 1
		case 1:
			k = need
		case 2:
			k = need + 1 + r.intn(4)
		case 3:
			k = need - 1
		default:
			k = 1 + r.intn(need+2)
		}
		if k < 1 {
			k = 1
		}
		es = append(es, fmt.Sprintf("m%d", k))
		if k > need {
			k = need
		}
		need -= k
		if !all {
			break
		}
		if fifo && need > 0 {
			es = append(es, "b") // the ReadAll loop reads again at once and finds the pipe empty
		}
	}
	// what ends the operation when the moves did not: an error or the end of the stream
	if fifo || r.intn(2) == 0 {
		es = append(es, "e")
	} else {
		es = append(es, "f")
	}
	if r.intn(5) == 0 && !fifo {
		// the failure comes first / in the middle
		i := r.intn(len(es))
		es = append(es[:i:i], append([]string{[]string{"e", "f"}[r.intn(2)]}, es[i:]...)...)
	}
	_ = write
	return strings.Join(es, ",")
}

func xferGen(r *rng, maxops int, w *bufio.Writer) {
	kind := "adapter"
	if r.intn(3) == 0 {
		kind = "fifo"
	}
	if kindSide := newRng(r.s ^ 0x7c9); kind == "adapter" && kindSide.intn(4) == 0 {
		kind = "tcp" // reads only, through sonic.Dial (conn.go)
	}
	pipeLike := kind == "fifo" || kind == "tcp"
	slen := r.pick(0, 1, 7, 64, 300, 2000)
	fmt.Fprintf(w, "! new %d %s\n", slen, kind)
	n := 1 + r.intn(maxops)
	side := newRng(r.s ^ 0x5eed0d15)
	for i := 0; i < n; i++ {
		d := ""
		if pipeLike && side.intn(3) == 0 {
			d = " d"
		}
		length := r.pick(1, 2, 3, 8, 17, 64, 255, 1000)
		all := r.intn(2)
		if kind == "adapter" && r.intn(2) == 0 {
			fmt.Fprintf(w, "! write %d %d %d %s\n", length, i, all, xferSched(r, length, all == 1, false, true))
		} else if kind == "fifo" && r.intn(3) == 0 {
			// file.go's write loop on a real pipe of one page: every write(2) moves what fits (4096 bytes or the rest), the
			// next one would block until the harness has drained the pipe; `f` = the reader goes away
			length = r.pick(1, 100, 4096, 4097, 5000, 8192, 9000, 20000)
			var es []string
			chunks := (length + 4095) / 4096
			if all == 0 {
				chunks = 1
			}
			stop := chunks
			if r.intn(3) == 0 {
				stop = r.intn(chunks + 1)
			}
			for c := 0; c < stop; c++ {
				es = append(es, "m4096")
				if c+1 < chunks {
					es = append(es, "b")
				}
			}
			es = append(es, "f")
			fmt.Fprintf(w, "! write %d %d %d %s%s\n", length, i, all, strings.Join(es, ","), d)
		} else {
			fmt.Fprintf(w, "! read %d %d %s%s\n", length, all, xferSched(r, length, all == 1, pipeLike, false), d)
		}
	}
}

// exhaustive small scope: every schedule of the given length over {m1,m2,m3,e,f} for one ReadAll / Read / WriteAll / Write of 3 bytes
func xferEnum(args []string, w *bufio.Writer) {
	depth := 3
	if len(args) > 0 {
		depth, _ = strconv.Atoi(args[0])
	}
	alpha := []string{"m1", "m2", "m3", "e", "f"}
	k := 0
	var rec func(pre []string)
	rec = func(pre []string) {
		if len(pre) == depth {
			s := strings.Join(append(append([]string{}, pre...), "f"), ",")
			for _, all := range []int{0, 1} {
				fmt.Fprintf(w, "# script e%d\n! new 5 adapter\n! read 3 %d %s\n! write 3 %d %d %s\n! read 3 %d %s\n", k, all, s, k, all, s, 1-all, s)
				k++
			}
			return
		}
		for _, a := range alpha {
			rec(append(pre, a))
		}
	}
	rec(nil)
}

var errXferFail = errors.New("scripted transport failure")

// scripted io.ReadWriter behind the adapter
type xferRW struct {
	stream []byte // what the peer has written and the library has not read yet
	sched  []string
	wire   []byte
	bad    string
}

func (x *xferRW) next() (string, bool) {
	if len(x.sched) == 0 {
		return "", false
	}
	e := x.sched[0]
	x.sched = x.sched[1:]
	return e, true
}

func (x *xferRW) Read(b []byte) (int, error) {
	for {
		e, ok := x.next()
		if !ok {
			x.bad = "schedule used up"
			return 0, errXferFail
		}
		switch {
		case e == "e":
			return 0, io.EOF
		case e == "f":
			return 0, errXferFail
		case e == "b":
			continue // an adapted object blocks inside Read; for the model: the entry is skipped
		case strings.HasPrefix(e, "m"):
			k, _ := strconv.Atoi(e[1:])
			if k > len(b) {
				k = len(b)
			}
			if k > len(x.stream) {
				k = len(x.stream)
			}
			if k == 0 {
				continue
			}
			copy(b, x.stream[:k])
			x.stream = x.stream[k:]
			return k, nil
		}
	}
}

func (x *xferRW) Write(b []byte) (int, error) {
	for {
		e, ok := x.next()
		if !ok {
			x.bad = "schedule used up"
			return 0, errXferFail
		}
		switch {
		case e == "e":
			return 0, io.EOF
		case e == "f":
			return 0, errXferFail
		case e == "b":
			continue
		case strings.HasPrefix(e, "m"):
			k, _ := strconv.Atoi(e[1:])
			if k > len(b) {
				k = len(b)
			}
			if k == 0 {
				continue
			}
			x.wire = append(x.wire, b[:k]...)
			return k, nil
		}
	}
}

func xferRes(err error) string {
	switch {
	case err == nil:
		return "ok"
	case errors.Is(err, io.EOF):
		return "eof"
	default:
		return "err"
	}
}

func xferRun(script []string, w *bufio.Writer) {
	defer func() {
		if p := recover(); p != nil {
			fmt.Fprintf(w, "< panic %v\n", strings.ReplaceAll(fmt.Sprint(p), " ", "_"))
		}
	}()
	ioc, err := sonic.NewIO()
	if err != nil {
		fmt.Fprintf(w, "#env NewIO: %v\n", err)
		return
	}
	defer ioc.Close()
	var stream []byte
	kind := ""
	tmp := ""
	defer func() {
		if tmp != "" {
			os.RemoveAll(tmp)
		}
	}()
	fifoN := 0
	for _, line := range script {
		t := strings.Fields(line)
		if len(t) == 0 {
			continue
		}
		fmt.Fprintf(w, "! %s\n", line)
		switch t[0] {
		case "new":
			n, _ := strconv.Atoi(t[1])
			stream = make([]byte, n)
			for i := range stream {
				stream[i] = xferStreamByte(i)
			}
			kind = t[2]
		case "read", "write":
			isRead := t[0] == "read"
			deferred := t[len(t)-1] == "d" // issued with IO.Dispatched at the limit: the first attempt is left to the poller
			length, _ := strconv.Atoi(t[1])
			var all bool
			var sched []string
			var buf []byte
			if isRead {
				all = t[2] == "1"
				sched = strings.Split(t[3], ",")
				buf = make([]byte, length+8)
				for i := range buf {
					buf[i] = 0xEE
				}
			} else {
				id, _ := strconv.Atoi(t[2])
				all = t[3] == "1"
				sched = strings.Split(t[4], ",")
				buf = make([]byte, length)
				for j := range buf {
					buf[j] = xferWriteByte(id, j)
				}
			}
			done := false
			var gotErr error
			gotN := 0
			cb := func(err error, n int) {
				if done {
					fmt.Fprintf(w, "< callback-twice\n")
				}
				done, gotErr, gotN = true, err, n
			}
			var wire []byte
			if kind == "adapter" {
				fds, err := syscall.Socketpair(syscall.AF_UNIX, syscall.SOCK_STREAM|syscall.SOCK_NONBLOCK, 0)
				if err != nil {
					fmt.Fprintf(w, "#env socketpair: %v\n", err)
					return
				}
				_, _ = syscall.Write(fds[1], []byte{1}) // fds[0] stays readable (and is writable)
				f := os.NewFile(uintptr(fds[0]), "xfer")
				rw := &xferRW{stream: stream, sched: sched}
				var ad *sonic.AsyncAdapter
				sonic.NewAsyncAdapter(ioc, f, rw, func(err error, a *sonic.AsyncAdapter) { ad = a })
				if ad == nil {
					fmt.Fprintf(w, "#env adapter\n")
					return
				}
				if isRead {
					if all {
						ad.AsyncReadAll(buf[:length], cb)
					} else {
						ad.AsyncRead(buf[:length], cb)
					}
				} else if all {
					ad.AsyncWriteAll(buf, cb)
				} else {
					ad.AsyncWrite(buf, cb)
				}
				deadline := time.Now().Add(5 * time.Second)
				for !done && time.Now().Before(deadline) {
					_, _ = ioc.PollOne()
				}
				stream, wire = rw.stream, rw.wire
				_ = ad.Close()
				_ = f.Close()
				_ = syscall.Close(fds[1])
				if rw.bad != "" {
					fmt.Fprintf(w, "#env %s\n", rw.bad)
				}
			} else if !isRead {
				// fifo, write side: the library holds the write end of a one-page pipe
				if tmp == "" {
					tmp, _ = os.MkdirTemp("", "xfer")
				}
				fifoN++
				path := filepath.Join(tmp, fmt.Sprintf("w%d", fifoN))
				if err := syscall.Mkfifo(path, 0o600); err != nil {
					fmt.Fprintf(w, "#env mkfifo: %v\n", err)
					return
				}
				rfd, err := syscall.Open(path, os.O_RDONLY|syscall.O_NONBLOCK, 0)
				if err != nil {
					fmt.Fprintf(w, "#env open-peer: %v\n", err)
					return
				}
				if _, _, e := syscall.Syscall(syscall.SYS_FCNTL, uintptr(rfd), 1031 /* F_SETPIPE_SZ */, 4096); e != 0 {
					fmt.Fprintf(w, "#env setpipe-sz: %v\n", e)
					syscall.Close(rfd)
					return
				}
				f, err := sonic.Open(ioc, path, os.O_WRONLY|syscall.O_NONBLOCK, 0)
				if err != nil {
					fmt.Fprintf(w, "#env open: %v\n", err)
					syscall.Close(rfd)
					return
				}
				drain := func() {
					tmpb := make([]byte, 8192)
					for rfd >= 0 {
						n, err := syscall.Read(rfd, tmpb)
						if n <= 0 || err != nil {
							return
						}
						wire = append(wire, tmpb[:n]...)
					}
				}
				issued := false
				pollOnce := func() {
					deadline := time.Now().Add(5 * time.Second)
					for !done && time.Now().Before(deadline) {
						if n, _ := ioc.PollOne(); n > 0 {
							return
						}
					}
				}
				issue := func() {
					issued = true
					if deferred {
						ioc.Dispatched = sonic.MaxCallbackDispatch
					}
					if all {
						f.AsyncWriteAll(buf, cb)
					} else {
						f.AsyncWrite(buf, cb)
					}
					if deferred {
						ioc.Dispatched = 0
						if done {
							fmt.Fprintf(w, "< completed-inline-at-the-dispatch-limit\n")
						}
						pollOnce()
					}
				}
				for _, e := range sched {
					if done {
						break
					}
					switch {
					case e == "b":
					case e == "f":
						drain()
						_ = syscall.Close(rfd)
						rfd = -1
						if !issued {
							issue()
						} else {
							pollOnce()
						}
					case strings.HasPrefix(e, "m"):
						if !issued {
							issue()
						} else {
							drain()
							pollOnce()
						}
					}
				}
				if !issued {
					issue()
				}
				drain()
				if rfd >= 0 {
					_ = syscall.Close(rfd)
				}
				_ = f.Close()
			} else {
				// fifo, read side
				if tmp == "" {
					tmp, _ = os.MkdirTemp("", "xfer")
				}
				fifoN++
				// the reading object (file.go's read reactor: a File on a FIFO, or a Conn from sonic.Dial — conn.go embeds the same
				// reactor) and the two things the harness does to its peer end
				var f interface {
					AsyncRead([]byte, sonic.AsyncCallback)
					AsyncReadAll([]byte, sonic.AsyncCallback)
					Close() error
					RawFd() int
				}
				var feedPeer func([]byte)
				var closePeer func()
				pfd := -1
				if kind == "tcp" {
					ln, err := net.Listen("tcp", "127.0.0.1:0")
					if err != nil {
						fmt.Fprintf(w, "#env listen: %v\n", err)
						return
					}
					conn, err := sonic.Dial(ioc, "tcp", ln.Addr().String())
					if err != nil {
						ln.Close()
						fmt.Fprintf(w, "#env dial: %v\n", err)
						return
					}
					peer, err := ln.Accept()
					ln.Close()
					if err != nil {
						conn.Close()
						fmt.Fprintf(w, "#env accept: %v\n", err)
						return
					}
					defer peer.Close()
					f = conn
					pfd = 0
					// loopback delivery is done when write returns in practice; the wait makes the first (inline) attempt see the chunk
					feedPeer = func(b []byte) { _, _ = peer.Write(b); waitReady(conn.RawFd(), unix.POLLIN, 500) }
					closePeer = func() { _ = peer.(*net.TCPConn).CloseWrite(); waitReady(conn.RawFd(), unix.POLLIN, 500) }
				} else {
					path := filepath.Join(tmp, fmt.Sprintf("f%d", fifoN))
					if err := syscall.Mkfifo(path, 0o600); err != nil {
						fmt.Fprintf(w, "#env mkfifo: %v\n", err)
						return
					}
					ff, err := sonic.Open(ioc, path, os.O_RDONLY|syscall.O_NONBLOCK, 0)
					if err != nil {
						fmt.Fprintf(w, "#env open: %v\n", err)
						return
					}
					wfd, err := syscall.Open(path, os.O_WRONLY|syscall.O_NONBLOCK, 0)
					if err != nil {
						fmt.Fprintf(w, "#env open-peer: %v\n", err)
						return
					}
					f = ff
					pfd = wfd
					feedPeer = func(b []byte) { _, _ = syscall.Write(wfd, b) }
					closePeer = func() { _ = syscall.Close(wfd) }
				}
				soFar := 0
				issued := false
				fedBeforeIssue := false
				issue := func() {
					issued = true
					if deferred {
						ioc.Dispatched = sonic.MaxCallbackDispatch
					}
					if all {
						f.AsyncReadAll(buf[:length], cb)
					} else {
						f.AsyncRead(buf[:length], cb)
					}
					if deferred {
						ioc.Dispatched = 0
						if done {
							fmt.Fprintf(w, "< completed-inline-at-the-dispatch-limit\n")
						}
						// the pipe is readable (a chunk was fed, or the writer is gone): the poller makes the first attempt; with an
						// empty pipe there is nothing to dispatch yet
						if fedBeforeIssue {
							deadline := time.Now().Add(5 * time.Second)
							for !done && time.Now().Before(deadline) {
								if n, _ := ioc.PollOne(); n > 0 {
									break
								}
							}
						}
					}
				}
				for _, e := range sched {
					if done {
						break
					}
					fed := false
					switch {
					case e == "b":
						// an empty pipe: only observable by the call made when the operation is issued (afterwards the reactor waits)
					case e == "e":
						closePeer()
						pfd = -1
						fed = true
					case strings.HasPrefix(e, "m"):
						k, _ := strconv.Atoi(e[1:])
						if k > length-soFar {
							k = length - soFar
						}
						if k > len(stream) {
							k = len(stream)
						}
						if k > 0 {
							feedPeer(stream[:k])
							stream = stream[k:]
							soFar += k
							fed = true
						}
					}
					if !issued {
						fedBeforeIssue = fed
						issue()
					} else if fed {
						deadline := time.Now().Add(5 * time.Second)
						before := soFar
						_ = before
						for !done && time.Now().Before(deadline) {
							n, _ := ioc.PollOne()
							if n > 0 {
								break
							}
						}
					}
				}
				if !issued {
					issue()
				}
				if pfd >= 0 {
					closePeer()
				}
				_ = f.Close()
			}
			if !done {
				fmt.Fprintf(w, "< %s inflight\n", t[0])
				continue
			}
			if isRead {
				n := gotN
				if n < 0 || n > len(buf) {
					fmt.Fprintf(w, "< read %s %d - 0\n", xferRes(gotErr), n)
					continue
				}
				clean := 1
				for _, c := range buf[n:] {
					if c != 0xEE {
						clean = 0
					}
				}
				fmt.Fprintf(w, "< read %s %d %s %d\n", xferRes(gotErr), n, xferHex(buf[:n]), clean)
			} else {
				fmt.Fprintf(w, "< write %s %d %s\n", xferRes(gotErr), gotN, xferHex(wire))
			}
		}
	}
}
