package main

// Component wswrite (C16): a real websocket.Stream in the client role attached (hook VerifAttach, build tag verif)
// to the scripted in-memory transport memStream.
//
// Script operations
//
//	new <max>                          NewWebsocketStream(RoleClient); SetMaxMessageSize(max); VerifAttach(memStream)
//	setmax <max>                       SetMaxMessageSize(max) on the live stream
//	plan <n>...                        partial-write behaviour of the transport: the next writes accept at most n bytes each
//	defer <0|1>                        asynchronous transport writes complete only on "pump"
//	write <text|binary> <hex>          Stream.Write(payload, type)
//	awrite <text|binary> <hex>         Stream.AsyncWrite
//	frame <opcode> <fin> <hex|none>    AcquireFrame; SetFIN?; SetOpcode; SetPayload(hex) unless "none"; Stream.WriteFrame
//	aframe <opcode> <fin> <hex|none>   ... Stream.AsyncWriteFrame
//	flush | aflush                     Stream.Flush / AsyncFlush
//	close <code> <hex> | aclose ...    Stream.Close / AsyncClose
//	pump                               the transport completes what it can of the pending asynchronous write
//
// Payloads may be written "@<n>:<seed>" = n position-dependent bytes (to keep scripts short).
//
// Trace per operation: "? flen <n>" (length of the frame AcquireFrame handed to the caller: the pool is the
// runtime's), "? key <hex>" for every masking key drawn from crypto/rand during the call (rand.Reader is replaced by
// a seeded generator), then "< <err> cbs <id:err>... wire <hex> segs <n>... pending <n> dst <len>": the call's
// result, the callbacks that ran (operation index : error), the bytes the transport accepted during the call and
// how they were split, Stream.Pending() and the bytes left in the stream's write buffer.

import (
	"bufio"
	"bytes"
	"crypto/rand"
	"errors"
	"fmt"
	"io"
	"strings"

	"github.com/talostrading/sonic"
	"github.com/talostrading/sonic/codec/websocket"
	"github.com/talostrading/sonic/sonicerrors"
)

func init() {
	components["wswrite"] = &component{gen: wswriteGen, enum: wswriteEnum, run: wswriteRun, direct: wswriteDirect}
}

// ---- generator -----------------------------------------------------------------------------------

func wswritePayload(r *rng, max int) string {
	n := 0
	switch r.intn(14) {
	case 0:
		n = 0
	case 1:
		n = 1
	case 2:
		n = 125
	case 3:
		n = 126
	case 4:
		n = 127
	case 5:
		n = r.pick(65535, 65536)
		if r.intn(5) != 0 {
			n = 300
		}
	case 6:
		n = max
	case 7:
		n = max + 1
	case 8:
		n = max - 1
	case 9:
		n = 300
	default:
		n = r.intn(140)
	}
	if n < 0 {
		n = 0
	}
	if n > 70000 {
		n = 70000
	}
	if n <= 12 {
		return wsdHex(r.bytes(n))
	}
	return fmt.Sprintf("@%d:%d", n, r.intn(251))
}

func wswriteGen(r *rng, maxops int, w *bufio.Writer) {
	max := r.pick(125, 126, 127, 300, 300, 1000, 1000, 200, 4096)
	if r.intn(8) == 0 {
		max = r.pick(0, 1, 5)
	}
	if r.intn(15) == 0 {
		max = r.pick(65535, 65536, 66000)
	}
	fmt.Fprintf(w, "! new %d\n", max)
	async := r.intn(3) == 0 // one mode per script: the stream allows one write in flight
	deferred := async && r.intn(2) == 0
	if deferred {
		fmt.Fprintf(w, "! defer 1\n")
	}
	n := 2 + r.intn(maxops)
	if n > 14 {
		n = 14
	}
	ctlPayload := func() string {
		switch r.intn(4) {
		case 0:
			return "none"
		case 1:
			return "-"
		default:
			return wsdHex(r.bytes(1 + r.intn(125)))
		}
	}
	outstanding := 0
	for i := 0; i < n; i++ {
		// partial-write plan for the next operation(s)
		if r.intn(3) == 0 {
			k := 1 + r.intn(5)
			var p []string
			for j := 0; j < k; j++ {
				v := r.pick(1, 1, 2, 3, 5, 6, 7, 8, 13, 14, 15, 100, 4096)
				if async && r.intn(6) == 0 {
					v = 0 // would block: the asynchronous write stays pending until "pump"
				}
				p = append(p, fmt.Sprint(v))
			}
			fmt.Fprintf(w, "! plan %s\n", strings.Join(p, " "))
		}
		pre := ""
		if async {
			pre = "a"
		}
		if r.intn(12) == 0 {
			// the maximum is changed on the live stream: lowered below / raised above the sizes written so far
			max = r.pick(max/2, max+37, 125, 126, 300, max-1, max+1)
			if max < 0 {
				max = 0
			}
			fmt.Fprintf(w, "! setmax %d\n", max)
		}
		switch r.intn(10) {
		case 0, 1, 2, 3:
			fmt.Fprintf(w, "! %swrite %s %s\n", pre, []string{"text", "binary"}[r.intn(2)], wswritePayload(r, max))
		case 4, 5:
			if r.intn(6) == 0 {
				// a payload-less frame from the public constructor NewFrame() instead of the stream's pool. (With a payload such
				// a frame is outside the documented usage: AcquireFrame reserves the room of the masking key before
				// SetPayload, NewFrame does not, and the key then overwrites the payload.)
				fmt.Fprintf(w, "! %sframe %d %d none fresh\n", pre, r.pick(9, 10, 1, 2, 0), r.pick(1, 1, 0))
				break
			}
			fmt.Fprintf(w, "! %sframe %d %d %s%s\n", pre, r.pick(9, 9, 10, 1, 2, 0), r.pick(1, 1, 1, 0), ctlPayload(),
				wswPick(r, "", "", "", " retype=1", " retype=2", " retype=9", " retype=10", " retype=8"))
		case 6:
			// long -> short -> none: the pooled frame is reused
			fmt.Fprintf(w, "! %swrite binary @300:%d\n", pre, r.intn(251))
			if async {
				fmt.Fprintf(w, "! pump\n! pump\n")
			}
			fmt.Fprintf(w, "! %sframe 9 1 %s\n", pre, wswPick(r, "none", "-", "none"))
		case 7:
			fmt.Fprintf(w, "! %sflush\n", pre)
		case 8:
			fmt.Fprintf(w, "! %sframe %d 1 %s%s\n", pre, r.pick(1, 2), wswritePayload(r, max), wswPick(r, "", "", " retype=1", " retype=2", " retype=10"))
		case 9:
			if r.intn(4) == 0 {
				fmt.Fprintf(w, "! %sclose %d %s\n", pre, r.pick(1000, 1001, 1011), wsdHex(r.bytes(r.intn(20))))
			} else {
				fmt.Fprintf(w, "! %swrite text %s\n", pre, wswritePayload(r, max))
			}
		}
		outstanding++
		if async && (r.intn(2) == 0 || outstanding > 3) {
			fmt.Fprintf(w, "! pump\n")
			if r.intn(2) == 0 {
				fmt.Fprintf(w, "! pump\n")
			}
			outstanding = 0
		}
	}
	if async {
		for i := 0; i < 8; i++ {
			fmt.Fprintf(w, "! pump\n")
		}
	}
	fmt.Fprintf(w, "! %s\n", map[bool]string{false: "flush", true: "aflush"}[async])
	if async {
		fmt.Fprintf(w, "! pump\n! pump\n")
	}
}

func wswPick(r *rng, xs ...string) string { return xs[r.intn(len(xs))] }

// enum <depth>: every sequence of <depth> operations over a small alphabet (blocking mode), with a 1-byte-at-a-time
// and a whole-write transport.
func wswriteEnum(args []string, w *bufio.Writer) {
	depth := atoi(args[0])
	alphabet := []string{"write text -", "write binary 01", "write text @126:3", "write binary @300:7", "frame 9 1 none", "frame 9 1 -",
		"frame 10 1 0102", "frame 1 0 @130:1", "write text @301:1", "flush"}
	k := 0
	var rec func(prefix []string)
	rec = func(prefix []string) {
		if len(prefix) == depth {
			for _, plan := range []string{"", "! plan 1 1 1 1 1 1 1 2 3 5 7\n"} {
				fmt.Fprintf(w, "# script %d\n! new 300\n%s", k, plan)
				for _, op := range prefix {
					fmt.Fprintf(w, "! %s\n", op)
				}
				k++
			}
			return
		}
		for _, op := range alphabet {
			rec(append(prefix, op))
		}
	}
	rec(nil)
}

// ---- run -----------------------------------------------------------------------------------------

func wswriteBytes(s string) []byte {
	if strings.HasPrefix(s, "@") {
		var n, seed int
		fmt.Sscanf(s, "@%d:%d", &n, &seed)
		b := make([]byte, n)
		for i := range b {
			b[i] = byte((i*7 + seed + i/251) % 256)
		}
		return b
	}
	return wsdUnhex(s)
}

type wswKeyReader struct {
	r    *rng
	keys []string
}

func (k *wswKeyReader) Read(p []byte) (int, error) {
	copy(p, k.r.bytes(len(p)))
	k.keys = append(k.keys, wsdHex(p))
	return len(p), nil
}

var wswriteIO *sonic.IO

func wswErrName(err error) string {
	switch {
	case err == nil:
		return "nil"
	case errors.Is(err, websocket.ErrMessageTooBig):
		return "toobig"
	case errors.Is(err, sonicerrors.ErrCancelled):
		return "cancelled"
	case errors.Is(err, io.EOF):
		return "eof"
	default:
		return "other"
	}
}

func wswriteRun(script []string, w *bufio.Writer) {
	if wswriteIO == nil {
		wswriteIO = sonic.MustIO()
	}
	oldReader := rand.Reader
	defer func() { rand.Reader = oldReader }()
	var (
		s   *websocket.Stream
		ms  *memStream
		kr  = &wswKeyReader{r: newRng(0x5eed)} // keys depend only on how many were drawn before: shrinking a script keeps the earlier ones
		cbs []string
	)
	rand.Reader = kr
	for idx, line := range script {
		f := strings.Fields(line)
		fmt.Fprintf(w, "! %s\n", line)
		kr.keys = kr.keys[:0]
		cbs = cbs[:0]
		flen := -1
		res := "-"
		outBefore, segBefore := 0, 0
		if ms != nil {
			outBefore, segBefore = len(ms.out), len(ms.writes)
		}
		cb := func(err error) { cbs = append(cbs, fmt.Sprintf("%d:%s", idx, wswErrName(err))) }
		build := func() *websocket.Frame {
			fr := s.AcquireFrame()
			if len(f) > 4 && f[4] == "fresh" {
				// a frame from the public constructor instead of the stream's pool (nothing has touched its header yet)
				nf := websocket.NewFrame()
				fr = &nf
			}
			flen = len(*fr)
			if f[2] == "1" {
				fr.SetFIN()
			}
			if len(f) > 4 && strings.HasPrefix(f[4], "retype=") {
				// a caller-built frame whose type was set before and is changed now: the opcode is replaced, not merged
				switch atoi(strings.TrimPrefix(f[4], "retype=")) {
				case 0:
					fr.SetContinuation()
				case 1:
					fr.SetText()
				case 2:
					fr.SetBinary()
				case 8:
					fr.SetClose()
				case 9:
					fr.SetPing()
				case 10:
					fr.SetPong()
				}
			}
			fr.SetOpcode(websocket.Opcode(atoi(f[1])))
			if f[3] != "none" {
				fr.SetPayload(wswriteBytes(f[3]))
			}
			return fr
		}
		mt := func() websocket.MessageType {
			if f[1] == "text" {
				return websocket.TypeText
			}
			return websocket.TypeBinary
		}
		p := guard(func() {
			switch f[0] {
			case "new":
				var err error
				s, err = websocket.NewWebsocketStream(wswriteIO, nil, websocket.RoleClient)
				if err != nil {
					panic(err)
				}
				s.SetMaxMessageSize(atoi(f[1]))
				ms = newMemStream()
				if err := s.VerifAttach(ms); err != nil {
					panic(err)
				}
				outBefore, segBefore = 0, 0
			case "setmax":
				s.SetMaxMessageSize(atoi(f[1]))
			case "plan":
				ms.writePlan = ms.writePlan[:0]
				for _, a := range f[1:] {
					ms.writePlan = append(ms.writePlan, atoi(a))
				}
			case "defer":
				ms.deferWrites = f[1] == "1"
			case "write":
				res = wswErrName(s.Write(wswriteBytes(f[2]), mt()))
			case "awrite":
				s.AsyncWrite(wswriteBytes(f[2]), mt(), cb)
			case "frame":
				res = wswErrName(s.WriteFrame(build()))
			case "aframe":
				s.AsyncWriteFrame(build(), cb)
			case "flush":
				res = wswErrName(s.Flush())
			case "aflush":
				s.AsyncFlush(cb)
			case "close":
				res = wswErrName(s.Close(websocket.CloseCode(atoi(f[1])), string(wsdUnhex(f[2]))))
			case "aclose":
				s.AsyncClose(websocket.CloseCode(atoi(f[1])), string(wsdUnhex(f[2])), cb)
			case "pump":
				ms.pump()
			default:
				panic("bad op " + f[0])
			}
		})
		if p {
			fmt.Fprintf(w, "< panic\n")
			continue
		}
		if flen >= 0 {
			fmt.Fprintf(w, "? flen %d\n", flen)
		}
		for _, k := range kr.keys {
			fmt.Fprintf(w, "? key %s\n", k)
		}
		var segs []string
		for _, n := range ms.writes[segBefore:] {
			segs = append(segs, fmt.Sprint(n))
		}
		dst := s.VerifDst()
		fmt.Fprintf(w, "< %s cbs %s wire %s segs %s pending %d dst %d\n", res, wswJoinOr(cbs), wsdHex(ms.out[outBefore:]), wswJoinOr(segs),
			s.Pending(), dst.ReadLen()+dst.WriteLen())
	}
}

func wswJoinOr(xs []string) string {
	if len(xs) == 0 {
		return "-"
	}
	return strings.Join(xs, ",")
}

// wswriteDirect: blocking writes on a transport that fails once (the model and the wire monitor are stated for a transport
// that accepts every write). After the failure the application goes on using the stream; once a Flush has succeeded, the wire
// must hold the submitted frames — each masked, well-formed, with the caller's bytes — in submission order and nothing
// else. A frame whose write failed may be on the wire or not; it being there twice is reported under its own key.
func wswriteDirect(seed uint64, tier string, args []string, w *bufio.Writer) {
	trials := 600
	if tier == "thorough" {
		trials = 8000
	}
	r := newRng(seed*7919 + 11)
	if wswriteIO == nil {
		wswriteIO = sonic.MustIO()
	}
	seen := map[string]bool{}
	fails := 0
	report := func(key, format string, a ...any) {
		if seen[key] {
			return
		}
		seen[key] = true
		fails++
		fmt.Fprintf(w, "DIRECT-FAIL key=wswrite.%s %s\n", key, fmt.Sprintf(format, a...))
	}
	type sub struct {
		fin     bool
		op      int
		payload []byte
	}
	for t := 0; t < trials; t++ {
		func() {
			defer func() {
				if p := recover(); p != nil {
					report("panic", "a stream used after a failed blocking write panicked: %v", p)
				}
			}()
			s, err := websocket.NewWebsocketStream(wswriteIO, nil, websocket.RoleClient)
			if err != nil {
				return
			}
			ms := newMemStream()
			if err := s.VerifAttach(ms); err != nil {
				return
			}
			var subs []sub
			var trace []string
			nops := 3 + r.intn(6)
			failAt := r.intn(nops)
			failed := -1 // index in subs of the frame whose write failed
			for i := 0; i < nops; i++ {
				if i == failAt {
					ms.writeErr = errInjected
				}
				before := len(subs)
				var e error
				switch r.intn(5) {
				case 0, 1:
					p := r.bytes(r.pick(0, 1, 5, 125, 126, 300))
					ty := websocket.TypeText
					if r.intn(2) == 0 {
						ty = websocket.TypeBinary
					}
					subs = append(subs, sub{true, int(ty), p})
					e = s.Write(p, ty)
					trace = append(trace, fmt.Sprintf("Write(%d bytes)=%v", len(p), e))
				case 2, 3:
					f := s.AcquireFrame()
					op := r.pick(9, 10, 1, 2)
					p := r.bytes(r.pick(0, 2, 7, 125))
					f.SetFIN().SetOpcode(websocket.Opcode(op)).SetPayload(p)
					subs = append(subs, sub{true, op, p})
					e = s.WriteFrame(f)
					trace = append(trace, fmt.Sprintf("WriteFrame(op %d, %d bytes)=%v", op, len(p), e))
				default:
					e = s.Flush()
					trace = append(trace, fmt.Sprintf("Flush()=%v", e))
				}
				if e != nil && failed < 0 && len(subs) > 0 {
					failed = before
					if failed >= len(subs) {
						failed = len(subs) - 1
					}
				}
			}
			var ferr error
			for i := 0; i < 3; i++ {
				if ferr = s.Flush(); ferr == nil {
					break
				}
			}
			if ferr != nil || s.Pending() != 0 {
				report("after-failed-write", "Flush keeps failing on a transport that failed once (%v, pending %d) after %v", ferr, s.Pending(), trace)
				return
			}
			frames, rest := wsParseWire(ms.out)
			if len(rest) != 0 {
				report("after-failed-write", "%d bytes on the wire form no frame after %v", len(rest), trace)
				return
			}
			i := 0
			for k, f := range frames {
				same := func(j int) bool {
					return j >= 0 && j < len(subs) && f.masked && f.rsv == 0 && f.fin == subs[j].fin && f.op == subs[j].op && bytes.Equal(f.payload, subs[j].payload)
				}
				switch {
				case same(i):
					i++
				case i > 0 && same(i-1):
					report("frame-sent-twice-after-failed-write", "frame %d of the wire repeats submission %d (sequence: %v)", k, i-1, trace)
				default:
					report("after-failed-write", "frame %d of the wire (fin=%v op=%d masked=%v, %d bytes) is not submission %d after %v", k, f.fin, f.op, f.masked, len(f.payload), i, trace)
					return
				}
			}
			if i != len(subs) {
				report("after-failed-write", "%d of %d submitted frames are on the wire after a successful Flush (%v)", i, len(subs), trace)
			}
		}()
	}
	// every payload size, densely: one stream whose write buffer grows as the sizes ascend (each frame flushed and compared at
	// once), and fresh streams for every size around the initial capacity of the write buffer — a frame that ends a few bytes
	// past what the buffer happens to hold must still be complete on the wire
	swept := 0
	sweep := func(s *websocket.Stream, ms *memStream, n int, how string) bool {
		p := make([]byte, n)
		for j := range p {
			p[j] = byte(j*7 + n)
		}
		ms.out = ms.out[:0]
		var e error
		switch how {
		case "write":
			e = s.Write(p, websocket.TypeBinary)
		default:
			f := s.AcquireFrame()
			f.SetFIN().SetOpcode(websocket.OpcodeText).SetPayload(p)
			e = s.WriteFrame(f)
		}
		swept++
		frames, rest := wsParseWire(ms.out)
		if e != nil || len(rest) != 0 || len(frames) != 1 || !frames[0].fin || !frames[0].masked || !bytes.Equal(frames[0].payload, p) {
			got := -1
			if len(frames) > 0 {
				got = len(frames[0].payload)
			}
			report("size-sweep", "%s of a %d-byte payload: err=%v, %d bytes on the wire = %d frame(s) + %d stray bytes, first payload %d bytes", how, n, e, len(ms.out), len(frames), len(rest), got)
			return false
		}
		return true
	}
	func() {
		defer func() {
			if p := recover(); p != nil {
				report("panic", "size sweep panicked: %v", p)
			}
		}()
		fresh := func() (*websocket.Stream, *memStream) {
			s, err := websocket.NewWebsocketStream(wswriteIO, nil, websocket.RoleClient)
			if err != nil {
				panic(err)
			}
			ms := newMemStream()
			if err := s.VerifAttach(ms); err != nil {
				panic(err)
			}
			s.SetMaxMessageSize(1 << 20)
			return s, ms
		}
		for _, how := range []string{"write", "frame"} {
			s, ms := fresh()
			top := 20000
			if tier == "thorough" {
				top = 140000
			}
			for n := 0; n <= top; n++ {
				if !sweep(s, ms, n, how) {
					break
				}
			}
			for n := 3900; n <= 4200; n++ {
				fs, fms := fresh()
				if !sweep(fs, fms, n, how) {
					break
				}
			}
			// descending and irregular orders on one stream
			s, ms = fresh()
			for i := 0; i < 3000; i++ {
				n := r.pick(4096, 8192, 5370, 6906, 65536, 73720)
				if !sweep(s, ms, n-r.intn(40), how) {
					break
				}
			}
		}
	}()
	// Close with reasons of every length class: a Close that is accepted puts code + the whole reason on the wire (a reason the
	// library does not want to send is refused with an error, not cut)
	func() {
		defer func() {
			if p := recover(); p != nil {
				report("panic", "Close with a long reason panicked: %v", p)
			}
		}()
		for _, async := range []bool{false, true} {
			for _, n := range []int{0, 1, 2, 100, 122, 123, 124, 125, 126, 130, 142, 200, 1000} {
				s, err := websocket.NewWebsocketStream(wswriteIO, nil, websocket.RoleClient)
				if err != nil {
					return
				}
				ms := newMemStream()
				if err := s.VerifAttach(ms); err != nil {
					return
				}
				reason := make([]byte, n)
				for j := range reason {
					reason[j] = byte('a' + j%26)
				}
				if n >= 4 {
					copy(reason[n-4:], "\xe2\x82\xac!") // a multi-byte character near the end
				}
				var e error
				if async {
					done := false
					s.AsyncClose(websocket.CloseGoingAway, string(reason), func(err error) { e, done = err, true })
					for i := 0; i < 10 && !done; i++ {
						ms.pump()
					}
				} else {
					e = s.Close(websocket.CloseGoingAway, string(reason))
				}
				swept++
				frames, rest := wsParseWire(ms.out)
				if e != nil && len(ms.out) == 0 {
					continue // refused: nothing sent
				}
				want := append([]byte{0x03, 0xe9}, reason...)
				if len(rest) != 0 || len(frames) != 1 || frames[0].op != 8 || !bytes.Equal(frames[0].payload, want) {
					got := -1
					if len(frames) > 0 {
						got = len(frames[0].payload)
					}
					report("close-reason", "Close(1001, reason of %d bytes) async=%v returned %v and put %d frame(s) + %d stray bytes on the wire; the Close payload has %d bytes, want code + reason = %d", n, async, e, len(frames), len(rest), got, len(want))
				}
			}
		}
	}()
	fmt.Fprintf(w, "DIRECT-STAT {\"wswrite_failed_write_trials\": %d, \"wswrite_size_sweep_frames\": %d, \"wswrite_failed_write_keys\": %d}\n", trials, swept, fails)
}
