package main

// Script generators for the "wsconc" component (C17): random sessions of application calls (also from inside
// callbacks), peer frames, polls and drains; and exhaustive enumeration over a small event alphabet.

import (
	"bufio"
	"fmt"
	"strings"
)

type wsconcG struct {
	r    *rng
	w    *bufio.Writer
	id   int
	raw  bool
	max  int
	bump bool // the script raises the maximum on the live stream (setmax): no frame above the original maximum is sent
	frag bool // the peer is inside a fragmented message
}

func (g *wsconcG) next() int { g.id++; return g.id }

func (g *wsconcG) wlen() int {
	switch g.r.intn(12) {
	case 0:
		return 0
	case 1:
		return 1
	case 2:
		return g.r.pick(125, 126, 127)
	case 3:
		return g.r.pick(300, 1000, 1001)
	case 4:
		if g.raw && g.max > 100000 {
			return g.r.pick(65535, 65536, 13000, 7000)
		}
		return 5
	case 5, 6:
		if g.raw && g.max > 100000 {
			return g.r.pick(7000, 13000, 20000, 40000)
		}
		return 17
	case 7:
		if g.r.intn(3) == 0 && !g.bump {
			return g.max + 1
		}
		return 2
	default:
		return g.r.intn(12)
	}
}

// apiAction: one application call (text without "!"); may emit a "prog" line for its callback first.
func (g *wsconcG) apiAction(depth int) string {
	id := g.next()
	var a string
	switch g.r.intn(14) {
	case 0, 1, 2, 3:
		a = fmt.Sprintf("read %d", id)
	case 4:
		a = fmt.Sprintf("readmsg %d %d", id, g.r.pick(0, 1, 5, 16, 125, 300, 1000))
	case 5, 6, 7, 8:
		a = fmt.Sprintf("write %d %d %d", id, g.r.pick(1, 2), g.wlen())
	case 9, 10:
		op := g.r.pick(1, 2, 0, 9, 9, 10)
		n := g.wlen()
		if op >= 8 {
			n = g.r.pick(0, 1, 5, 125)
		}
		a = fmt.Sprintf("writeframe %d %d %d %d", id, g.r.pick(1, 1, 1, 0), op, n)
	case 11, 12:
		a = fmt.Sprintf("flush %d", id)
	default:
		if g.r.intn(3) == 0 {
			a = fmt.Sprintf("close %d %d %s", id, g.r.pick(1000, 1001, 3000), wsHx(g.r.bytes(g.r.pick(0, 0, 3))))
		} else {
			a = fmt.Sprintf("flush %d", id)
		}
	}
	// what the callback does: typical usage re-arms the read from the read callback
	if depth < 3 {
		var body []string
		isRead := strings.HasPrefix(a, "read")
		if isRead && g.r.intn(10) < 6 {
			if g.r.intn(4) == 0 {
				body = append(body, fmt.Sprintf("readmsg %d %d", g.next(), g.r.pick(5, 125, 1000)))
			} else {
				body = append(body, fmt.Sprintf("read %d", g.next()))
			}
		}
		for g.r.intn(10) < 2 {
			body = append(body, g.apiAction(depth+1))
		}
		if g.r.intn(2) == 0 {
			for i, j := 0, len(body)-1; i < j; i, j = i+1, j-1 {
				body[i], body[j] = body[j], body[i]
			}
		}
		if len(body) > 0 {
			fmt.Fprintf(g.w, "! prog %d %s\n", id, strings.Join(body, " ; "))
		}
	}
	return a
}

func (g *wsconcG) peerAction() string {
	ctlLen := func() int { return g.r.pick(0, 1, 2, 4, 125, g.r.intn(10)) }
	switch g.r.intn(20) {
	case 0, 1, 2, 3, 4, 5, 6:
		return fmt.Sprintf("peer 1 0 9 0 %s", wsHx(g.r.bytes(ctlLen())))
	case 7:
		return fmt.Sprintf("peer 1 0 10 0 %s", wsHx(g.r.bytes(ctlLen())))
	case 8, 9, 10, 11, 12:
		p := g.r.bytes(g.r.pick(0, 1, 3, 7, 126, 300))
		if g.frag {
			fin := g.r.intn(2) == 0
			g.frag = !fin
			return fmt.Sprintf("peer %d 0 0 0 %s", b01(fin), wsHx(p))
		}
		fin := g.r.intn(4) != 0
		g.frag = !fin
		return fmt.Sprintf("peer %d 0 %d 0 %s", b01(fin), g.r.pick(1, 2), wsHx(p))
	case 13:
		switch g.r.intn(3) {
		case 0:
			return "peer 1 0 8 0 -"
		case 1:
			return fmt.Sprintf("peer 1 0 8 0 %s", wsHx([]byte{0x03, byte(g.r.pick(0xe8, 0xe9))}))
		default:
			return "peer 1 0 8 0 03e86f6b"
		}
	case 14:
		// a frame that violates the framing rules
		switch g.r.intn(5) {
		case 0:
			return "peer 1 4 1 0 61"
		case 1:
			return "peer 1 0 1 1 61"
		case 2:
			return fmt.Sprintf("peer 1 0 9 0 %s", wsHx(g.r.bytes(126)))
		case 3:
			return "peer 0 0 9 0 61"
		default:
			return fmt.Sprintf("peer 1 0 %d 0 61", g.r.pick(3, 11))
		}
	case 15:
		if g.r.intn(4) == 0 {
			return "peereof"
		}
		return "peer 1 0 9 0 -"
	case 16, 17:
		return "drain"
	default:
		return "poll"
	}
}

func wsconcGen(r *rng, maxops int, w *bufio.Writer) {
	g := &wsconcG{r: r, w: w}
	g.raw = r.intn(4) != 0
	g.max = r.pick(524288, 524288, 524288, 1000)
	g.bump = r.intn(3) == 0
	if g.bump {
		g.max = 524288 // (no size the generator draws exceeds it, whichever side sends)
	}
	mode := "conn"
	snd, rcv := 0, 0
	if g.raw {
		mode = "raw"
		snd, rcv = 4096, 4096
	}
	fmt.Fprintf(w, "! new rw=%s snd=%d rcv=%d max=%d\n", mode, snd, rcv, g.max)
	if r.intn(3) == 0 {
		// the usual client: a read that re-arms itself, pings from the peer, writes in between
		a, b, c := g.next(), g.next(), g.next()
		fmt.Fprintf(w, "! prog %d read %d\n! prog %d read %d\n! read %d\n", a, b, b, c, a)
	}
	n := 3 + r.intn(maxops)
	for i := 0; i < n; i++ {
		switch r.intn(10) {
		case 0, 1, 2, 3:
			a := g.apiAction(0)
			fmt.Fprintf(w, "! %s\n", a)
		case 4, 5, 6:
			fmt.Fprintf(w, "! %s\n", g.peerAction())
		default:
			if g.bump && r.intn(3) == 0 {
				fmt.Fprintf(w, "! setmax\n")
			}
			fmt.Fprintf(w, "! poll\n")
		}
	}
	fmt.Fprintf(w, "! finish\n")
}

// wsconcEnum: every sequence of k events over a small alphabet (reads that re-arm themselves, a write that fits the
// socket buffer, a write that blocks half-way, a Ping, a data frame, a poll, a flush, a message read whose callback
// writes).
// enum scenarios: hand-written sessions in which completion callbacks issue several operations while a flush is (again) in
// flight: the operations queued behind the first flush must each complete exactly once and in order, also when the first of them
// to be notified starts the next parked write and queues more operations behind that one.
func wsconcScenarios(w *bufio.Writer) {
	n := 0
	emit := func(lines ...string) {
		fmt.Fprintf(w, "# script s%d\n! new rw=raw snd=4096 rcv=4096 max=524288\n", n)
		n++
		for _, l := range lines {
			fmt.Fprintf(w, "! %s\n", l)
		}
		fmt.Fprintf(w, "! finish\n")
	}
	tail := []string{"poll", "drain", "poll", "drain", "poll", "drain", "poll", "drain", "poll"}
	with := func(head ...string) []string { return append(head, tail...) }
	for _, second := range []string{"write 40 1 5", "flush 40", "writeframe 40 1 2 7", "close 40 1000 -"} {
		// the callback of the parked write issues a write that parks again and one more operation
		emit(with("prog 10 write 30 2 13000 ; "+second, "write 10 2 13000", "write 20 1 5")...)
		emit(with("prog 10 write 30 2 13000 ; "+second, "write 10 2 13000", "read 20", "peer 1 0 1 0 6869")...)
		emit(with("prog 10 write 30 2 13000 ; "+second, "write 10 2 13000", "readmsg 20 64", "peer 1 0 9 0 aa", "peer 1 0 2 0 0102")...)
		// the first of two queued operations does it
		emit(with("prog 20 write 30 2 13000 ; "+second+" ; write 60 1 6", "write 10 2 13000", "write 20 1 5", "write 25 1 4")...)
		emit(with("prog 20 write 30 2 13000 ; "+second+" ; write 60 1 6", "write 10 2 13000", "write 20 1 5", "flush 25", "read 26", "peer 1 0 1 0 6869")...)
		emit(with("prog 20 write 30 2 13000 ; "+second, "write 10 2 13000", "flush 20", "read 25", "peer 1 0 9 0 bb", "peer 1 0 1 0 6869")...)
		// ... and once more from the second generation
		emit(with("prog 10 write 30 2 13000 ; write 35 1 5", "prog 35 write 50 2 13000 ; "+second+" ; write 60 1 6", "write 10 2 13000", "write 20 1 5", "write 25 1 4")...)
	}
}

func wsconcEnum(args []string, w *bufio.Writer) {
	if len(args) > 0 && args[0] == "scenarios" {
		wsconcScenarios(w)
		return
	}
	k := 3
	if len(args) > 0 {
		k = atoi(args[0])
	}
	const alphabet = 8
	total := 1
	for i := 0; i < k; i++ {
		total *= alphabet
	}
	for code := 0; code < total; code++ {
		fmt.Fprintf(w, "# script e%d-%d\n! new rw=raw snd=4096 rcv=4096 max=524288\n", k, code)
		c := code
		for pos := 0; pos < k; pos++ {
			id := (pos + 1) * 10
			switch c % alphabet {
			case 0:
				fmt.Fprintf(w, "! prog %d read %d\n! read %d\n", id, id+1, id)
			case 1:
				fmt.Fprintf(w, "! write %d 1 5\n", id)
			case 2:
				fmt.Fprintf(w, "! write %d 2 13000\n", id)
			case 3:
				fmt.Fprintf(w, "! peer 1 0 9 0 aa\n")
			case 4:
				fmt.Fprintf(w, "! peer 1 0 1 0 62\n")
			case 5:
				fmt.Fprintf(w, "! poll\n")
			case 6:
				fmt.Fprintf(w, "! flush %d\n", id)
			case 7:
				fmt.Fprintf(w, "! prog %d write %d 1 3\n! readmsg %d 16\n", id, id+2, id)
			}
			c /= alphabet
		}
		fmt.Fprintf(w, "! finish\n")
	}
}
