package main

// Direct (runtime-only) monitor of the "wsconc" component (C17): real kernel and goroutine timing. The raw peer runs in
// its own goroutines - one sends Pings at random moments and finally a text frame, one reads and parses everything
// the client writes - while the loop goroutine keeps one self-re-arming AsyncNextFrame outstanding and issues
// AsyncWrite calls (also while earlier ones are in flight) between polls. Nothing is placed in chosen poll cycles
// here: where a Ping lands relative to a write is up to the scheduler and the kernel. Checked at the end: every write
// callback ran exactly once with nil, the reads delivered the peer's frames in order (each once), and the peer parsed
// exactly the data frames in call order and one Pong per Ping in Ping order, well-formed, with nothing left over.

import (
	"bufio"
	"encoding/binary"
	"encoding/json"
	"fmt"
	"io"
	"runtime"
	"strings"
	"sync"
	"time"

	"github.com/talostrading/sonic"
	"github.com/talostrading/sonic/codec/websocket"
)

func wsconcDirectRound(r *rng, stats map[string]int) string {
	runtime.LockOSThread()
	defer runtime.UnlockOSThread()
	lw := &wsconcWorld{w: bufio.NewWriter(io.Discard), progs: map[int][]string{}, cbs: map[int]*wsconcCb{}}
	ioc, err := sonic.NewIO()
	if err != nil {
		return "setup newio"
	}
	lw.ioc = ioc
	defer lw.cleanup()
	raw := r.intn(3) != 0
	cfg := []string{"new", "rw=conn", "snd=0", "rcv=0", "max=524288"}
	if raw {
		cfg = []string{"new", "rw=raw", "snd=4096", "rcv=4096", "max=524288"}
	}
	if res := lw.setup(cfg); res != "ok" {
		return "setup " + res
	}
	nPings := 1 + r.intn(30)
	nWrites := 1 + r.intn(30)
	sizes := make([]int, nWrites)
	for i := range sizes {
		sizes[i] = r.pick(4, 5, 9, 130, 300)
		if raw && r.intn(4) == 0 {
			sizes[i] = r.pick(7000, 13000, 20000)
		}
	}
	pingGap := make([]int, nPings)
	pingLen := make([]int, nPings)
	for i := range pingGap {
		pingGap[i] = r.intn(400)
		pingLen[i] = r.pick(2, 2, 3, 60, 125)
	}
	pingPayload := func(j int) []byte {
		p := wsconcPat(1000+j, pingLen[j])
		binary.BigEndian.PutUint16(p, uint16(j))
		return p
	}

	// ---- the raw peer ------------------------------------------------------------------------------------
	var (
		mu       sync.Mutex
		received []wireFrame
		leftover int
		stop     = make(chan struct{})
		wg       sync.WaitGroup
	)
	wg.Add(2)
	go func() { // sender
		defer wg.Done()
		for j := 0; j < nPings; j++ {
			time.Sleep(time.Duration(pingGap[j]) * time.Microsecond)
			_ = lw.peer.SetWriteDeadline(time.Now().Add(2 * time.Second))
			if _, err := lw.peer.Write(wsEncodePeer(true, 0, 9, false, pingPayload(j))); err != nil {
				return
			}
		}
		_, _ = lw.peer.Write(wsEncodePeer(true, 0, 1, false, []byte("end")))
	}()
	go func() { // receiver
		defer wg.Done()
		var acc []byte
		buf := make([]byte, 1<<16)
		for {
			select {
			case <-stop:
				return
			default:
			}
			_ = lw.peer.SetReadDeadline(time.Now().Add(5 * time.Millisecond))
			n, err := lw.peer.Read(buf)
			if n > 0 {
				acc = append(acc, buf[:n]...)
				frames, rest := wsParseWire(acc)
				acc = append([]byte(nil), rest...)
				mu.Lock()
				received = append(received, frames...)
				leftover = len(acc)
				mu.Unlock()
			}
			if err != nil && !strings.Contains(err.Error(), "timeout") {
				return
			}
		}
	}()
	defer func() {
		close(stop)
		_ = lw.peer.SetReadDeadline(time.Now())
		wg.Wait()
	}()

	// ---- the application ---------------------------------------------------------------------------------
	var (
		wcount  = make([]int, nWrites)
		werr    string
		reads   []string
		readErr string
		ended   bool
		armed   int
	)
	var arm func()
	arm = func() {
		armed++
		lw.ws.AsyncNextFrame(func(err error, f websocket.Frame) {
			armed--
			if err != nil {
				readErr = wsErr(err)
				return
			}
			reads = append(reads, fmt.Sprintf("%d:%s", int(f.Opcode()), wsHx(f.Payload())))
			if f.Opcode() == websocket.OpcodeText {
				ended = true
				return
			}
			arm()
		})
	}
	arm()
	issued := 0
	done := func() bool {
		if !ended || issued < nWrites {
			return false
		}
		for _, c := range wcount {
			if c == 0 {
				return false
			}
		}
		mu.Lock()
		defer mu.Unlock()
		return len(received) >= nWrites+nPings
	}
	deadline := time.Now().Add(8 * time.Second)
	for !done() && time.Now().Before(deadline) {
		if issued < nWrites && r.intn(3) == 0 {
			i := issued
			issued++
			p := wsconcPat(i, sizes[i])
			binary.BigEndian.PutUint32(p, uint32(i))
			lw.ws.AsyncWrite(p, websocket.TypeBinary, func(err error) {
				wcount[i]++
				if err != nil {
					werr = wsErr(err)
				}
			})
		}
		n, _ := lw.ioc.PollOne()
		if n == 0 {
			if r.intn(4) == 0 {
				time.Sleep(20 * time.Microsecond)
			} else {
				runtime.Gosched()
			}
		}
	}
	// a few more cycles: nothing may run twice
	for k := 0; k < 20; k++ {
		_, _ = lw.ioc.PollOne()
	}
	time.Sleep(2 * time.Millisecond)
	stats["rounds"]++
	stats["writes"] += nWrites
	stats["pings"] += nPings
	if lw.txBytes > 0 && raw {
		stats["raw_rounds"]++
	}

	// ---- verdict -----------------------------------------------------------------------------------------
	desc := fmt.Sprintf("(raw=%v pings=%d writes=%d sizes=%v)", raw, nPings, nWrites, sizes)
	if werr != "" || readErr != "" || lw.ioErr {
		return fmt.Sprintf("transport write-err=%q read-err=%q %s", werr, readErr, desc)
	}
	for i, c := range wcount {
		if c != 1 {
			return fmt.Sprintf("callback-count write #%d ran %d times (issued %d of %d, reads delivered %d of %d, read armed %d) %s", i, c, issued, nWrites, len(reads), nPings+1, armed, desc)
		}
	}
	if len(reads) != nPings+1 || !ended {
		return fmt.Sprintf("callback-count reads delivered %d frames, the peer sent %d (read armed: %d) %s", len(reads), nPings+1, armed, desc)
	}
	for j := 0; j < nPings; j++ {
		if want := fmt.Sprintf("9:%s", wsHx(pingPayload(j))); reads[j] != want {
			return fmt.Sprintf("read-order read #%d delivered %s, want %s %s", j, reads[j], want, desc)
		}
	}
	mu.Lock()
	defer mu.Unlock()
	if leftover != 0 {
		return fmt.Sprintf("wire %d bytes that form no frame %s", leftover, desc)
	}
	nextData, nextPong := 0, 0
	for k, f := range received {
		if f.rsv != 0 || !f.masked || !f.fin {
			return fmt.Sprintf("wire frame #%d malformed (fin=%v rsv=%d masked=%v op=%d len=%d) %s", k, f.fin, f.rsv, f.masked, f.op, len(f.payload), desc)
		}
		switch f.op {
		case 2:
			if nextData >= nWrites {
				return fmt.Sprintf("wire data frame nobody submitted (frame #%d) %s", k, desc)
			}
			want := wsconcPat(nextData, sizes[nextData])
			binary.BigEndian.PutUint32(want, uint32(nextData))
			if string(f.payload) != string(want) {
				return fmt.Sprintf("wire data frame #%d is not write #%d (len %d, want %d) %s", k, nextData, len(f.payload), len(want), desc)
			}
			nextData++
		case 10:
			if nextPong >= nPings || string(f.payload) != string(pingPayload(nextPong)) {
				return fmt.Sprintf("wire pong #%d does not answer ping #%d %s", k, nextPong, desc)
			}
			nextPong++
		default:
			return fmt.Sprintf("wire unexpected opcode %d (frame #%d) %s", f.op, k, desc)
		}
	}
	if nextData != nWrites || nextPong != nPings {
		return fmt.Sprintf("wire the peer received %d of %d data frames and %d of %d pongs %s", nextData, nWrites, nextPong, nPings, desc)
	}
	return ""
}

func wsconcDirect(seed uint64, tier string, args []string, w *bufio.Writer) {
	rounds := 40
	if tier == "thorough" {
		rounds = 600
	}
	r := newRng(seed*7919 + 13)
	stats := map[string]int{}
	fails := 0
	for i := 0; i < rounds && fails < 3; i++ {
		res := wsconcDirectRound(r, stats)
		if res != "" {
			key := strings.Fields(res)[0]
			fmt.Fprintf(w, "DIRECT-FAIL key=wsconc.direct-%s round=%d seed=%d %s\n", key, i, seed, res)
			fails++
		}
	}
	out := map[string]any{}
	for k, v := range stats {
		out["wsconc_direct_"+k] = v
	}
	b, _ := json.Marshal(out)
	fmt.Fprintf(w, "DIRECT-STAT %s\n", b)
}
