package main

import (
	"bufio"
	"bytes"
	"encoding/hex"
	"fmt"
	"math"
	"strings"

	"github.com/talostrading/sonic"
)

// Component "slots" (property C20): a real sonic.ByteBuffer whose save area is indexed by a real
// sonic.SlotSequencer (stream "new") or by a bare sonic.SlotOffsetter (stream "newoff").
//
// Workflow operations (what slot_sequencer.go / slot_offsetter.go document, and what
// examples/sequencing/receiver/fenwick_proc.go does):
//
//	new <maxSlots> <maxBytes>   NewByteBuffer + NewSlotSequencer
//	park <seq> <hex> <n>        Write(hex); Commit(len); slot := Save(n); ok, err := Push(seq, slot); if !ok { Discard(slot) }
//	take <seq>                  slot, ok := Pop(seq); if ok { SavedSlot(slot); Discard(slot) }
//	newoff <maxBytes>           NewByteBuffer + NewSlotOffsetter
//	add <hex> <n>               Write; Commit; slot := Save(n); slot', err := Add(slot); if err != nil { Discard(slot) }; handle = #successful adds so far
//	off <handle>                slot := Offset(held[handle]); SavedSlot(slot); Discard(slot)   ("skip" for a handle not held)
//	reset                       offsetter.Reset()   ("skip" while slots are held: outside the contract)
//	resetall                    sequencer.Reset(); buffer.DiscardAll()   (sequencer stream, with whatever is parked)
//
// A Push between a Pop and its Discard is outside the documented contract and is never produced.
func init() {
	components["slots"] = &component{gen: slotsGen, enum: slotsEnum, run: slotsRun, direct: slotsDirect}
}

func slHx(b []byte) string {
	if len(b) == 0 {
		return "-"
	}
	return hex.EncodeToString(b)
}

func slUnhx(s string) []byte {
	if s == "-" {
		return nil
	}
	b, err := hex.DecodeString(s)
	if err != nil {
		panic("bad hex in script: " + s)
	}
	return b
}

// packet p (1, 2, ...) of n bytes: recognisable and position dependent.
func slotsPacket(p, n int) []byte {
	b := make([]byte, n)
	for j := range b {
		b[j] = byte(p<<3 + j)
	}
	return b
}

type slotsGenState struct {
	r        *rng
	w        *bufio.Writer
	p        int   // packets produced
	parked   []int // sequence numbers believed parked (oldest first)
	total    int   // believed parked bytes
	maxBytes int
	base     int
}

func (g *slotsGenState) size() int {
	r := g.r
	switch r.intn(12) {
	case 0:
		return 0
	case 1:
		return g.maxBytes - g.total // fills the byte limit exactly
	case 2:
		return g.maxBytes - g.total + 1
	case 3:
		return 9 + r.intn(32)
	default:
		return 1 + r.intn(8)
	}
}

func (g *slotsGenState) seq() int {
	r := g.r
	switch r.intn(16) {
	case 0:
		return r.pick(math.MinInt64, math.MaxInt64, -1, 0)
	default:
		return g.base + r.intn(12)
	}
}

// slotsSide: a generator of its own for the Reserve calls placed between the workflow steps (the receiver makes room for the next
// datagram while packets are parked), so that the workflows themselves are the same with and without them
var slotsSide *rng

func slotsMaybeReserve(w *bufio.Writer) {
	if slotsSide != nil && slotsSide.intn(6) == 0 {
		fmt.Fprintf(w, "! reserve %d\n", slotsSide.pick(1, 64, 600, 1500, 5000, 70000))
	}
}

func (g *slotsGenState) park(seq, n int) {
	slotsMaybeReserve(g.w)
	if n < 0 {
		n = 0
	}
	if n > 64 {
		n = 64
	}
	g.p++
	arg := n
	switch g.r.intn(14) {
	case 0:
		arg = g.r.pick(0, -1, n-1, n+1, 1<<40, math.MaxInt64, math.MinInt64)
	}
	fmt.Fprintf(g.w, "! park %d %s %d\n", seq, slHx(slotsPacket(g.p, n)), arg)
	for _, s := range g.parked {
		if s == seq {
			return
		}
	}
	g.parked = append(g.parked, seq)
	g.total += n
}

func (g *slotsGenState) take(seq int) {
	fmt.Fprintf(g.w, "! take %d\n", seq)
	for i, s := range g.parked {
		if s == seq {
			g.parked = append(g.parked[:i], g.parked[i+1:]...)
			if len(g.parked) == 0 {
				g.total = 0
			}
			return
		}
	}
}

func (g *slotsGenState) takeSome() {
	if len(g.parked) == 0 || g.r.intn(8) == 0 {
		g.take(g.seq())
		return
	}
	g.take(g.parked[g.r.intn(len(g.parked))])
}

func slotsGen(r *rng, maxops int, w *bufio.Writer) {
	slotsSide = nil
	if h := newRng(r.s ^ 0x7f4a7c159e3779b9); h.intn(3) == 0 {
		slotsSide = h
	}
	if r.intn(5) == 0 {
		slotsOffGen(r, maxops, w)
		return
	}
	if r.intn(6) == 0 {
		// the slot limit itself, for limits that are not allocator size classes (the capacity of the backing array differs
		// from the configured maximum there): fill to the limit with distinct small packets, go past it, drain some, go on
		maxSlots := r.pick(5, 7, 11, 13, 15, 19, 22, 23, 25, 27, 30, 31, 40, 50)
		g := &slotsGenState{r: r, w: w, maxBytes: 4096, base: r.pick(0, 1, 1000)}
		fmt.Fprintf(w, "! new %d %d\n", maxSlots, 4096)
		for i := 0; i < maxSlots+3; i++ {
			g.park(g.seq(), 1+r.intn(2))
		}
		for i := 0; i < 4; i++ {
			g.takeSome()
		}
		for i := 0; i < 6; i++ {
			g.park(g.seq(), 1)
		}
		for len(g.parked) > 0 {
			g.take(g.parked[r.intn(len(g.parked))])
		}
		return
	}
	maxSlots := r.pick(0, 1, 2, 3, 4, 4, 8, 8, 16, 64)
	maxBytes := r.pick(0, 1, 2, 4, 8, 8, 16, 16, 24, 32, 64, 64, 256, 1024, 1000, 100)
	g := &slotsGenState{r: r, w: w, maxBytes: maxBytes, base: r.pick(0, 0, 1, -5, 1000, math.MaxInt64-11, math.MinInt64)}
	fmt.Fprintf(w, "! new %d %d\n", maxSlots, maxBytes)
	n := 1 + r.intn(maxops)
	switch r.intn(4) {
	case 0: // batches that drain to empty (what the repository's own tests do), out of order
		for i := 0; i < n; {
			k := 1 + r.intn(6)
			perm := make([]int, k)
			for j := range perm {
				perm[j] = g.base + j
			}
			for j := k - 1; j > 0; j-- {
				x := r.intn(j + 1)
				perm[j], perm[x] = perm[x], perm[j]
			}
			for _, s := range perm {
				g.park(s, 1+r.intn(6))
				i++
			}
			for len(g.parked) > 0 {
				g.take(g.parked[r.intn(len(g.parked))])
				i++
			}
		}
	case 1: // never drains: one pinned packet stays, the others come and go
		pin := g.base + 12 + r.intn(2)*(-14)
		g.park(pin, 1+r.intn(3))
		for i := 0; i < n; i++ {
			others := len(g.parked) - 1
			if others > 0 && r.intn(5) < 2+others {
				for {
					s := g.parked[r.intn(len(g.parked))]
					if s != pin {
						g.take(s)
						break
					}
				}
			} else {
				g.park(g.seq(), g.size())
			}
		}
	case 2: // free mix, with the sequencer reset now and then while packets are parked (after out-of-order takes)
		for i := 0; i < n; i++ {
			if r.intn(14) == 0 {
				fmt.Fprintf(w, "! resetall\n")
				g.parked = nil
				continue
			}
			if r.intn(20) < 11 {
				g.park(g.seq(), g.size())
			} else {
				g.takeSome()
			}
		}
	case 3: // pressure on the limits: many parks, duplicates, few takes
		for i := 0; i < n; i++ {
			switch r.intn(8) {
			case 0, 1:
				g.takeSome()
			case 2:
				if len(g.parked) > 0 {
					g.park(g.parked[r.intn(len(g.parked))], g.size()) // duplicate
				} else {
					g.park(g.seq(), g.size())
				}
			default:
				g.park(g.seq(), g.size())
			}
		}
	}
	// end by taking everything believed parked, in random order, then a miss
	if r.intn(3) > 0 {
		for len(g.parked) > 0 {
			g.take(g.parked[r.intn(len(g.parked))])
		}
		g.take(g.base)
	}
}

func slotsOffGen(r *rng, maxops int, w *bufio.Writer) {
	maxBytes := r.pick(0, 1, 4, 8, 16, 16, 32, 64, 64, 256, 1024)
	fmt.Fprintf(w, "! newoff %d\n", maxBytes)
	n := 1 + r.intn(maxops)
	var live []int
	next, p := 0, 0
	total, gone := 0, 0
	for i := 0; i < n; i++ {
		switch c := r.intn(10); {
		case c < 5 || len(live) == 0 && c < 8:
			sz := r.pick(0, 1, 1, 2, 3, 4, 5, 8, 13)
			arg := sz
			if r.intn(12) == 0 {
				arg = r.pick(0, -1, sz-1, sz+1, 1<<40)
			}
			p++
			fmt.Fprintf(w, "! add %s %d\n", slHx(slotsPacket(p, sz)), arg)
			if total+gone < maxBytes || sz == 0 && gone < maxBytes { // believed accepted
				live = append(live, next)
				next++
				total += sz
			}
		case c < 9 && len(live) > 0:
			k := r.intn(len(live))
			fmt.Fprintf(w, "! off %d\n", live[k])
			live = append(live[:k], live[k+1:]...)
		default:
			if r.intn(4) == 0 {
				fmt.Fprintf(w, "! off %d\n", next+r.intn(3)) // unknown handle
			} else {
				fmt.Fprintf(w, "! reset\n")
				if len(live) == 0 {
					total, gone = 0, 0
				}
			}
		}
	}
	for len(live) > 0 && r.intn(4) > 0 {
		k := r.intn(len(live))
		fmt.Fprintf(w, "! off %d\n", live[k])
		live = append(live[:k], live[k+1:]...)
	}
}

// enum <maxSlots> <maxBytes> <depth> [z]: every sequence of <depth> operations over
// park seq∈{1,2,3} × len∈{1,2} (and len 0 with "z") and take seq∈{1,2,3}.
func slotsEnum(args []string, w *bufio.Writer) {
	maxSlots, maxBytes, depth := atoi(args[0]), atoi(args[1]), atoi(args[2])
	lens := []int{1, 2}
	if len(args) > 3 && args[3] == "z" {
		lens = []int{0, 1, 2}
	}
	type op struct{ kind, seq, n int }
	var alphabet []op
	for s := 1; s <= 3; s++ {
		for _, l := range lens {
			alphabet = append(alphabet, op{0, s, l})
		}
		alphabet = append(alphabet, op{1, s, 0})
	}
	k := 0
	var rec func(prefix []op)
	rec = func(prefix []op) {
		if len(prefix) == depth {
			fmt.Fprintf(w, "# script %d\n! new %d %d\n", k, maxSlots, maxBytes)
			for i, o := range prefix {
				if o.kind == 0 {
					fmt.Fprintf(w, "! park %d %s %d\n", o.seq, slHx(slotsPacket(i+1, o.n)), o.n)
				} else {
					fmt.Fprintf(w, "! take %d\n", o.seq)
				}
			}
			for s := 3; s >= 1; s-- {
				fmt.Fprintf(w, "! take %d\n", s)
			}
			k++
			return
		}
		for _, o := range alphabet {
			rec(append(prefix, o))
		}
	}
	rec(nil)
}

func slotsErr(err error) string {
	switch err {
	case nil:
		return "nil"
	case sonic.ErrNoSpaceLeftForSlot:
		return "nospace"
	}
	return "other"
}

func slotsRun(script []string, w *bufio.Writer) {
	var (
		b    *sonic.ByteBuffer
		sq   *sonic.SlotSequencer
		off  *sonic.SlotOffsetter
		held map[int]sonic.Slot
		next int
	)
	// SavedSlot(slot), or "out" when the slot does not lie inside the buffer's bytes
	addressed := func(slot sonic.Slot) string {
		if slot.Index < 0 || slot.Length < 0 || slot.Index+slot.Length > b.Len() || slot.Index+slot.Length < 0 {
			return "out"
		}
		return slHx(b.SavedSlot(slot))
	}
	bi := func(v bool) int {
		if v {
			return 1
		}
		return 0
	}
	for _, line := range script {
		f := strings.Fields(line)
		if f[0] == "reserve" {
			// Reserve(n) on the buffer between two workflow steps (room for the next datagram): no operation of the slot
			// workflow, nothing parked may change; noted for the reader of the trace only
			if b != nil {
				if guard(func() { b.Reserve(atoi(f[1])) }) {
					fmt.Fprintf(w, "! %s\n< panic\n", line)
					return
				}
				fmt.Fprintf(w, "? reserve %s\n", f[1])
			}
			continue
		}
		fmt.Fprintf(w, "! %s\n", line)
		var out string
		p := guard(func() {
			switch f[0] {
			case "new":
				b = sonic.NewByteBuffer()
				sq = sonic.NewSlotSequencer(atoi(f[1]), atoi(f[2]))
				off = nil
				out = "unit"
			case "newoff":
				b = sonic.NewByteBuffer()
				off = sonic.NewSlotOffsetter(atoi(f[1]))
				sq = nil
				held = map[int]sonic.Slot{}
				next = 0
				out = "unit"
			case "park":
				data := slUnhx(f[2])
				b.Write(data)
				b.Commit(len(data))
				slot := b.Save(atoi(f[3]))
				ok, err := sq.Push(atoi(f[1]), slot)
				if !ok {
					b.Discard(slot)
				}
				out = fmt.Sprintf("park %d %d %d %s %d %d %s", slot.Index, slot.Length, bi(ok), slotsErr(err), sq.Bytes(), sq.Size(), slHx(b.Saved()))
			case "take":
				slot, ok := sq.Pop(atoi(f[1]))
				if !ok {
					out = fmt.Sprintf("take 0 %d %d out %d %d %s", slot.Index, slot.Length, sq.Bytes(), sq.Size(), slHx(b.Saved()))
					break
				}
				ad := addressed(slot)
				b.Discard(slot)
				out = fmt.Sprintf("take 1 %d %d %s %d %d %s", slot.Index, slot.Length, ad, sq.Bytes(), sq.Size(), slHx(b.Saved()))
			case "add":
				data := slUnhx(f[1])
				b.Write(data)
				b.Commit(len(data))
				slot := b.Save(atoi(f[2]))
				s2, err := off.Add(slot)
				if err != nil {
					b.Discard(slot)
				} else {
					held[next] = s2
					next++
				}
				out = fmt.Sprintf("add %d %d %s %d %d %s", slot.Index, slot.Length, slotsErr(err), s2.Index, s2.Length, slHx(b.Saved()))
			case "off":
				h := atoi(f[1])
				s0, known := held[h]
				if !known {
					out = "skip"
					break
				}
				delete(held, h)
				slot := off.Offset(s0)
				ad := addressed(slot)
				b.Discard(slot)
				out = fmt.Sprintf("off %d %d %s %s", slot.Index, slot.Length, ad, slHx(b.Saved()))
			case "resetall":
				if sq == nil {
					out = "skip"
					break
				}
				sq.Reset()
				b.DiscardAll()
				out = "unit"
			case "reset":
				if len(held) > 0 {
					out = "skip"
					break
				}
				off.Reset()
				out = "unit"
			default:
				panic("bad op " + f[0])
			}
		})
		if p {
			fmt.Fprintf(w, "< panic\n")
			return // the objects may be corrupt: the rest of the script is not executed
		}
		fmt.Fprintf(w, "< %s\n", out)
	}
}

// slotsDirect: SlotSequencer.Reset() with packets still parked, followed by DiscardAll on the buffer and further use (the
// modelled workflow resets a bare offsetter only when nothing is held). Oracle: a map from sequence number to the bytes
// saved under it. After the reset nothing is parked (Size() = Bytes() = 0, no number is found) and the sequencer behaves
// like a new one: every Pop addresses exactly the bytes parked under that number.
func slotsDirect(seed uint64, tier string, args []string, w *bufio.Writer) {
	trials := 800
	if tier == "thorough" {
		trials = 20000
	}
	r := newRng(seed*31 + 7)
	fails := 0
	fail := func(format string, a ...any) {
		if fails++; fails <= 3 {
			fmt.Fprintf(w, "DIRECT-FAIL key=slots.reset-while-parked %s\n", fmt.Sprintf(format, a...))
		}
	}
	for t := 0; t < trials && fails == 0; t++ {
		func() {
			defer func() {
				if p := recover(); p != nil {
					fail("panic: %v", p)
				}
			}()
			maxSlots, maxBytes := r.pick(4, 8, 11, 16), r.pick(32, 64, 100, 128)
			b := sonic.NewByteBuffer()
			sq := sonic.NewSlotSequencer(maxSlots, maxBytes)
			parked := map[int][]byte{}
			var order []int
			next := 1
			var trace []string
			park := func() {
				n := 1 + r.intn(6)
				p := r.bytes(n)
				seq := next
				next++
				b.Write(p)
				b.Commit(n)
				slot := b.Save(n)
				ok, err := sq.Push(seq, slot)
				trace = append(trace, fmt.Sprintf("park %d (%d bytes)=%v,%v", seq, n, ok, err))
				if !ok || err != nil {
					b.Discard(slot)
					return
				}
				parked[seq] = p
				order = append(order, seq)
			}
			take := func() bool {
				if len(order) == 0 {
					return true
				}
				i := r.intn(len(order))
				seq := order[i]
				order = append(order[:i], order[i+1:]...)
				slot, ok := sq.Pop(seq)
				trace = append(trace, fmt.Sprintf("take %d=%v", seq, ok))
				if !ok {
					fail("sequence number %d is parked but Pop does not find it after %v", seq, trace)
					return false
				}
				if slot.Index < 0 || slot.Length < 0 || slot.Index+slot.Length > b.SaveLen() || !bytes.Equal(b.SavedSlot(slot), parked[seq]) {
					fail("Pop(%d) addresses [%d,%d) of a save area of %d bytes, not the %d bytes parked under it, after %v", seq, slot.Index, slot.Index+slot.Length, b.SaveLen(), len(parked[seq]), trace)
					return false
				}
				b.Discard(slot)
				delete(parked, seq)
				return true
			}
			for round := 0; round < 3; round++ {
				for i, n := 0, 2+r.intn(8); i < n; i++ {
					if r.intn(3) == 0 {
						if !take() {
							return
						}
					} else {
						park()
					}
				}
				if sq.Size() != len(parked) {
					fail("Size() = %d with %d packets parked after %v", sq.Size(), len(parked), trace)
					return
				}
				// reset with whatever is parked; the application drops the save area as well
				sq.Reset()
				b.DiscardAll()
				trace = append(trace, "Reset+DiscardAll")
				for seq := range parked {
					if _, ok := sq.Pop(seq); ok {
						fail("sequence number %d is still found after Reset (%v)", seq, trace)
						return
					}
				}
				parked, order = map[int][]byte{}, nil
				if sq.Size() != 0 || sq.Bytes() != 0 {
					fail("Size() = %d, Bytes() = %d after Reset (%v)", sq.Size(), sq.Bytes(), trace)
					return
				}
			}
			for len(order) > 0 {
				if !take() {
					return
				}
			}
		}()
	}
	fmt.Fprintf(w, "DIRECT-STAT {\"slots_reset_while_parked_trials\": %d, \"slots_reset_while_parked_failures\": %d}\n", trials, fails)
}
