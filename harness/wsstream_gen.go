package main

// Script generators for the "wsstream" component: random sessions, single-violation mutations of conforming
// sessions (C15), and exhaustive enumeration over a small event alphabet.

import (
	"bufio"
	"fmt"
)

type wsG struct {
	r    *rng
	w    *bufio.Writer
	max  int
	n    int
	frag bool // the peer is inside a fragmented message (conforming streams only)
}

func (g *wsG) emit(format string, a ...interface{}) {
	fmt.Fprintf(g.w, "! "+format+"\n", a...)
	g.n++
}

func (g *wsG) sa() string {
	if g.r.intn(2) == 0 {
		return "sync"
	}
	return "async"
}

// plen: payload length of a data frame, biased to the boundaries of the configured maximum.
func (g *wsG) plen() int {
	switch g.r.intn(10) {
	case 0:
		return 0
	case 1:
		return 1
	case 2:
		return g.max
	case 3:
		if g.max > 0 {
			return g.max - 1
		}
		return 0
	default:
		return g.r.intn(minInt(g.max, 12) + 1)
	}
}

// clen: payload length of a control frame (at most 125 and at most max).
func (g *wsG) clen() int {
	lim := minInt(g.max, 125)
	switch g.r.intn(8) {
	case 0:
		return 0
	case 1:
		return lim
	default:
		return g.r.intn(minInt(lim, 6) + 1)
	}
}

func minInt(a, b int) int {
	if a < b {
		return a
	}
	return b
}

func (g *wsG) peer(fin bool, rsv, op int, masked bool, payload []byte) {
	g.emit("peer %d %d %d %d %s", b01(fin), rsv, op, b01(masked), wsHx(payload))
}

// conforming data frame (whole message or the next fragment)
func (g *wsG) peerData() {
	p := g.r.bytes(g.plen())
	if g.frag {
		fin := g.r.intn(2) == 0
		g.peer(fin, 0, 0, false, p)
		g.frag = !fin
		return
	}
	op := 1 + g.r.intn(2)
	if g.r.intn(4) == 0 {
		g.peer(false, 0, op, false, p)
		g.frag = true
	} else {
		g.peer(true, 0, op, false, p)
	}
}

// a whole fragmented message (2-4 fragments, control frames possibly interleaved), optionally broken by a new data frame
func (g *wsG) peerBurst() {
	if g.frag {
		g.peerData()
		return
	}
	k := 2 + g.r.intn(3)
	budget := g.max
	for i := 0; i < k; i++ {
		n := g.r.intn(minInt(budget, 5) + 1)
		budget -= n
		op := 0
		if i == 0 {
			op = 1 + g.r.intn(2)
		}
		if i > 0 && g.r.intn(8) == 0 {
			op = 1 + g.r.intn(2) // new data frame inside the message
		}
		g.peer(i == k-1, 0, op, false, g.r.bytes(n))
		if i < k-1 && g.r.intn(4) == 0 {
			if g.r.intn(2) == 0 {
				g.peerPing()
			} else {
				g.peerPong()
			}
		}
	}
}

func (g *wsG) peerPing() { g.peer(true, 0, 9, false, g.r.bytes(g.clen())) }
func (g *wsG) peerPong() { g.peer(true, 0, 10, false, g.r.bytes(g.clen())) }

var wsValidCodes = []int{1000, 1001, 1002, 1003, 1007, 1008, 1009, 1010, 1011, 1012, 1013, 3000, 3999, 4000, 4999}
var wsInvalidCodes = []int{0, 1, 999, 1004, 1005, 1006, 1014, 1015, 1016, 1100, 2000, 2999, 5000, 65535}
var wsGoodReasons = [][]byte{nil, []byte("bye"), {0xc3, 0xa9}, {0xe2, 0x82, 0xac}, {0xf0, 0x9f, 0x98, 0x80}, {0x7f}, {0xed, 0x9f, 0xbf}, {0xf4, 0x8f, 0xbf, 0xbf}, {0xef, 0xbf, 0xbd}}
var wsBadReasons = [][]byte{{0x80}, {0xc0, 0x80}, {0xc1, 0xbf}, {0xe0, 0x80, 0x80}, {0xed, 0xa0, 0x80}, {0xe2, 0x82}, {0xf5, 0x80, 0x80, 0x80}, {0xf4, 0x90, 0x80, 0x80}, {0xf0, 0x80, 0x80, 0x80}, {0x61, 0xff}, {0xc3}, {0xf0, 0x9f, 0x98}}

func code2(c int) []byte { return []byte{byte(c >> 8), byte(c)} }

func (g *wsG) fits(p []byte) bool { return len(p) <= g.max }

func (g *wsG) peerCloseValid() {
	var p []byte
	if g.r.intn(4) != 0 && g.max >= 2 {
		p = code2(wsValidCodes[g.r.intn(len(wsValidCodes))])
		if g.r.intn(2) == 0 {
			q := append(append([]byte(nil), p...), wsGoodReasons[g.r.intn(len(wsGoodReasons))]...)
			if g.fits(q) {
				p = q
			}
		}
	}
	g.peer(true, 0, 8, false, p)
}

func (g *wsG) peerCloseInvalid() {
	var p []byte
	switch g.r.intn(3) {
	case 0:
		p = g.r.bytes(1)
	case 1:
		p = code2(wsInvalidCodes[g.r.intn(len(wsInvalidCodes))])
		if g.r.intn(3) == 0 {
			p = append(p, 'x')
		}
	default:
		p = append(code2(wsValidCodes[g.r.intn(len(wsValidCodes))]), wsBadReasons[g.r.intn(len(wsBadReasons))]...)
	}
	if !g.fits(p) {
		p = p[:1]
	}
	if g.max == 0 {
		p = nil
	}
	g.peer(true, 0, 8, false, p)
}

// the five framing-violation classes of C15
func (g *wsG) peerViolation(kind int) {
	ops := []int{0, 1, 2, 8, 9, 10}
	switch kind {
	case 0: // reserved bits
		op := ops[g.r.intn(len(ops))]
		fin := op >= 8 || g.r.intn(2) == 0
		n := g.clen()
		g.peer(fin, 1+g.r.intn(7), op, false, g.r.bytes(n))
	case 1: // reserved opcode
		op := g.r.pick(3, 4, 5, 6, 7, 11, 12, 13, 14, 15)
		g.peer(g.r.intn(3) != 0, 0, op, false, g.r.bytes(g.clen()))
	case 2: // masked frame from the server
		op := ops[g.r.intn(len(ops))]
		g.peer(op >= 8 || g.r.intn(2) == 0, 0, op, true, g.r.bytes(g.clen()))
	case 3: // fragmented control frame
		g.peer(false, 0, g.r.pick(8, 9, 10), false, g.r.bytes(g.clen()))
	case 4: // control frame with more than 125 payload bytes (needs max >= 126, else it is a frame over the maximum)
		g.peer(true, 0, g.r.pick(8, 9, 10), false, g.r.bytes(g.r.pick(126, 126, 127, 200)))
	}
}

// fragmentation-rule violations: continuation with nothing to continue / new data frame inside a message
func (g *wsG) peerFragViolation() {
	p := g.r.bytes(g.plen())
	if g.frag {
		g.peer(g.r.intn(2) == 0, 0, 1+g.r.intn(2), false, p)
	} else {
		g.peer(g.r.intn(2) == 0, 0, 0, false, p)
	}
}

func (g *wsG) peerOverMax() {
	op := g.r.pick(1, 2, 0, 9, 8)
	g.peer(true, 0, op, false, g.r.bytes(g.max+1+g.r.intn(3)))
}

func (g *wsG) bufSize() int {
	switch g.r.intn(8) {
	case 0:
		return 0
	case 1:
		return 1
	case 2:
		return g.r.intn(6)
	case 3:
		return g.max
	default:
		return 2*g.max + 8
	}
}

func (g *wsG) read() {
	if g.r.intn(2) == 0 {
		g.emit("nextframe %s", g.sa())
	} else {
		g.emit("nextmsg %s %d", g.sa(), g.bufSize())
	}
}

func (g *wsG) localCall() {
	switch g.r.intn(12) {
	case 0, 1, 2:
		g.emit("nextframe %s", g.sa())
	case 3, 4, 5:
		g.emit("nextmsg %s %d", g.sa(), g.bufSize())
	case 6, 7:
		n := g.plen()
		if g.r.intn(10) == 0 {
			n = g.max + 1
		}
		g.emit("write %s %d %s", g.sa(), 1+g.r.intn(2), wsHx(g.r.bytes(n)))
	case 8:
		g.emit("writeframe %s %d %d %s", g.sa(), g.r.intn(2), g.r.pick(0, 1, 2, 9), wsHx(g.r.bytes(g.clen())))
	case 9:
		g.emit("flush %s", g.sa())
	case 10:
		c := wsValidCodes[g.r.intn(len(wsValidCodes))]
		if g.r.intn(5) == 0 {
			c = g.r.intn(65536)
		}
		g.emit("close %s %d %s", g.sa(), c, wsHx(wsGoodReasons[g.r.intn(len(wsGoodReasons))]))
	default:
		g.read()
	}
}

// deferredWindow: write-type calls while the transport holds asynchronous writes back (a Close or a data frame is in
// flight when the next call is made), then the transport performs them.
func (g *wsG) deferredWindow() {
	fmt.Fprintf(g.w, "! defer\n")
	for q := 1 + g.r.intn(5); q > 0; q-- {
		switch g.r.intn(7) {
		case 0, 1:
			g.emit("write async %d %s", 1+g.r.intn(2), wsHx(g.r.bytes(g.plen())))
		case 2:
			g.emit("writeframe async %d %d %s", g.r.intn(2), g.r.pick(0, 1, 2, 9), wsHx(g.r.bytes(g.clen())))
		case 3:
			g.emit("flush async")
		case 4:
			g.emit("close async %d %s", wsValidCodes[g.r.intn(len(wsValidCodes))], wsHx(wsGoodReasons[g.r.intn(len(wsGoodReasons))]))
		case 5:
			g.emit("write sync %d %s", 1+g.r.intn(2), wsHx(g.r.bytes(g.plen())))
		default:
			g.emit("close sync 1000 -")
		}
	}
	g.emit("pump")
}

func (g *wsG) peerEvent() {
	switch x := g.r.intn(66); {
	case x >= 60:
		g.peerBurst()
		if g.r.intn(3) != 0 {
			g.emit("nextmsg %s %d", g.sa(), g.bufSize())
		}
	case x < 22:
		g.peerData()
	case x < 32:
		g.peerPing()
	case x < 36:
		g.peerPong()
	case x < 40:
		g.peerCloseValid()
	case x < 43:
		g.peerCloseInvalid()
	case x < 49:
		g.peerViolation(g.r.intn(5))
	case x < 53:
		g.peerFragViolation()
	case x < 55:
		g.peerOverMax()
	case x < 58:
		g.emit("eof")
	default:
		g.emit("ioerr")
	}
}

func wsGen(r *rng, maxops int, w *bufio.Writer) {
	g := &wsG{r: r, w: w}
	g.max = r.pick(0, 1, 2, 8, 16, 16, 64, 125, 126, 130, 300)
	fmt.Fprintf(w, "! new %d\n", g.max)
	n := 1 + r.intn(maxops)
	if r.intn(2) == 0 {
		// random session: peer events and local calls mixed
		for g.n < n {
			if r.intn(14) == 0 {
				g.deferredWindow()
				continue
			}
			if r.intn(20) == 0 && !g.frag {
				// the maximum is changed on the live stream (frames already queued by the peer are judged by the new value)
				g.max = r.pick(g.max/2, g.max+9, 16, 125, 126, 1, 300)
				fmt.Fprintf(w, "! setmax %d\n", g.max)
			}
			if r.intn(9) < 4 {
				g.peerEvent()
				if r.intn(3) != 0 {
					g.read()
				}
			} else {
				g.localCall()
			}
		}
		return
	}
	// C15 mutation stream: a conforming session with exactly one violation at a random position
	rounds := 1 + r.intn(wsMaxInt(1, n/3))
	at := r.intn(rounds)
	for k := 0; k < rounds; k++ {
		if k == at {
			// sometimes leave conforming frames queued in front of the violation
			for q := r.intn(3); q > 0; q-- {
				g.conforming()
			}
			if r.intn(5) == 0 {
				g.peerFragViolation()
			} else if r.intn(12) == 0 {
				g.peerOverMax()
			} else {
				g.peerViolation(r.intn(5))
			}
			g.read()
			// afterwards: a Close(1002) is queued, writes are refused, reads go on
			for q := 1 + r.intn(4); q > 0; q-- {
				switch r.intn(6) {
				case 0:
					g.emit("write %s %d %s", g.sa(), 1+r.intn(2), wsHx(r.bytes(g.plen())))
				case 1:
					g.emit("writeframe %s 1 %d %s", g.sa(), r.pick(1, 2, 9), wsHx(r.bytes(g.clen())))
				case 2:
					g.emit("flush %s", g.sa())
				case 3:
					g.emit("close %s 1000 -", g.sa())
				case 4:
					g.conforming()
					g.read()
				default:
					g.read()
				}
			}
			continue
		}
		g.conforming()
		if r.intn(4) != 0 {
			g.read()
		}
		if r.intn(5) == 0 {
			g.emit("write %s %d %s", g.sa(), 1+r.intn(2), wsHx(r.bytes(g.plen())))
		}
	}
	// drain what is left
	for q := r.intn(3); q > 0; q-- {
		g.read()
	}
}

func (g *wsG) conforming() {
	switch x := g.r.intn(12); {
	case x >= 10:
		g.peerBurst()
	case x < 6:
		g.peerData()
	case x < 8:
		g.peerPing()
	case x < 9:
		g.peerPong()
	default:
		g.peerData()
	}
}

func wsMaxInt(a, b int) int {
	if a > b {
		return a
	}
	return b
}

// enum <depth> <alphabet>: every sequence of exactly <depth> events over a small alphabet (max = 16). Every prefix is
// observed on the way, so this covers all sequences up to <depth>.
func wsEnum(args []string, w *bufio.Writer) {
	depth := atoi(args[0])
	which := 0
	if len(args) > 1 {
		which = atoi(args[1])
	}
	alphabets := [][]string{
		{ // 0: the closing handshake and ping/pong core
			"peer 1 0 9 0 aa", "peer 1 0 1 0 6869", "peer 1 0 8 0 03e9", "peer 1 4 2 0 00", "eof",
			"nextframe sync", "nextframe async", "nextmsg sync 8", "write sync 1 61", "close sync 1000 -",
		},
		{ // 1: wider: invalid close, fragments, async twins, transport error
			"peer 1 0 9 0 aa", "peer 1 0 10 0 bb", "peer 1 0 1 0 6869", "peer 0 0 2 0 01", "peer 1 0 0 0 02",
			"peer 1 0 8 0 03e9", "peer 1 0 8 0 -", "peer 1 0 8 0 03", "peer 0 0 9 0 -", "peer 1 0 3 0 00", "eof", "ioerr",
			"nextframe sync", "nextframe async", "nextmsg sync 8", "nextmsg async 1", "write sync 1 61", "write async 2 62",
			"close sync 1000 -", "close async 3000 6f6b", "flush sync",
		},
		{ // 2: violations and size limits, mostly through the message API
			"peer 1 0 1 0 6869", "peer 0 0 1 0 68", "peer 1 0 0 0 69", "peer 1 0 9 0 aa", "peer 1 1 9 0 -", "peer 1 0 1 1 00",
			"peer 1 0 11 0 -", "peer 1 0 2 0 0102030405060708090a0b0c0d0e0f1011", "peer 1 0 8 0 03e8",
			"nextmsg sync 8", "nextmsg async 8", "nextmsg sync 1", "nextframe async", "write async 1 61", "flush async",
		},
		{ // 3: calls made while an asynchronous write (a Close, a data frame) is still inside the transport
			"defer", "pump", "write async 1 61", "write sync 2 62", "close async 1000 -", "close sync 1001 -", "writeframe async 1 9 aa",
			"flush async", "peer 1 0 8 0 03e9", "peer 1 0 9 0 aa", "nextframe async", "nextframe sync",
		},
	}
	alphabet := alphabets[which%len(alphabets)]
	k := 0
	var rec func(prefix []string)
	rec = func(prefix []string) {
		if len(prefix) == depth {
			fmt.Fprintf(w, "# script %d\n! new 16\n", k)
			for _, op := range prefix {
				fmt.Fprintf(w, "! %s\n", op)
			}
			k++
			return
		}
		for _, op := range alphabet {
			rec(append(prefix, op))
		}
	}
	rec(nil)
}
