package main

import (
	"errors"
	"io"

	"github.com/talostrading/sonic"
	"github.com/talostrading/sonic/sonicerrors"
)

// memStream is a scripted in-memory transport implementing sonic.Stream. It is shared by the
// websocket / codec harness components.
//
// Reading: the peer's bytes are queued as chunks with feed(); every Read / AsyncRead returns at most
// one chunk (truncated to the caller's buffer, the rest of the chunk stays queued), so the script
// controls the segmentation exactly. With nothing queued a blocking Read returns io.EOF if eof was
// signalled and errNoData otherwise (a script must not block); an AsyncRead stays pending until
// pump() finds data, eof or an injected error.
//
// Writing: every Write / AsyncWrite accepts min(len(b), next entry of writePlan) bytes (no plan = all
// of them); with deferWrites set, asynchronous writes stay pending until pump().
type memStream struct {
	in        [][]byte
	eof       bool
	readErr   error // returned (once) by the next read when nothing is queued
	out       []byte
	writes    []int // size of every accepted write segment, in order
	writePlan []int
	writeErr  error // returned (once) by the next write
	closed    bool
	cancelled int

	deferWrites  bool
	pendingRead  *memRead
	pendingWrite *memWrite
}

type memRead struct {
	b    []byte
	all  bool
	done int
	cb   func(error, int)
}

type memWrite struct {
	b    []byte
	all  bool
	done int
	cb   func(error, int)
}

var errNoData = errors.New("memstream: read with no data queued")

func newMemStream() *memStream { return &memStream{} }

func (m *memStream) feed(b []byte) {
	if len(b) > 0 {
		m.in = append(m.in, append([]byte(nil), b...))
	}
}

// feedRaw queues a chunk as it is, an empty one included (a read that completes with no bytes and no error).
func (m *memStream) feedRaw(b []byte) {
	m.in = append(m.in, append([]byte(nil), b...))
}

func (m *memStream) take(b []byte) int {
	n := copy(b, m.in[0])
	if n == len(m.in[0]) {
		m.in = m.in[1:]
	} else {
		m.in[0] = m.in[0][n:]
	}
	return n
}

func (m *memStream) RawFd() int { return -1 }

func (m *memStream) Read(b []byte) (int, error) {
	if len(m.in) > 0 {
		return m.take(b), nil
	}
	if m.readErr != nil {
		err := m.readErr
		m.readErr = nil
		return 0, err
	}
	if m.eof {
		return 0, io.EOF
	}
	return 0, errNoData
}

func (m *memStream) accept(b []byte) (int, error) {
	if m.writeErr != nil {
		err := m.writeErr
		m.writeErr = nil
		return 0, err
	}
	n := len(b)
	if len(m.writePlan) > 0 {
		if m.writePlan[0] < n {
			n = m.writePlan[0]
		}
		m.writePlan = m.writePlan[1:]
	}
	m.out = append(m.out, b[:n]...)
	m.writes = append(m.writes, n)
	return n, nil
}

func (m *memStream) Write(b []byte) (int, error) { return m.accept(b) }

func (m *memStream) AsyncRead(b []byte, cb sonic.AsyncCallback) {
	m.pendingRead = &memRead{b: b, cb: cb}
	m.pumpRead()
}

func (m *memStream) AsyncReadAll(b []byte, cb sonic.AsyncCallback) {
	m.pendingRead = &memRead{b: b, all: true, cb: cb}
	m.pumpRead()
}

func (m *memStream) pumpRead() {
	r := m.pendingRead
	if r == nil {
		return
	}
	for {
		if len(m.in) > 0 {
			r.done += m.take(r.b[r.done:])
			if !r.all || r.done == len(r.b) {
				m.pendingRead = nil
				r.cb(nil, r.done)
				return
			}
			continue
		}
		if m.readErr != nil {
			err := m.readErr
			m.readErr = nil
			m.pendingRead = nil
			r.cb(err, r.done)
			return
		}
		if m.eof {
			m.pendingRead = nil
			r.cb(io.EOF, r.done)
			return
		}
		return // stays pending
	}
}

func (m *memStream) AsyncWrite(b []byte, cb sonic.AsyncCallback) {
	m.pendingWrite = &memWrite{b: b, cb: cb}
	if !m.deferWrites {
		m.pumpWrite()
	}
}

func (m *memStream) AsyncWriteAll(b []byte, cb sonic.AsyncCallback) {
	m.pendingWrite = &memWrite{b: b, all: true, cb: cb}
	if !m.deferWrites {
		m.pumpWrite()
	}
}

func (m *memStream) pumpWrite() {
	w := m.pendingWrite
	if w == nil {
		return
	}
	for {
		n, err := m.accept(w.b[w.done:])
		w.done += n
		if err != nil {
			m.pendingWrite = nil
			w.cb(err, w.done)
			return
		}
		if !w.all || w.done == len(w.b) {
			m.pendingWrite = nil
			w.cb(nil, w.done)
			return
		}
		if n == 0 {
			return // a 0-byte plan entry = would block: stays pending until the next pump
		}
	}
}

// pump completes whatever pending asynchronous operations can complete now (the loop's poll).
func (m *memStream) pump() {
	m.pumpWrite()
	m.pumpRead()
}

func (m *memStream) Cancel() {
	m.cancelled++
	if r := m.pendingRead; r != nil {
		m.pendingRead = nil
		r.cb(sonicerrors.ErrCancelled, r.done)
	}
	if w := m.pendingWrite; w != nil {
		m.pendingWrite = nil
		w.cb(sonicerrors.ErrCancelled, w.done)
	}
}

func (m *memStream) Close() error {
	m.closed = true
	return nil
}

// compile-time check
var _ interface {
	RawFd() int
	Read([]byte) (int, error)
	Write([]byte) (int, error)
	Close() error
	Cancel()
} = (*memStream)(nil)
