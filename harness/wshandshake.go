package main

// Component `wshandshake` (property C18): the real websocket.Stream client handshake (blocking and
// asynchronous) against a raw scripted TCP server running in this process on 127.0.0.1:0.
//
// Script operations
//
//	new                     fresh IO context and client Stream
//	stale                   (needs the verif hook) fresh stream; attach a scripted transport holding a ping and read it, so that a
//	                        pong is queued and not flushed: a frame pending from a previous session
//	hs k=v ...              one handshake against a scripted response:
//	    mode=sync|async
//	    resp=<hex>          the response head, up to and including the blank line; 28 bytes '@' stand for the correct
//	                        Sec-WebSocket-Accept value, 28 '#' for a wrong one, 28 '%' for the correct one with letter case swapped
//	    trail=<hex|->       bytes written right after the head (frames piggy-backed on the response)
//	    segs=<n,n,..|->     sizes of the separate writes the server cuts head+trail into (rest in one write)
//	    closeat=<k|->       the server closes after k bytes of head+trail
//	    status= upg= acc= parse=   what the generator built into `resp` (used by the model, not by the harness):
//	                        status code, value of the Upgrade header (- = none), accept kind (@ # % - or x = other), parse=ok|bad
//	    extra=<k:v;..|->    extra request headers the caller passes (lower-case first letter = non-canonical key)
//
// Trace lines for hs
//
//	< req ok | bad:<reason>              what the server saw: GET, Host, Upgrade: websocket, Connection: upgrade,
//	                                     Sec-WebSocket-Version: 13, fresh 16-byte base64 key, extra headers present
//	< hs <err> <state> <pending> <peerclosed>   error class, State(), Pending() after the call; on failure whether the
//	                                     server saw the connection closed
//	< frame ok <fin> <opcode> <payload-hex> | err <class> | none    first NextFrame after a successful handshake
//	< srvextra <n>                       bytes the server received after the request (nothing may be sent unasked)

import (
	"bufio"
	"bytes"
	"crypto/sha1"
	"encoding/base64"
	"errors"
	"fmt"
	"io"
	"net"
	"net/http"
	"os"
	"strings"
	"time"

	"github.com/talostrading/sonic"
	"github.com/talostrading/sonic/codec/websocket"
)

func init() {
	components["wshandshake"] = &component{gen: wshsGen, enum: wshsEnum, run: wshsRun, direct: wshsDirect}
}

var wshsSeenKeys = map[string]bool{}

const wshsGUID = "258EAFA5-E914-47DA-95CA-C5AB0DC85B11"

func wshsAccept(key string) string {
	h := sha1.Sum([]byte(key + wshsGUID))
	return base64.StdEncoding.EncodeToString(h[:])
}

func wshsSwapCase(s string) string {
	b := []byte(s)
	for i, c := range b {
		switch {
		case 'a' <= c && c <= 'z':
			b[i] = c - 32
		case 'A' <= c && c <= 'Z':
			b[i] = c + 32
		}
	}
	return string(b)
}

func wshsWrong(s string) string {
	b := []byte(s)
	if b[0] == 'A' {
		b[0] = 'B'
	} else {
		b[0] = 'A'
	}
	return string(b)
}

func wshsErr(err error) string {
	switch {
	case err == nil:
		return "nil"
	case errors.Is(err, io.EOF):
		return "eof"
	case errors.Is(err, websocket.ErrCannotUpgrade):
		return "cannotupgrade"
	case errors.Is(err, io.ErrUnexpectedEOF):
		return "unexpectedeof"
	}
	var ne net.Error
	if errors.As(err, &ne) {
		return "net"
	}
	if strings.Contains(err.Error(), "malformed") {
		return "malformed"
	}
	if os.Getenv("WSHS_DEBUG") != "" {
		fmt.Fprintln(os.Stderr, "other error:", err)
	}
	return "other"
}

type wshsPlan struct {
	mode    string
	resp    []byte
	trail   []byte
	segs    []int
	closeAt int // -1 = stays open
	extra   [][2]string
}

func wshsParse(f []string) wshsPlan {
	p := wshsPlan{mode: "sync", closeAt: -1}
	for _, kv := range f {
		k, v, _ := strings.Cut(kv, "=")
		switch k {
		case "mode":
			p.mode = v
		case "resp":
			p.resp = cdUnhx(v)
		case "trail":
			p.trail = cdUnhx(v)
		case "segs":
			if v != "-" {
				for _, a := range strings.Split(v, ",") {
					p.segs = append(p.segs, atoi(a))
				}
			}
		case "closeat":
			if v != "-" {
				p.closeAt = atoi(v)
			}
		case "extra":
			if v != "-" {
				for _, h := range strings.Split(v, ";") {
					hk, hv, _ := strings.Cut(h, ":")
					p.extra = append(p.extra, [2]string{hk, hv})
				}
			}
		}
	}
	return p
}

type wshsServerResult struct {
	req        string
	extra      int
	peerClosed bool
}

// wshsServe handles one connection: checks the request, writes the scripted response, then waits for `done`.
func wshsServe(ln net.Listener, p wshsPlan, done <-chan bool, out chan<- wshsServerResult) {
	res := wshsServerResult{req: "bad:noconnection"}
	defer func() { out <- res }()
	_ = ln.(*net.TCPListener).SetDeadline(time.Now().Add(2 * time.Second))
	conn, err := ln.Accept()
	if err != nil {
		<-done
		return
	}
	defer conn.Close()
	_ = conn.(*net.TCPConn).SetNoDelay(true)
	_ = conn.SetDeadline(time.Now().Add(3 * time.Second))
	br := bufio.NewReader(conn)
	var rawReq []byte
	for !bytes.HasSuffix(rawReq, []byte("\r\n\r\n")) {
		c, rerr := br.ReadByte()
		if rerr != nil {
			break
		}
		rawReq = append(rawReq, c)
	}
	req, err := http.ReadRequest(bufio.NewReader(bytes.NewReader(rawReq)))
	if err != nil {
		res.req = "bad:unreadable"
		<-done
		return
	}
	key := req.Header.Get("Sec-Websocket-Key")
	raw, kerr := base64.StdEncoding.DecodeString(key)
	switch {
	case req.Method != "GET":
		res.req = "bad:method"
	case req.Host != ln.Addr().String():
		res.req = "bad:host"
	case !strings.EqualFold(req.Header.Get("Upgrade"), "websocket"):
		res.req = "bad:upgrade"
	case !strings.EqualFold(req.Header.Get("Connection"), "upgrade"):
		res.req = "bad:connection"
	case req.Header.Get("Sec-Websocket-Version") != "13":
		res.req = "bad:version"
	case kerr != nil || len(raw) != 16:
		res.req = "bad:key"
	case wshsSeenKeys[key]:
		res.req = "bad:keyreused"
	default:
		res.req = "ok"
		for _, h := range p.extra {
			// the header must be on the wire exactly once, with the key spelled as the caller gave it
			if bytes.Count(rawReq, []byte("\r\n"+h[0]+": "+h[1]+"\r\n")) != 1 {
				res.req = "bad:extra:" + h[0]
			}
		}
	}
	wshsSeenKeys[key] = true

	acc := wshsAccept(key)
	full := append([]byte{}, p.resp...)
	full = bytes.Replace(full, bytes.Repeat([]byte("@"), 28), []byte(acc), 1)
	full = bytes.Replace(full, bytes.Repeat([]byte("#"), 28), []byte(wshsWrong(acc)), 1)
	full = bytes.Replace(full, bytes.Repeat([]byte("%"), 28), []byte(wshsSwapCase(acc)), 1)
	full = append(full, p.trail...)
	if p.closeAt >= 0 && p.closeAt < len(full) {
		full = full[:p.closeAt]
	}
	off := 0
	for _, n := range p.segs {
		if off >= len(full) {
			break
		}
		if n <= 0 {
			continue
		}
		end := off + n
		if end > len(full) {
			end = len(full)
		}
		_, _ = conn.Write(full[off:end])
		off = end
		time.Sleep(1500 * time.Microsecond)
	}
	if off < len(full) {
		_, _ = conn.Write(full[off:])
	}
	if p.closeAt >= 0 {
		// orderly close of the sending side; the request was read completely, so the client sees EOF, not a reset
		_ = conn.(*net.TCPConn).CloseWrite()
	}
	// Watchdog: a client that is still waiting for bytes two seconds from now (e.g. a frame layer that lost part of
	// what followed the blank line) is released by closing the connection; it then reports EOF.
	var failed bool
	select {
	case failed = <-done:
	case <-time.After(2 * time.Second):
		_ = conn.Close()
		<-done
		return
	}
	// anything the client sent although nothing was asked for (e.g. frames of a previous session)
	_ = conn.SetReadDeadline(time.Now().Add(5 * time.Millisecond))
	buf := make([]byte, 4096)
	for {
		n, err := br.Read(buf)
		res.extra += n
		if err != nil {
			if errors.Is(err, io.EOF) {
				res.peerClosed = true
			}
			break
		}
	}
	if failed && !res.peerClosed {
		_ = conn.SetReadDeadline(time.Now().Add(2 * time.Second))
		for {
			n, err := br.Read(buf)
			res.extra += n
			if err != nil {
				var ne net.Error
				if !(errors.As(err, &ne) && ne.Timeout()) {
					res.peerClosed = true // EOF or reset: the client released the connection
				}
				break
			}
		}
	}
}

type wshsEnv struct {
	w   *bufio.Writer
	ioc *sonic.IO
	s   *websocket.Stream
	ln  net.Listener
}

func (e *wshsEnv) reset() {
	if e.s != nil {
		_ = e.s.CloseNextLayer()
	}
	if e.ioc != nil {
		_ = e.ioc.Close()
	}
	if e.ln != nil {
		_ = e.ln.Close()
	}
	e.ioc = sonic.MustIO()
	e.s, _ = websocket.NewWebsocketStream(e.ioc, nil, websocket.RoleClient)
	var err error
	e.ln, err = net.Listen("tcp", "127.0.0.1:0")
	if err != nil {
		panic(err)
	}
}

func wshsState(s *websocket.Stream) string { return strings.TrimPrefix(s.State().String(), "state_") }

func (e *wshsEnv) handshake(p wshsPlan) {
	done := make(chan bool, 1)
	out := make(chan wshsServerResult, 1)
	go wshsServe(e.ln, p, done, out)

	var hdrs []websocket.Header
	for _, h := range p.extra {
		hdrs = append(hdrs, websocket.ExtraHeader(h[0] == http.CanonicalHeaderKey(h[0]), h[0], h[1]))
	}
	addr := "ws://" + e.ln.Addr().String() + "/"
	var err error
	if p.mode == "async" {
		fired := false
		e.s.AsyncHandshake(addr, func(herr error) { err = herr; fired = true }, hdrs...)
		deadline := time.Now().Add(4 * time.Second)
		for !fired && time.Now().Before(deadline) {
			_, _ = e.ioc.PollOne()
			if !fired {
				time.Sleep(100 * time.Microsecond)
			}
		}
		if !fired {
			err = errors.New("callback of AsyncHandshake not invoked")
		}
	} else {
		err = e.s.Handshake(addr, hdrs...)
	}
	state, pending := wshsState(e.s), e.s.Pending()

	frame := "none"
	asyncOK := true
	if err == nil {
		// the asynchronous paths of the new session work: a flush with nothing to send completes at once
		asyncOK = false
		e.s.AsyncFlush(func(error) { asyncOK = true })
	}
	if err == nil && (len(p.trail) > 0 || p.closeAt >= 0) {
		_ = e.s.Flush()
		f, ferr := e.s.NextFrame()
		if ferr != nil {
			frame = "err " + wshsErr(ferr)
		} else {
			fin := 0
			if f.IsFIN() {
				fin = 1
			}
			frame = fmt.Sprintf("ok %d %d %s", fin, int(f.Opcode()), cdHx(f.Payload()))
		}
	} else if err == nil {
		_ = e.s.Flush()
	}
	if !asyncOK {
		frame = "err other" // (reported in place of the first frame: the new session does not behave like a fresh one)
	}
	done <- err != nil
	res := <-out
	if err == nil {
		_ = e.s.CloseNextLayer()
	}
	pc := 0
	if err != nil && res.peerClosed {
		pc = 1
	}
	fmt.Fprintf(e.w, "< req %s\n", res.req)
	fmt.Fprintf(e.w, "< hs %s %s %d %d\n", wshsErr(err), state, pending, pc)
	fmt.Fprintf(e.w, "< frame %s\n", frame)
	// bytes the server received unasked, plus bytes of an earlier session still sitting in the write buffer (they would be
	// sent in front of the first frame of this session)
	stale := 0
	if err == nil {
		if d := e.s.VerifDst(); d != nil {
			stale = d.ReadLen() + d.WriteLen()
		}
	}
	fmt.Fprintf(e.w, "< srvextra %d\n", res.extra+stale)
}

func wshsRun(script []string, w *bufio.Writer) {
	e := &wshsEnv{w: w}
	e.reset()
	defer func() {
		_ = e.s.CloseNextLayer()
		_ = e.ioc.Close()
		_ = e.ln.Close()
	}()
	for _, line := range script {
		f := strings.Fields(line)
		fmt.Fprintf(w, "! %s\n", line)
		switch f[0] {
		case "new":
			e.reset()
			fmt.Fprintf(w, "< new %s %d\n", wshsState(e.s), e.s.Pending())
		case "stale":
			// a fresh stream with a previous session (over a scripted transport) that received a ping and has not
			// flushed the pong yet
			e.reset()
			ms := newMemStream()
			ms.feed([]byte{0x89, 0x01, 0x2a})
			if err := e.s.VerifAttach(ms); err != nil {
				panic(err)
			}
			_, _ = e.s.NextFrame()
			inflight := 0
			if len(f) > 1 && f[1] == "inflight" {
				// ... and whose asynchronous flush of that pong never completed: the application dropped the transport with the
				// write in flight (the frame has left the queue, so it is added to the count reported below)
				ms.deferWrites = true
				e.s.AsyncFlush(func(error) {})
				inflight = 1 - e.s.Pending()
			}
			if len(f) > 1 && f[1] == "dst" {
				// ... and whose transport failed while the pong was being flushed (same observable state, plus stale bytes in
				// the write buffer)
				ms.writeErr = io.ErrClosedPipe
				_ = e.s.Flush() // fails: the pong stays queued and its encoding stays in the write buffer
			}
			fmt.Fprintf(w, "< stale %s %d\n", wshsState(e.s), e.s.Pending()+inflight)
		case "hs":
			e.handshake(wshsParse(f[1:]))
		default:
			panic("bad op " + f[0])
		}
	}
}

// ---- generator --------------------------------------------------------------------------------------

type wshsHeader struct{ name, sep, value string }

// wshsResponse renders a response head and returns it with the abstract fields the model needs.
func wshsResponse(r *rng, hostile bool) (head []byte, status int, upg string, acc string, parse string) {
	status = 101
	upg = r.pickS("websocket", "websocket", "WebSocket", "WEBSOCKET", "wEbSoCkEt")
	acc = "@"
	parse = "ok"
	if hostile {
		switch r.intn(12) {
		case 0:
			status = r.pick(200, 400, 100, 301, 404, 500, 102, 201)
		case 1:
			upg = "-"
		case 2:
			upg = r.pickS("h2c", "websocket2", "web socket", "websocke", "ws")
		case 3:
			acc = "#"
		case 4:
			acc = "%"
		case 5:
			acc = "-"
		case 6:
			acc = "x"
		case 7:
			parse = "bad"
		case 8:
			status = r.pick(200, 400)
			acc = "#"
		case 9:
			acc = "dup" // a wrong value first, the right one second: Header.Get takes the first
		case 10:
			upg = "-"
			acc = "-"
		case 11:
			status = 101
			acc = "@x" // the right value followed by junk
		}
	}
	reason := map[int]string{101: "Switching Protocols", 200: "OK", 400: "Bad Request", 100: "Continue", 301: "Moved Permanently",
		404: "Not Found", 500: "Internal Server Error", 102: "Processing", 201: "Created"}[status]
	statusLine := fmt.Sprintf("HTTP/1.1 %d %s\r\n", status, reason)
	if r.intn(8) == 0 {
		statusLine = fmt.Sprintf("HTTP/1.1 %d\r\n", status)
	}
	if parse == "bad" {
		statusLine = r.pickS("HTTP/1.1 abc Switching\r\n", "garbage\r\n", "HTTP/1.1 1010 X\r\n", "101 Switching Protocols\r\n")
	}
	sep := func() string { return r.pickS(": ", ": ", ":", ":  ", ":\t", ": \t ") }
	trailWS := func() string { return r.pickS("", "", "", " ", "  ", "\t") }
	name := func(canon string) string {
		switch r.intn(4) {
		case 0:
			return strings.ToLower(canon)
		case 1:
			return strings.ToUpper(canon)
		default:
			return canon
		}
	}
	var hs []wshsHeader
	if upg != "-" {
		hs = append(hs, wshsHeader{name("Upgrade"), sep(), upg + trailWS()})
	}
	// the Connection header of the response is not one of the three acceptance conditions: usual, a token list, repeated, absent
	switch r.intn(8) {
	case 0:
		hs = append(hs, wshsHeader{name("Connection"), sep(), r.pickS("keep-alive, Upgrade", "Upgrade, keep-alive", "keep-alive,upgrade") + trailWS()})
	case 1:
		hs = append(hs, wshsHeader{name("Connection"), sep(), "keep-alive"}, wshsHeader{name("Connection"), sep(), "Upgrade" + trailWS()})
	case 2:
	default:
		hs = append(hs, wshsHeader{name("Connection"), sep(), r.pickS("Upgrade", "upgrade") + trailWS()})
	}
	mark := map[string]string{"@": strings.Repeat("@", 28), "#": strings.Repeat("#", 28), "%": strings.Repeat("%", 28)}
	switch acc {
	case "@", "#", "%":
		hs = append(hs, wshsHeader{name("Sec-WebSocket-Accept"), sep(), mark[acc] + trailWS()})
	case "x":
		hs = append(hs, wshsHeader{name("Sec-WebSocket-Accept"), sep(), r.pickS("dGhlIHNhbXBsZSBub25jZQ==", "s3pPLMBiTxaQ9kYGzzhZRbK+xOo=", "x")})
	case "@x":
		hs = append(hs, wshsHeader{name("Sec-WebSocket-Accept"), sep(), mark["@"] + r.pickS("=", "A", ", x")})
		acc = "x"
	case "dup":
		hs = append(hs, wshsHeader{"Sec-WebSocket-Accept", ": ", mark["#"] + "\r\nSec-WebSocket-Accept: " + mark["@"]})
		acc = "#"
	}
	for i := r.intn(3); i > 0; i-- {
		junk := [][2]string{{"Server", "sonic"}, {"Date", "Thu, 01 Jan 1970 00:00:00 GMT"}, {"X-Note", "a b c"},
			{"Sec-WebSocket-Protocol", "chat"}, {"X-Upgrade", "websocket"}, {"X-Accept", strings.Repeat("A", 28)}}[r.intn(6)]
		hs = append(hs, wshsHeader{junk[0], ": ", junk[1]})
	}
	// order is free
	for i := len(hs) - 1; i > 0; i-- {
		j := r.intn(i + 1)
		hs[i], hs[j] = hs[j], hs[i]
	}
	var b bytes.Buffer
	b.WriteString(statusLine)
	for _, h := range hs {
		b.WriteString(h.name + h.sep + h.value + "\r\n")
	}
	b.WriteString("\r\n")
	return b.Bytes(), status, upg, acc, parse
}

func (r *rng) pickS(xs ...string) string { return xs[r.intn(len(xs))] }

func wshsFrame(r *rng) []byte {
	if r.intn(7) == 0 {
		// a Close frame right behind the response: the session ends with the client's reply still queued, and the next
		// handshake on this stream starts from there
		reason := r.bytes(r.pick(0, 0, 3, 10))
		for i := range reason {
			reason[i] = 'a' + reason[i]%26
		}
		return append([]byte{0x88, byte(2 + len(reason)), 0x03, byte(r.pick(0xe8, 0xe9, 0xf3))}, reason...)
	}
	n := r.pick(0, 1, 2, 5, 5, 20, 125)
	op := byte(r.pick(0x81, 0x82, 0x82, 0x89, 0x8a, 0x02, 0x01))
	p := r.bytes(n)
	if op == 0x81 || op == 0x01 {
		for i := range p {
			p[i] = 'a' + p[i]%26
		}
	}
	return append([]byte{op, byte(n)}, p...)
}

func wshsLine(r *rng, mode string, head []byte, status int, upg, acc, parse string, trail []byte, segs []int, closeAt int, extra string) string {
	sg := "-"
	if len(segs) > 0 {
		var xs []string
		for _, s := range segs {
			xs = append(xs, fmt.Sprint(s))
		}
		sg = strings.Join(xs, ",")
	}
	ca := "-"
	if closeAt >= 0 {
		ca = fmt.Sprint(closeAt)
	}
	return fmt.Sprintf("hs mode=%s status=%d upg=%s acc=%s parse=%s resp=%s trail=%s segs=%s closeat=%s extra=%s",
		mode, status, strings.ReplaceAll(upg, " ", "_"), acc, parse, cdHx(head), cdHx(trail), sg, ca, extra)
}

func wshsGen(r *rng, maxops int, w *bufio.Writer) {
	fmt.Fprintf(w, "! new\n")
	n := 1 + r.intn(maxops)
	for i := 0; i < n; i++ {
		if r.intn(5) == 0 {
			fmt.Fprintf(w, "! stale%s\n", r.pickS("", " dst", " inflight"))
		}
		mode := r.pickS("sync", "sync", "async")
		head, status, upg, acc, parse := wshsResponse(r, r.intn(3) == 0)
		var trail []byte
		closeAt := -1
		switch r.intn(6) {
		case 0: // nothing follows and the server closes after the response
			closeAt = len(head)
		case 1: // the server goes away in the middle of the response
			closeAt = r.intn(len(head))
		case 2: // two frames piggy-backed
			trail = append(wshsFrame(r), wshsFrame(r)...)
		default:
			trail = wshsFrame(r)
		}
		total := len(head) + len(trail)
		var segs []int
		switch r.intn(5) {
		case 0: // one write
		case 1: // head and trail separately
			segs = []int{len(head)}
		case 2: // cut around the blank line
			segs = []int{len(head) - r.pick(1, 2, 3, 4, 5), r.pick(1, 2, 3, 4, 5, 6)}
		case 3: // single bytes at the start, then the rest
			for j := r.intn(6); j >= 0; j-- {
				segs = append(segs, 1)
			}
		default:
			for j := r.intn(4); j >= 0; j-- {
				segs = append(segs, 1+r.intn(total))
			}
		}
		extra := "-"
		switch r.intn(4) {
		case 0:
			extra = "X-Token:abc"
		case 1:
			extra = "x-lower:v1;Origin:http://example.test"
		}
		fmt.Fprintf(w, "! %s\n", wshsLine(r, mode, head, status, upg, acc, parse, trail, segs, closeAt, extra))
	}
}

// wshsEnum <which>: every split point (two writes) of three canonical responses with a piggy-backed frame,
// and the server closing at every offset of one of them.
func wshsEnum(args []string, w *bufio.Writer) {
	mark := strings.Repeat("@", 28)
	heads := []string{
		"HTTP/1.1 101 Switching Protocols\r\nUpgrade: websocket\r\nConnection: Upgrade\r\nSec-WebSocket-Accept: " + mark + "\r\n\r\n",
		"HTTP/1.1 101 Switching Protocols\r\nsec-websocket-accept:" + mark + "  \r\nCONNECTION: upgrade\r\nupgrade:   WebSocket\r\n\r\n",
		"HTTP/1.1 101\r\nServer: x\r\nUpgrade:\tWEBSOCKET\t\r\nSec-Websocket-Accept: " + mark + "\r\nConnection: Upgrade\r\nContent-Length: 0\r\n\r\n",
	}
	upgs := []string{"websocket", "WebSocket", "WEBSOCKET"}
	trail := []byte{0x81, 0x05, 'h', 'e', 'l', 'l', 'o'}
	r := newRng(1)
	k := 0
	step := 1
	if len(args) > 0 {
		step = atoi(args[0])
	}
	for hi, h := range heads {
		total := len(h) + len(trail)
		for cut := 1; cut < total; cut += step {
			mode := "sync"
			if cut%3 == 0 {
				mode = "async"
			}
			fmt.Fprintf(w, "# script %d\n! new\n! %s\n", k, wshsLine(r, mode, []byte(h), 101, upgs[hi], "@", "ok", trail, []int{cut}, -1, "-"))
			k++
		}
		if hi == 0 {
			for at := 0; at <= total; at += step {
				fmt.Fprintf(w, "# script %d\n! new\n! %s\n", k, wshsLine(r, "sync", []byte(h), 101, upgs[hi], "@", "ok", trail, nil, at, "-"))
				k++
			}
		}
	}
}
