package main

// Component "fds" (property C13): descriptors of the real library objects.
//
// Trace mode (gen / enum / run): Close / create interleavings.
//
//	! open                     ? base <descriptor numbers open at the start of the script>
//	! new <kind> <k>           ? fds <numbers the new object got>   [? peer <number of the accepted peer socket>]
//	                           < alive <script-created numbers that answer fcntl(F_GETFD)>
//	! close <k>                < ret <error class>     < alive ...
//
// kinds: io timer listener packet conn adapter udppeer file socket pipe; object 1000+k is the peer socket of conn /
// adapter k (owned by the harness).  The descriptors of a new object are found by a /proc/self/fd census before and
// after the constructor, not by asking the object.
//
// Direct mode: runtime behaviour no model can exhibit — a /proc/self/fd census (numbers and link targets) around every
// constructor success + Close and every provokable failure (refused port, bind conflict, bad address, failing option,
// websocket handshake against a raw server that answers garbage / closes at every byte offset / answers a non-101
// status, RLIMIT_NOFILE lowered so that the k-th descriptor allocation fails), repeated Close interleaved with pipe
// creation, and garbage collection while operations are deferred.

import (
	"bufio"
	"crypto/sha1"
	"crypto/tls"
	"encoding/base64"
	"encoding/json"
	"fmt"
	"io"
	"net"
	"net/netip"
	"os"
	"runtime"
	"sort"
	"strconv"
	"strings"
	"syscall"
	"time"

	"github.com/talostrading/sonic"
	sonicbytes "github.com/talostrading/sonic/bytes"
	"github.com/talostrading/sonic/codec/websocket"
	"github.com/talostrading/sonic/multicast"
	"github.com/talostrading/sonic/sonicerrors"
	"github.com/talostrading/sonic/sonicopts"
	"golang.org/x/sys/unix"
)

func init() {
	components["fds"] = &component{gen: fdsGen, enum: fdsEnum, run: fdsRun, direct: fdsDirect}
}

// ---- census ----------------------------------------------------------------------------------------------

// fdsCensus returns the open descriptors of the process with their link targets (the descriptor used to read
// /proc/self/fd itself excluded).
func fdsCensus() map[int]string {
	out := map[int]string{}
	d, err := os.Open("/proc/self/fd")
	if err != nil {
		return out
	}
	self := int(d.Fd())
	names, _ := d.Readdirnames(-1)
	for _, n := range names {
		fd, err := strconv.Atoi(n)
		if err != nil || fd == self {
			continue
		}
		t, err := os.Readlink("/proc/self/fd/" + n)
		if err != nil {
			continue
		}
		out[fd] = t
	}
	d.Close()
	return out
}

func fdsKeys(m map[int]string) []int {
	var ks []int
	for k := range m {
		ks = append(ks, k)
	}
	sort.Ints(ks)
	return ks
}

// fdsDiff describes what differs between two censuses ("" = identical).
func fdsDiff(before, after map[int]string) string {
	var parts []string
	for _, k := range fdsKeys(after) {
		if b, ok := before[k]; !ok {
			parts = append(parts, fmt.Sprintf("+%d=%s", k, after[k]))
		} else if b != after[k] {
			parts = append(parts, fmt.Sprintf("%d:%s->%s", k, b, after[k]))
		}
	}
	for _, k := range fdsKeys(before) {
		if _, ok := after[k]; !ok {
			parts = append(parts, fmt.Sprintf("-%d=%s", k, before[k]))
		}
	}
	return strings.Join(parts, ",")
}

func fdsNew(before, after map[int]string) []int {
	var out []int
	for _, k := range fdsKeys(after) {
		if _, ok := before[k]; !ok {
			out = append(out, k)
		}
	}
	return out
}

func fdsAlive(fd int) bool {
	_, err := unix.FcntlInt(uintptr(fd), unix.F_GETFD, 0)
	return err == nil
}

func fdsJoin(l []int) string {
	s := make([]string, len(l))
	for i, x := range l {
		s[i] = strconv.Itoa(x)
	}
	return strings.Join(s, " ")
}

// ---- shared peer listener (std library), created once so that the runtime's own descriptors exist before any census --

var fdsLn *net.TCPListener

func fdsWarm() {
	if fdsLn != nil {
		return
	}
	ln, err := net.Listen("tcp", "127.0.0.1:0")
	if err != nil {
		panic(err)
	}
	fdsLn = ln.(*net.TCPListener)
	// one full round trip so that everything lazy in the runtime (netpoll, its wake-up descriptors) exists
	c, err := net.Dial("tcp", fdsLn.Addr().String())
	if err == nil {
		p, _ := fdsLn.Accept()
		if p != nil {
			p.Close()
		}
		c.Close()
	}
}

// fdsAccept accepts one pending connection on the shared listener (nil if none arrives in time).
func fdsAccept(wait time.Duration) net.Conn {
	_ = fdsLn.SetDeadline(time.Now().Add(wait))
	c, err := fdsLn.Accept()
	if err != nil {
		return nil
	}
	return c
}

// fdsDrain closes whatever is still queued on the shared listener.
func fdsDrain() int {
	n := 0
	for {
		c := fdsAccept(2 * time.Millisecond)
		if c == nil {
			return n
		}
		c.Close()
		n++
	}
}

// ---- objects ---------------------------------------------------------------------------------------------------

type fdsObj struct {
	kind   string
	close  func() error
	fds    []int
	peer   net.Conn
	peerFd int
	// keep references so that nothing is finalised behind the census
	keep []any
}

// fdsCreate makes one object of the given kind on ioc. The error is the constructor's.
func fdsCreate(ioc *sonic.IO, kind string) (*fdsObj, error) {
	o := &fdsObj{kind: kind, peerFd: -1}
	switch kind {
	case "io":
		x, err := sonic.NewIO()
		if err != nil {
			return nil, err
		}
		o.close = x.Close
		o.keep = append(o.keep, x)
	case "timer":
		t, err := sonic.NewTimer(ioc)
		if err != nil {
			return nil, err
		}
		o.close = t.Close
		o.keep = append(o.keep, t)
	case "listener":
		l, err := sonic.Listen(ioc, "tcp", "127.0.0.1:0")
		if err != nil {
			return nil, err
		}
		o.close = l.Close
		o.keep = append(o.keep, l)
	case "packet":
		p, err := sonic.NewPacketConn(ioc, "udp", "127.0.0.1:0")
		if err != nil {
			return nil, err
		}
		o.close = p.Close
		o.keep = append(o.keep, p)
	case "conn":
		c, err := sonic.Dial(ioc, "tcp", fdsLn.Addr().String())
		if err != nil {
			return nil, err
		}
		o.close = c.Close
		o.keep = append(o.keep, c)
	case "adapter":
		nc, err := net.Dial("tcp", fdsLn.Addr().String())
		if err != nil {
			return nil, err
		}
		var adp *sonic.AsyncAdapter
		var aerr error
		sonic.NewAsyncAdapter(ioc, nc.(syscall.Conn), nc, func(err error, a *sonic.AsyncAdapter) { aerr, adp = err, a })
		if aerr != nil || adp == nil {
			nc.Close()
			return nil, fmt.Errorf("adapter: %v", aerr)
		}
		o.close = adp.Close
		o.keep = append(o.keep, adp, nc)
	case "udppeer":
		p, err := multicast.NewUDPPeer(ioc, "udp", "127.0.0.1:0")
		if err != nil {
			return nil, err
		}
		o.close = p.Close
		o.keep = append(o.keep, p)
	case "file":
		f, err := sonic.Open(ioc, "/dev/null", os.O_RDWR, 0)
		if err != nil {
			return nil, err
		}
		o.close = f.Close
		o.keep = append(o.keep, f)
	case "socket":
		s, err := sonic.NewSocket(sonic.SocketDomainIPv4, sonic.SocketTypeDatagram, sonic.SocketProtocolUDP)
		if err != nil {
			return nil, err
		}
		o.close = s.Close
		o.keep = append(o.keep, s)
	case "pipe":
		var p [2]int
		if err := syscall.Pipe2(p[:], syscall.O_CLOEXEC); err != nil {
			return nil, err
		}
		closed := false
		o.close = func() error {
			if closed {
				return io.EOF
			}
			closed = true
			_ = syscall.Close(p[0])
			return syscall.Close(p[1])
		}
	default:
		return nil, fmt.Errorf("unknown kind %s", kind)
	}
	return o, nil
}

var fdsKinds = []string{"io", "timer", "listener", "packet", "conn", "adapter", "udppeer", "file", "socket", "pipe"}

func fdsErrClass(err error) string {
	switch {
	case err == nil:
		return "nil"
	case err == io.EOF:
		return "eof"
	}
	return "err"
}

// ---- trace mode ------------------------------------------------------------------------------------------------------

func fdsRun(script []string, w *bufio.Writer) {
	fdsWarm()
	fdsDrain()
	ioc, err := sonic.NewIO()
	if err != nil {
		fmt.Fprintf(w, "! open\n< fail %v\n", err)
		return
	}
	objs := map[int]*fdsObj{}
	tracked := map[int]bool{}
	alive := func() string {
		var l []int
		for fd := range tracked {
			if fdsAlive(fd) {
				l = append(l, fd)
			}
		}
		sort.Ints(l)
		return fdsJoin(l)
	}
	defer func() {
		for _, o := range objs {
			if o.close != nil {
				_ = o.close()
			}
			if o.peer != nil {
				o.peer.Close()
			}
		}
		ioc.Close()
		fdsDrain()
	}()
	for _, line := range script {
		f := strings.Fields(line)
		if len(f) == 0 {
			continue
		}
		fmt.Fprintf(w, "! %s\n", line)
		switch f[0] {
		case "open":
			fmt.Fprintf(w, "? base %s\n", fdsJoin(fdsKeys(fdsCensus())))
		case "new":
			if len(f) != 3 {
				continue
			}
			k := atoi(f[2])
			before := fdsCensus()
			if mark := os.Getenv("VERIF_TEST_ENVNOISE"); mark != "" && f[1] == "pipe" {
				// self-test of the orchestrator only: one foreign descriptor allocation, once per marker file
				if _, err := os.Stat(mark); err != nil {
					_ = os.WriteFile(mark, nil, 0o644)
					_, _ = syscall.Open("/dev/null", syscall.O_RDONLY|syscall.O_CLOEXEC, 0)
				}
			}
			o, err := fdsCreate(ioc, f[1])
			if err != nil {
				fmt.Fprintf(w, "< fail %s\n", fdsErrClass(err))
				continue
			}
			mid := fdsCensus()
			o.fds = fdsNew(before, mid)
			objs[k] = o
			fmt.Fprintf(w, "? fds %s\n", fdsJoin(o.fds))
			for _, fd := range o.fds {
				tracked[fd] = true
			}
			if f[1] == "conn" || f[1] == "adapter" {
				p := fdsAccept(2 * time.Second)
				if p != nil {
					after := fdsCensus()
					pf := fdsNew(mid, after)
					if len(pf) == 1 {
						o.peerFd = pf[0]
					}
					po := &fdsObj{kind: "peer", close: p.Close, fds: pf, keep: []any{p}}
					objs[1000+k] = po
					fmt.Fprintf(w, "? peer %s\n", fdsJoin(pf))
					for _, fd := range pf {
						tracked[fd] = true
					}
				}
			}
			fmt.Fprintf(w, "< alive %s\n", alive())
		case "close":
			if len(f) != 2 {
				continue
			}
			o := objs[atoi(f[1])]
			if o == nil {
				fmt.Fprintf(w, "< fail noobj\n")
				continue
			}
			var err error
			if guard(func() { err = o.close() }) {
				fmt.Fprintf(w, "< ret panic\n")
			} else {
				fmt.Fprintf(w, "< ret %s\n", fdsErrClass(err))
			}
			fmt.Fprintf(w, "< alive %s\n", alive())
		}
	}
}

func fdsGen(r *rng, maxops int, w *bufio.Writer) {
	fmt.Fprintln(w, "! open")
	n := 3 + r.intn(maxops)
	next := 1
	var ids []int       // every object created (open or closed)
	var closedIds []int // closed at least once
	live := 0
	for i := 0; i < n; i++ {
		c := r.intn(100)
		switch {
		case len(ids) == 0 || (c < 40 && live < 10):
			kind := fdsKinds[r.intn(len(fdsKinds))]
			if r.intn(3) == 0 {
				kind = "pipe" // the foreign object whose numbers a stale Close would hit
			}
			fmt.Fprintf(w, "! new %s %d\n", kind, next)
			ids = append(ids, next)
			if (kind == "conn" || kind == "adapter") && r.intn(2) == 0 {
				ids = append(ids, 1000+next)
			}
			next++
			live++
		case c < 65 && len(closedIds) > 0:
			// close again (the interesting case: its old numbers may belong to somebody else by now)
			fmt.Fprintf(w, "! close %d\n", closedIds[r.intn(len(closedIds))])
		default:
			k := ids[r.intn(len(ids))]
			fmt.Fprintf(w, "! close %d\n", k)
			closedIds = append(closedIds, k)
			live--
			if r.intn(2) == 0 {
				// immediately hand the freed numbers to a new object, then close the old one again
				kind := "pipe"
				if r.intn(3) == 0 {
					kind = fdsKinds[r.intn(len(fdsKinds))]
				}
				fmt.Fprintf(w, "! new %s %d\n", kind, next)
				ids = append(ids, next)
				next++
				live++
				for j := 0; j <= r.intn(3); j++ {
					fmt.Fprintf(w, "! close %d\n", k)
				}
			}
		}
	}
}

// fdsEnum <len>: for every kind K, `new K 1` followed by every sequence of the given length over
// {close 1, new pipe, new timer, close 2}.
func fdsEnum(args []string, w *bufio.Writer) {
	depth := 3
	if len(args) > 0 {
		depth = atoi(args[0])
	}
	alphabet := []string{"close 1", "new pipe", "new timer", "close 2"}
	id := 0
	var rec func(kind string, seq []int)
	rec = func(kind string, seq []int) {
		if len(seq) == depth {
			fmt.Fprintf(w, "# script e%d\n! open\n! new %s 1\n", id, kind)
			id++
			next := 2
			for _, a := range seq {
				switch alphabet[a] {
				case "new pipe", "new timer":
					fmt.Fprintf(w, "! %s %d\n", alphabet[a], next)
					next++
				case "close 2":
					if next > 2 {
						fmt.Fprintln(w, "! close 2")
					}
				default:
					fmt.Fprintf(w, "! %s\n", alphabet[a])
				}
			}
			return
		}
		for a := range alphabet {
			rec(kind, append(append([]int{}, seq...), a))
		}
	}
	for _, k := range fdsKinds {
		rec(k, nil)
	}
}

// ---- direct mode --------------------------------------------------------------------------------------------------------

type fdsDirectState struct {
	w      *bufio.Writer
	counts map[string]int
	fails  int
}

func (d *fdsDirectState) fail(key, format string, a ...any) {
	d.fails++
	fmt.Fprintf(d.w, "DIRECT-FAIL key=fds.%s %s\n", key, fmt.Sprintf(format, a...))
}

// trial runs f between two censuses and reports a difference under key.
func (d *fdsDirectState) trial(key, what string, f func()) {
	d.counts[key]++
	fdsDrain()
	before := fdsCensus()
	f()
	fdsDrain()
	after := fdsCensus()
	if diff := fdsDiff(before, after); diff != "" {
		// a descriptor closed a moment ago by another goroutine of the harness (raw server) may still be on its way out
		time.Sleep(20 * time.Millisecond)
		fdsDrain()
		after = fdsCensus()
		if diff = fdsDiff(before, after); diff != "" {
			d.fail(key, "%s: descriptors before and after differ: %s", what, diff)
			// do not let one leak fail every later trial: close what appeared
			for _, fd := range fdsNew(before, after) {
				_ = syscall.Close(fd)
			}
		}
	}
}

func fdsFreePort() int {
	ln, err := net.Listen("tcp", "127.0.0.1:0")
	if err != nil {
		return 1
	}
	p := ln.Addr().(*net.TCPAddr).Port
	ln.Close()
	return p
}

// fdsWithLimit lowers the soft RLIMIT_NOFILE so that the k-th descriptor allocation from now on fails (if nothing is
// released in between), runs f, and restores the limit.
func fdsWithLimit(k int, f func()) bool {
	var old syscall.Rlimit
	if err := syscall.Getrlimit(syscall.RLIMIT_NOFILE, &old); err != nil {
		return false
	}
	used := fdsCensus()
	// the k-th free number
	free, n := 0, 0
	for ; ; free++ {
		if _, ok := used[free]; !ok {
			n++
			if n == k {
				break
			}
		}
	}
	maxUsed := 0
	for fd := range used {
		if fd > maxUsed {
			maxUsed = fd
		}
	}
	_ = maxUsed
	lim := syscall.Rlimit{Cur: uint64(free), Max: old.Max}
	if err := syscall.Setrlimit(syscall.RLIMIT_NOFILE, &lim); err != nil {
		return false
	}
	defer func() { _ = syscall.Setrlimit(syscall.RLIMIT_NOFILE, &old) }()
	f()
	return true
}

// ---- raw websocket server ----------------------------------------------------------------------------------------------------

type fdsWsMode struct {
	kind string // valid | garbage | status | badkey | cut | silentclose
	cut  int
}

func fdsWsAccept(key string) string {
	h := sha1.New()
	h.Write([]byte(key))
	h.Write(websocket.GUID)
	return base64.StdEncoding.EncodeToString(h.Sum(nil))
}

func fdsWsResponse(key string) string {
	return "HTTP/1.1 101 Switching Protocols\r\nUpgrade: websocket\r\nConnection: Upgrade\r\nSec-WebSocket-Accept: " + fdsWsAccept(key) + "\r\n\r\n"
}

// fdsWsServe accepts one connection on ln, reads the request, answers according to mode, closes, and reports on done.
func fdsWsServe(ln *net.TCPListener, mode fdsWsMode, hold chan struct{}, done chan string) {
	_ = ln.SetDeadline(time.Now().Add(3 * time.Second))
	c, err := ln.Accept()
	if err != nil {
		done <- "noconn"
		return
	}
	defer func() {
		c.Close()
		done <- "served"
	}()
	_ = c.SetDeadline(time.Now().Add(3 * time.Second))
	rd := bufio.NewReader(c)
	key := ""
	for {
		line, err := rd.ReadString('\n')
		if err != nil {
			return
		}
		if strings.HasPrefix(strings.ToLower(line), "sec-websocket-key:") {
			key = strings.TrimSpace(line[len("sec-websocket-key:"):])
		}
		if line == "\r\n" {
			break
		}
	}
	switch mode.kind {
	case "valid":
		_, _ = c.Write([]byte(fdsWsResponse(key)))
		if hold != nil {
			<-hold
		}
	case "garbage":
		_, _ = c.Write([]byte("\x00\xff\x13garbage garbage\r\n\r\n"))
	case "status":
		_, _ = c.Write([]byte("HTTP/1.1 200 OK\r\nContent-Length: 0\r\n\r\n"))
	case "badkey":
		_, _ = c.Write([]byte("HTTP/1.1 101 Switching Protocols\r\nUpgrade: websocket\r\nConnection: Upgrade\r\nSec-WebSocket-Accept: AAAAAAAAAAAAAAAAAAAAAAAAAAA=\r\n\r\n"))
	case "cut":
		res := fdsWsResponse(key)
		if mode.cut < len(res) {
			res = res[:mode.cut]
		}
		_, _ = c.Write([]byte(res))
	case "silentclose":
	}
}

func fdsWsResponseLen() int {
	return len(fdsWsResponse("dGhlIHNhbXBsZSBub25jZQ=="))
}

// ---- the direct monitor ------------------------------------------------------------------------------------------------------------

func fdsDirect(seed uint64, tier string, args []string, w *bufio.Writer) {
	if tier == "mmapchild" {
		fdsMmapChild(w)
		return
	}
	d := &fdsDirectState{w: w, counts: map[string]int{}}
	fdsWarm()
	r := newRng(seed)
	reps := 3
	if tier == "thorough" {
		reps = 10
	}
	ioc, err := sonic.NewIO()
	if err != nil {
		d.fail("setup", "NewIO: %v", err)
		return
	}
	defer ioc.Close()

	// 1. every constructor: success + Close leaves the census unchanged; Close twice more changes nothing
	for _, kind := range fdsKinds {
		kind := kind
		for i := 0; i < reps; i++ {
			d.trial("ok-close."+kind, "create and close "+kind, func() {
				o, err := fdsCreate(ioc, kind)
				if err != nil {
					d.fail("ok-close."+kind, "constructor failed: %v", err)
					return
				}
				var p net.Conn
				if kind == "conn" || kind == "adapter" {
					p = fdsAccept(2 * time.Second)
				}
				_ = o.close()
				_ = o.close()
				if p != nil {
					p.Close()
				}
			})
		}
	}
	d.trial("ok-close.accept", "accept a connection and close it", func() {
		l, err := sonic.Listen(ioc, "tcp", "127.0.0.1:0")
		if err != nil {
			d.fail("ok-close.accept", "Listen: %v", err)
			return
		}
		c, err := net.Dial("tcp", l.Addr().String())
		if err == nil {
			conn, err := l.Accept()
			if err != nil {
				d.fail("ok-close.accept", "Accept: %v", err)
			} else {
				conn.Close()
				conn.Close()
			}
			c.Close()
		}
		l.Close()
	})
	d.trial("ok-close.mirrored", "NewMirroredBuffer and Destroy", func() {
		b, err := sonicbytes.NewMirroredBuffer(4096, false)
		if err != nil {
			d.fail("ok-close.mirrored", "NewMirroredBuffer: %v", err)
			return
		}
		_ = b.Destroy()
		_ = b.Destroy()
	})

	// 2. provokable failures, each several times in a row
	failing := []struct {
		key string
		f   func() error
	}{
		{"fail.dial-refused", func() error {
			c, err := sonic.Dial(ioc, "tcp", fmt.Sprintf("127.0.0.1:%d", fdsFreePort()))
			if err == nil {
				c.Close()
			}
			return err
		}},
		{"fail.dial-unroutable", func() error {
			c, err := sonic.DialTimeout(ioc, "tcp", "240.0.0.1:9", 20*time.Millisecond)
			if err == nil {
				c.Close()
			}
			return err
		}},
		{"fail.dial-bad-address", func() error {
			c, err := sonic.Dial(ioc, "tcp", "not-an-address")
			if err == nil {
				c.Close()
			}
			return err
		}},
		{"fail.dial-unknown-network", func() error {
			c, err := sonic.Dial(ioc, "xyz", "127.0.0.1:1")
			if err == nil {
				c.Close()
			}
			return err
		}},
		{"fail.dial-udp-failing-option", func() error {
			// TCP_NODELAY on a UDP socket
			c, err := sonic.Dial(ioc, "udp", "127.0.0.1:9", sonicopts.NoDelay(true))
			if err == nil {
				c.Close()
			}
			return err
		}},
		{"fail.dial-bind-before-connect", func() error {
			// bind to an address that is not local
			c, err := sonic.Dial(ioc, "tcp", fdsLn.Addr().String(), sonicopts.BindSocket(&net.TCPAddr{IP: net.IPv4(8, 8, 8, 8), Port: 1}))
			if err == nil {
				c.Close()
			}
			return err
		}},
		{"fail.listen-bind-conflict", func() error {
			l1, err := sonic.Listen(ioc, "tcp", "127.0.0.1:0")
			if err != nil {
				return nil
			}
			defer l1.Close()
			l2, err := sonic.Listen(ioc, "tcp", l1.Addr().String())
			if err == nil {
				// Addr() may report port 0: ask the kernel
				l2.Close()
				sa, _ := syscall.Getsockname(l1.RawFd())
				if in4, ok := sa.(*syscall.SockaddrInet4); ok {
					l3, err := sonic.Listen(ioc, "tcp", fmt.Sprintf("127.0.0.1:%d", in4.Port))
					if err == nil {
						l3.Close()
					}
					return err
				}
			}
			return err
		}},
		{"fail.listen-bad-address", func() error {
			l, err := sonic.Listen(ioc, "tcp", "300.1.1.1:1")
			if err == nil {
				l.Close()
			}
			return err
		}},
		{"fail.listen-failing-option", func() error {
			l, err := sonic.Listen(ioc, "tcp", "127.0.0.1:0", sonicopts.BindSocket(&net.TCPAddr{IP: net.IPv4(8, 8, 8, 8), Port: 1}))
			if err == nil {
				l.Close()
			}
			return err
		}},
		{"fail.listen-udp-network", func() error {
			l, err := sonic.Listen(ioc, "udp", "127.0.0.1:0")
			if err == nil {
				l.Close()
			}
			return err
		}},
		{"fail.packet-bind-conflict", func() error {
			p1, err := sonic.NewPacketConn(ioc, "udp", "127.0.0.1:0")
			if err != nil {
				return nil
			}
			defer p1.Close()
			sa, _ := syscall.Getsockname(p1.RawFd())
			in4, ok := sa.(*syscall.SockaddrInet4)
			if !ok {
				return nil
			}
			p2, err := sonic.NewPacketConn(ioc, "udp", fmt.Sprintf("127.0.0.1:%d", in4.Port))
			if err == nil {
				p2.Close()
			}
			return err
		}},
		{"fail.packet-bad-address", func() error {
			p, err := sonic.NewPacketConn(ioc, "udp", "8.8.8.8:53")
			if err == nil {
				p.Close()
			}
			return err
		}},
		{"fail.udppeer-bind", func() error {
			p, err := multicast.NewUDPPeer(ioc, "udp", "8.8.8.8:5353")
			if err == nil {
				p.Close()
			}
			return err
		}},
		{"fail.udppeer-bad-address", func() error {
			p, err := multicast.NewUDPPeer(ioc, "udp", "nonsense")
			if err == nil {
				p.Close()
			}
			return err
		}},
		{"fail.open-missing", func() error {
			f, err := sonic.Open(ioc, "/nonexistent/verif/file", os.O_RDONLY, 0)
			if err == nil {
				f.Close()
			}
			return err
		}},
		// Open on every kind of path open(2) may accept or refuse: whatever Open answers, nothing stays open once the File it may
		// have returned is closed
		{"fail.open-directory", func() error {
			var last error
			for _, fl := range []int{os.O_RDONLY, os.O_RDONLY | syscall.O_DIRECTORY, os.O_WRONLY, os.O_RDONLY | syscall.O_NONBLOCK, os.O_RDWR} {
				f, err := sonic.Open(ioc, os.TempDir(), fl, 0)
				if err == nil {
					f.Close()
				} else {
					last = err
				}
			}
			return last
		}},
		{"fail.open-special", func() error {
			var last error
			for _, pf := range []struct {
				path string
				fl   int
			}{{"/dev/null", os.O_RDONLY | syscall.O_DIRECTORY}, {"/proc/self/status", os.O_WRONLY}, {"/dev/zero", os.O_RDONLY},
				{"/proc/self/fd", os.O_RDONLY}, {"/", os.O_RDONLY}, {"/dev/null/x", os.O_RDONLY}, {strings.Repeat("a", 5000), os.O_RDONLY}} {
				f, err := sonic.Open(ioc, pf.path, pf.fl, 0)
				if err == nil {
					f.Close()
				} else {
					last = err
				}
			}
			return last
		}},
		{"fail.accept-wouldblock", func() error {
			l, err := sonic.Listen(ioc, "tcp", "127.0.0.1:0", sonicopts.Nonblocking(true))
			if err != nil {
				return nil
			}
			defer l.Close()
			c, err := l.Accept()
			if err == nil {
				c.Close()
			}
			return err
		}},
		{"fail.accept-closed-listener", func() error {
			l, err := sonic.Listen(ioc, "tcp", "127.0.0.1:0", sonicopts.Nonblocking(true))
			if err != nil {
				return nil
			}
			l.Close()
			// the listener's number is free now: Accept must fail without touching whatever gets it next
			var p [2]int
			_ = syscall.Pipe2(p[:], syscall.O_CLOEXEC)
			c, err := l.Accept()
			if err == nil {
				c.Close()
			}
			ok := fdsAlive(p[0]) && fdsAlive(p[1])
			syscall.Close(p[0])
			syscall.Close(p[1])
			if !ok {
				return nil
			}
			return err
		}},
		{"fail.mirrored-bad-size", func() error {
			b, err := sonicbytes.NewMirroredBuffer(-4096, false)
			if err == nil {
				b.Destroy()
			}
			return err
		}},
	}
	for _, fc := range failing {
		fc := fc
		provoked := 0
		d.trial(fc.key, "failure repeated", func() {
			for i := 0; i < reps*3; i++ {
				if fc.f() != nil {
					provoked++
				}
			}
		})
		d.counts["provoked."+fc.key] = provoked
	}

	// 3. websocket handshake against a raw server
	wsln, err := net.Listen("tcp", "127.0.0.1:0")
	if err != nil {
		d.fail("setup", "listen: %v", err)
		return
	}
	wsl := wsln.(*net.TCPListener)
	wsURL := "ws://" + wsl.Addr().String() + "/"
	var modes []fdsWsMode
	modes = append(modes, fdsWsMode{kind: "garbage"}, fdsWsMode{kind: "status"}, fdsWsMode{kind: "badkey"}, fdsWsMode{kind: "silentclose"})
	rl := fdsWsResponseLen()
	step := 1
	if tier != "thorough" {
		step = 7
	}
	for cut := 0; cut < rl; cut += step {
		modes = append(modes, fdsWsMode{kind: "cut", cut: cut})
	}
	modes = append(modes, fdsWsMode{kind: "cut", cut: rl - 1}, fdsWsMode{kind: "cut", cut: rl - 2}, fdsWsMode{kind: "cut", cut: rl - 4})
	for _, m := range modes {
		m := m
		key := "ws." + m.kind
		d.trial(key, fmt.Sprintf("handshake against a server in mode %s cut=%d", m.kind, m.cut), func() {
			ws, err := websocket.NewWebsocketStream(ioc, nil, websocket.RoleClient)
			if err != nil {
				d.fail(key, "NewWebsocketStream: %v", err)
				return
			}
			done := make(chan string, 1)
			go fdsWsServe(wsl, m, nil, done)
			herr := ws.Handshake(wsURL)
			<-done
			if herr == nil {
				d.fail(key, "handshake succeeded against a server in mode %s cut=%d", m.kind, m.cut)
				if nl := ws.NextLayer(); nl != nil {
					nl.Close()
				}
				_ = ws.CloseNextLayer()
			}
		})
	}
	// asynchronous handshake, failing
	for _, m := range []fdsWsMode{{kind: "status"}, {kind: "cut", cut: 20}, {kind: "garbage"}} {
		m := m
		d.trial("ws.async-"+m.kind, "asynchronous handshake against a server in mode "+m.kind, func() {
			ws, err := websocket.NewWebsocketStream(ioc, nil, websocket.RoleClient)
			if err != nil {
				return
			}
			done := make(chan string, 1)
			go fdsWsServe(wsl, m, nil, done)
			called := false
			var herr error
			ws.AsyncHandshake(wsURL, func(err error) { called, herr = true, err })
			deadline := time.Now().Add(4 * time.Second)
			for !called && time.Now().Before(deadline) {
				_ = ioc.RunOneFor(5 * time.Millisecond)
			}
			<-done
			if !called {
				d.fail("ws.async-"+m.kind, "the handshake callback never ran")
			} else if herr == nil {
				d.fail("ws.async-"+m.kind, "handshake succeeded")
				_ = ws.CloseNextLayer()
			}
		})
	}
	// wss:// against endpoints that accept the TCP connection and then fail the TLS handshake (a clear-text server answering with
	// HTTP, a server that closes at once): the dialled connection is released, blocking and asynchronous
	for _, mode := range []string{"sync", "async"} {
		mode := mode
		d.trial("ws.tls-handshake-fails-"+mode, "wss:// handshake ("+mode+") against a clear-text server", func() {
			for i := 0; i < 3; i++ {
				ln, err := net.Listen("tcp", "127.0.0.1:0")
				if err != nil {
					return
				}
				srvDone := make(chan struct{})
				go func() {
					defer close(srvDone)
					c, err := ln.Accept()
					if err != nil {
						return
					}
					if i%2 == 0 {
						buf := make([]byte, 64)
						_ = c.SetReadDeadline(time.Now().Add(time.Second))
						_, _ = c.Read(buf)
						_, _ = c.Write([]byte("HTTP/1.1 400 Bad Request\r\nContent-Length: 0\r\n\r\n"))
					}
					c.Close()
				}()
				ws, err := websocket.NewWebsocketStream(ioc, &tls.Config{InsecureSkipVerify: true}, websocket.RoleClient)
				if err != nil {
					ln.Close()
					return
				}
				url := "wss://" + ln.Addr().String() + "/"
				var herr error
				if mode == "sync" {
					herr = ws.Handshake(url)
				} else {
					called := false
					ws.AsyncHandshake(url, func(err error) { called, herr = true, err })
					deadline := time.Now().Add(4 * time.Second)
					for !called && time.Now().Before(deadline) {
						_ = ioc.RunOneFor(5 * time.Millisecond)
					}
					if !called {
						herr = nil
					}
				}
				<-srvDone
				ln.Close()
				if herr == nil {
					d.fail("ws.tls-handshake-fails-"+mode, "the handshake did not fail")
					_ = ws.CloseNextLayer()
				}
			}
		})
	}
	d.trial("ws.refused", "handshake to a refused port", func() {
		for i := 0; i < reps*2; i++ {
			ws, _ := websocket.NewWebsocketStream(ioc, nil, websocket.RoleClient)
			if ws.Handshake(fmt.Sprintf("ws://127.0.0.1:%d/", fdsFreePort())) == nil {
				_ = ws.CloseNextLayer()
			}
		}
	})
	d.trial("ws.bad-scheme", "handshake with an invalid scheme / wss without TLS configuration", func() {
		ws, _ := websocket.NewWebsocketStream(ioc, nil, websocket.RoleClient)
		_ = ws.Handshake("http://127.0.0.1:1/")
		_ = ws.Handshake("wss://127.0.0.1:1/")
		_ = ws.Handshake("::not a url::")
	})
	// success: the stream owns exactly one descriptor, released by closing the next layer (twice, and CloseNextLayer after)
	d.trial("ws.valid-close", "successful handshake, then Close of the next layer and CloseNextLayer", func() {
		ws, _ := websocket.NewWebsocketStream(ioc, nil, websocket.RoleClient)
		done := make(chan string, 1)
		hold := make(chan struct{})
		go fdsWsServe(wsl, fdsWsMode{kind: "valid"}, hold, done)
		before := fdsCensus()
		herr := ws.Handshake(wsURL)
		if herr != nil {
			close(hold)
			<-done
			d.fail("ws.valid-close", "handshake failed: %v", herr)
			return
		}
		// client side: exactly one new descriptor besides the server's accepted one
		if n := len(fdsNew(before, fdsCensus())); n != 2 {
			d.fail("ws.valid-close", "after a successful handshake %d new descriptors (expected 2: client and server side)", n)
		}
		var p [2]int
		_ = ws.NextLayer().Close()
		_ = syscall.Pipe2(p[:], syscall.O_CLOEXEC)
		_ = ws.NextLayer().Close()
		_ = ws.CloseNextLayer()
		_ = ws.CloseNextLayer()
		if !fdsAlive(p[0]) || !fdsAlive(p[1]) {
			d.fail("foreign-close.ws", "closing the stream's next layer again closed a pipe created in between")
		}
		syscall.Close(p[0])
		syscall.Close(p[1])
		close(hold)
		<-done
	})
	wsl.Close()

	// 4. descriptor-table exhaustion: the k-th allocation fails, for every k until the constructor succeeds
	limited := []struct {
		kind string
		f    func() (func(), error)
	}{}
	for _, kind := range fdsKinds {
		kind := kind
		if kind == "pipe" {
			continue
		}
		limited = append(limited, struct {
			kind string
			f    func() (func(), error)
		}{kind, func() (func(), error) {
			o, err := fdsCreate(ioc, kind)
			if err != nil {
				return nil, err
			}
			return func() { _ = o.close() }, nil
		}})
	}
	limited = append(limited, struct {
		kind string
		f    func() (func(), error)
	}{"mirrored", func() (func(), error) {
		b, err := sonicbytes.NewMirroredBuffer(4096, false)
		if err != nil {
			return nil, err
		}
		return func() { _ = b.Destroy() }, nil
	}})
	limited = append(limited, struct {
		kind string
		f    func() (func(), error)
	}{"ws", func() (func(), error) {
		ws, _ := websocket.NewWebsocketStream(ioc, nil, websocket.RoleClient)
		err := ws.Handshake(fmt.Sprintf("ws://127.0.0.1:%d/", 9))
		if err == nil {
			return func() { _ = ws.CloseNextLayer() }, nil
		}
		return nil, err
	}})
	for _, lc := range limited {
		lc := lc
		for k := 1; k <= 12; k++ {
			succeeded := false
			key := "emfile." + lc.kind
			d.trial(key, fmt.Sprintf("%s with the %d-th descriptor allocation failing", lc.kind, k), func() {
				var closer func()
				var err error
				if !fdsWithLimit(k, func() { closer, err = lc.f() }) {
					succeeded = true // cannot lower the limit here: nothing to test
					return
				}
				if err == nil {
					succeeded = true
					if lc.kind == "conn" || lc.kind == "adapter" {
						if p := fdsAccept(time.Second); p != nil {
							p.Close()
						}
					}
					if closer != nil {
						closer()
					}
				} else {
					d.counts["provoked.emfile."+lc.kind]++
				}
			})
			if succeeded || lc.kind == "ws" {
				break
			}
		}
	}
	// accept with the table exhausted: the pending connection stays queued, nothing leaks
	d.trial("emfile.accept", "accept with no free descriptor", func() {
		l, err := sonic.Listen(ioc, "tcp", "127.0.0.1:0", sonicopts.Nonblocking(true))
		if err != nil {
			return
		}
		defer l.Close()
		sa, _ := syscall.Getsockname(l.RawFd())
		in4, ok := sa.(*syscall.SockaddrInet4)
		if !ok {
			return
		}
		c, err := net.Dial("tcp", fmt.Sprintf("127.0.0.1:%d", in4.Port))
		if err != nil {
			return
		}
		defer c.Close()
		time.Sleep(2 * time.Millisecond)
		var aerr error
		var ac sonic.Conn
		fdsWithLimit(1, func() { ac, aerr = l.Accept() })
		if aerr == nil && ac != nil {
			ac.Close()
		} else {
			d.counts["provoked.emfile.accept"]++
			if ac2, err := l.Accept(); err == nil {
				ac2.Close()
			}
		}
	})

	// 5. repeated Close interleaved with pipe creation: the pipe gets the freed numbers and must survive
	for _, kind := range fdsKinds {
		kind := kind
		if kind == "pipe" {
			continue
		}
		d.trial("foreign-close."+kind, "Close; pipe; Close again x3", func() {
			before := fdsCensus()
			o, err := fdsCreate(ioc, kind)
			if err != nil {
				return
			}
			mine := fdsNew(before, fdsCensus())
			var p net.Conn
			if kind == "conn" || kind == "adapter" {
				p = fdsAccept(2 * time.Second)
			}
			_ = o.close()
			var pipes [][2]int
			for i := 0; i < len(mine); i++ {
				var pp [2]int
				if syscall.Pipe2(pp[:], syscall.O_CLOEXEC) == nil {
					pipes = append(pipes, pp)
				}
			}
			reused := false
			for _, pp := range pipes {
				for _, m := range mine {
					if pp[0] == m || pp[1] == m {
						reused = true
					}
				}
			}
			if reused {
				d.counts["numbers-reused"]++
			}
			for i := 0; i < 3; i++ {
				_ = o.close()
			}
			if kind == "adapter" {
				// the wrapped net.Conn is still referenced by the harness: closing it again must be harmless too
				for _, x := range o.keep {
					if nc, ok := x.(net.Conn); ok {
						nc.Close()
					}
				}
			}
			for _, pp := range pipes {
				if !fdsAlive(pp[0]) || !fdsAlive(pp[1]) {
					d.fail("foreign-close."+kind, "a pipe created after the first Close (descriptors %d,%d; the object had %v) was closed by a later Close", pp[0], pp[1], mine)
				} else if t, _ := os.Readlink(fmt.Sprintf("/proc/self/fd/%d", pp[0])); !strings.HasPrefix(t, "pipe:") {
					d.fail("foreign-close."+kind, "descriptor %d is no longer the pipe (%s)", pp[0], t)
				}
				syscall.Close(pp[0])
				syscall.Close(pp[1])
			}
			if p != nil {
				p.Close()
			}
		})
	}
	// 5a. an adapter whose net.Conn was closed through its owner first (what websocket's CloseNextLayer or the application
	// does): the adapter's own Close comes later, when the number belongs to somebody else
	d.trial("foreign-close.adapter-owner-first", "net.Conn.Close; pipe; adapter.Close x2", func() {
		before := fdsCensus()
		o, err := fdsCreate(ioc, "adapter")
		if err != nil {
			return
		}
		mine := fdsNew(before, fdsCensus())
		p := fdsAccept(2 * time.Second)
		for _, x := range o.keep {
			if nc, ok := x.(net.Conn); ok {
				_ = nc.Close()
			}
		}
		var pipes [][2]int
		for i := 0; i < len(mine); i++ {
			var pp [2]int
			if syscall.Pipe2(pp[:], syscall.O_CLOEXEC) == nil {
				pipes = append(pipes, pp)
			}
		}
		_ = o.close()
		_ = o.close()
		for _, pp := range pipes {
			if !fdsAlive(pp[0]) || !fdsAlive(pp[1]) {
				d.fail("foreign-close.adapter", "a pipe created after the wrapped net.Conn was closed (descriptors %d,%d; the adapter had %v) was closed by the adapter's Close", pp[0], pp[1], mine)
			}
			syscall.Close(pp[0])
			syscall.Close(pp[1])
		}
		if p != nil {
			p.Close()
		}
	})
	// Close after the IO context was closed first, with operations in flight (epoll_ctl fails with EBADF)
	for _, variant := range []string{"write", "read", "both"} {
		variant := variant
		d.trial("close-after-io-close."+variant, "conn.Close after IO.Close with a deferred "+variant, func() {
			io2, err := sonic.NewIO()
			if err != nil {
				return
			}
			c, err := sonic.Dial(io2, "tcp", fdsLn.Addr().String())
			if err != nil {
				io2.Close()
				return
			}
			p := fdsAccept(2 * time.Second)
			io2.Dispatched = sonic.MaxCallbackDispatch
			if variant != "read" {
				c.AsyncWrite([]byte("x"), func(error, int) {})
			}
			if variant != "write" {
				c.AsyncRead(make([]byte, 1), func(error, int) {})
			}
			io2.Dispatched = 0
			io2.Close()
			_ = c.Close()
			_ = c.Close()
			if p != nil {
				p.Close()
			}
		})
	}

	// the same for multicast peers and packet connections, per direction (a deferred write only, a deferred read only, both)
	for _, kind := range []string{"udppeer", "packet"} {
		for _, variant := range []string{"write", "read", "both"} {
			kind, variant := kind, variant
			d.trial("close-after-io-close."+kind+"-"+variant, kind+".Close after IO.Close with a deferred "+variant, func() {
				io2, err := sonic.NewIO()
				if err != nil {
					return
				}
				var closeIt func() error
				io2.Dispatched = sonic.MaxCallbackDispatch
				if kind == "udppeer" {
					p, err := multicast.NewUDPPeer(io2, "udp", "127.0.0.1:0")
					if err != nil {
						io2.Close()
						return
					}
					if variant != "read" {
						p.AsyncWrite([]byte("x"), p.LocalAddr().AddrPort(), func(error, int) {})
					}
					if variant != "write" {
						p.AsyncRead(make([]byte, 8), func(error, int, netip.AddrPort) {})
					}
					closeIt = p.Close
				} else {
					pc, err := sonic.NewPacketConn(io2, "udp", "127.0.0.1:0")
					if err != nil {
						io2.Close()
						return
					}
					_ = syscall.SetNonblock(pc.RawFd(), true)
					if variant != "read" {
						pc.AsyncWriteTo([]byte("x"), &net.UDPAddr{IP: net.IPv4(127, 0, 0, 1), Port: 9}, func(error) {})
					}
					if variant != "write" {
						pc.AsyncReadFrom(make([]byte, 8), func(error, int, net.Addr) {})
					}
					closeIt = pc.Close
				}
				io2.Dispatched = 0
				io2.Close()
				_ = closeIt()
				_ = closeIt()
			})
		}
	}

	// ... and for the other kinds: IO.Close first, then Close, another object takes the number, Close again
	for _, kind := range []string{"timer", "packet", "listener"} {
		kind := kind
		d.trial("close-after-io-close."+kind, kind+".Close twice after IO.Close with an operation in flight, a pipe created in between", func() {
			io2, err := sonic.NewIO()
			if err != nil {
				return
			}
			var closeIt func() error
			switch kind {
			case "timer":
				t, err := sonic.NewTimer(io2)
				if err != nil {
					io2.Close()
					return
				}
				_ = t.ScheduleOnce(time.Hour, func() {})
				closeIt = t.Close
			case "packet":
				pc, err := sonic.NewPacketConn(io2, "udp", "127.0.0.1:0")
				if err != nil {
					io2.Close()
					return
				}
				_ = syscall.SetNonblock(pc.RawFd(), true)
				io2.Dispatched = sonic.MaxCallbackDispatch
				pc.AsyncReadFrom(make([]byte, 8), func(error, int, net.Addr) {})
				io2.Dispatched = 0
				closeIt = pc.Close
			case "listener":
				l, err := sonic.Listen(io2, "tcp", "127.0.0.1:0", sonicopts.Nonblocking(true))
				if err != nil {
					io2.Close()
					return
				}
				l.AsyncAccept(func(error, sonic.Conn) {})
				closeIt = l.Close
			}
			io2.Close()
			_ = closeIt()
			// IO.Close and the object's Close freed three numbers: take all of them (two pipes)
			var p1, p2 [2]int
			if err := syscall.Pipe2(p1[:], syscall.O_CLOEXEC); err != nil {
				return
			}
			if err := syscall.Pipe2(p2[:], syscall.O_CLOEXEC); err != nil {
				_ = syscall.Close(p1[0])
				_ = syscall.Close(p1[1])
				return
			}
			p := []int{p1[0], p1[1], p2[0], p2[1]}
			_ = closeIt()
			_ = closeIt()
			for _, fd := range p {
				if _, err := unix.FcntlInt(uintptr(fd), unix.F_GETFD, 0); err != nil {
					d.fail("foreign-close", "%s: a repeated Close after IO.Close closed descriptor %d, which belongs to a pipe created in between", kind, fd)
				} else {
					_ = syscall.Close(fd)
				}
			}
		})
	}

	// 6. garbage collection with operations deferred: the registry keeps the owner alive, the completion arrives
	for _, kind := range []string{"conn-read", "conn-write", "conn-both", "accepted-read", "adapter-read", "adapter-both", "packet-read", "listener-accept", "listener-accept-stolen", "listener-accept-stolen", "listener-accept-stolen"} {
		kind := kind
		d.trial("gc."+kind, "drop all references with "+kind+" deferred, collect, complete", func() {
			fdsGcTrial(d, ioc, kind, r)
		})
	}

	// 6a. a repeated Close of an object whose descriptor number now belongs to another object with an operation in flight
	// must leave the other object's registration (and so its life) alone
	for _, xkind := range []string{"packet", "conn", "listener"} {
		xkind := xkind
		d.trial("gc.stale-close."+xkind, "Close "+xkind+" X; Y gets X's descriptor number and defers a read; X.Close() again", func() {
			fdsStaleCloseTrial(d, ioc, xkind)
		})
	}

	// 6a'. "reconnect on completion": the callback of a deferred read (write) closes its connection and dials a new one, which
	// gets the same descriptor number and defers a read; whatever the old object still does after its callback returned
	// must leave the new object's registration alone
	for _, dir := range []string{"read", "write"} {
		dir := dir
		d.trial("gc.reconnect-in-"+dir+"-callback", "the "+dir+" callback closes its conn and dials a new one (same number) with a deferred read; drop references, collect, complete", func() {
			fdsReconnectTrial(d, ioc, dir)
		})
	}

	// 6b. the same with descriptor numbers >= 4096: the IO registry keeps those in a map, not in its static table
	if held := fdsOccupy(4200); held != nil {
		for _, kind := range []string{"conn-read", "conn-write", "conn-both", "adapter-both", "packet-read", "listener-accept"} {
			kind := kind
			d.trial("gc-high."+kind, "as gc."+kind+" with a descriptor number above 4096", func() {
				fdsGcTrial(d, ioc, kind, r)
			})
		}
		for _, fd := range held {
			_ = syscall.Close(fd)
		}
	}

	// NewMirroredBuffer with the re-mapping failing (mapping-count exhaustion, in a child process)
	fdsMirroredRemapTrial(d)

	// 6c. timers: a schedule in flight keeps the timer alive (last: a timer collected while armed leaves a dangling
	// registration behind, after which nothing more can be trusted in this process)
	for _, variant := range []string{"once", "repeating", "rescheduled-in-cancelled-repeating-callback", "rescheduled-in-one-shot-callback"} {
		variant := variant
		ok := true
		d.trial("gc.timer-"+variant, "drop all references to a timer with a schedule in flight ("+variant+"), collect, let it fire", func() {
			ok = fdsGcTimerTrial(d, ioc, variant)
		})
		if !ok {
			break
		}
	}

	// 7. descriptor number 0 (a process started with its standard input closed hands it to the first socket it creates): an object
	// that holds it releases it like any other number
	if saved, err := syscall.Dup(0); err == nil {
		syscall.CloseOnExec(saved)
		_ = syscall.Close(0)
		for _, kind := range []string{"socket", "udppeer", "packet", "listener", "timer", "conn", "file"} {
			kind := kind
			d.trial("descriptor-zero."+kind, "create "+kind+" with descriptor 0 free, Close it", func() {
				before := fdsCensus()
				o, err := fdsCreate(ioc, kind)
				if err != nil {
					return
				}
				got := fdsNew(before, fdsCensus())
				holdsZero := false
				for _, fd := range got {
					if fd == 0 {
						holdsZero = true
					}
				}
				if len(o.fds) > 0 {
					holdsZero = false
					for _, fd := range o.fds {
						if fd == 0 {
							holdsZero = true
						}
					}
				}
				if o.close != nil {
					_ = o.close()
				}
				if o.peer != nil {
					o.peer.Close()
				}
				if o.peerFd > 0 {
					_ = syscall.Close(o.peerFd)
				}
				if holdsZero && fdsAlive(0) {
					d.fail("descriptor-zero", "%s: the object held descriptor 0; after Close (which reported success) descriptor 0 is still open: %s", kind, fdsCensus()[0])
					_ = syscall.Close(0)
				}
			})
		}
		_ = syscall.Close(0)
		_ = syscall.Dup2(saved, 0)
		_ = syscall.Close(saved)
	}

	st := map[string]any{"fds_trials": d.counts, "fds_failures": d.fails}
	js, _ := json.Marshal(st)
	fmt.Fprintf(w, "DIRECT-STAT %s\n", js)
}

// fdsOccupy opens descriptors until the lowest free number is above `upTo` (nil if the limit does not allow it).
func fdsOccupy(upTo int) []int {
	var lim syscall.Rlimit
	if err := syscall.Getrlimit(syscall.RLIMIT_NOFILE, &lim); err != nil || lim.Cur < uint64(upTo+500) {
		return nil
	}
	var held []int
	for {
		fd, err := syscall.Open("/dev/null", syscall.O_RDONLY|syscall.O_CLOEXEC, 0)
		if err != nil {
			for _, h := range held {
				_ = syscall.Close(h)
			}
			return nil
		}
		held = append(held, fd)
		if fd > upTo {
			return held
		}
	}
}

type fdsSentinel struct{ n int }

// fdsGcStart creates the object, starts the deferred operation(s) and returns only numbers: no reference to the object
// survives this call in the harness.
func fdsGcStart(ioc *sonic.IO, kind string, completed *int, finalized *bool, payload []byte) (fd int, peer any, err error) {
	sent := &fdsSentinel{}
	runtime.SetFinalizer(sent, func(*fdsSentinel) { *finalized = true })
	switch kind {
	case "conn-read", "conn-write", "conn-both":
		c, err := sonic.Dial(ioc, "tcp", fdsLn.Addr().String())
		if err != nil {
			return -1, nil, err
		}
		p := fdsAccept(2 * time.Second)
		if p == nil {
			c.Close()
			return -1, nil, fmt.Errorf("no peer")
		}
		fd = c.RawFd()
		pending := 0
		finish := func() {
			pending--
			if pending == 0 {
				c.Close() // the callback may use the object: it is reachable only through the object itself
			}
		}
		ioc.Dispatched = sonic.MaxCallbackDispatch // force deferral
		if kind != "conn-write" {
			pending++
			buf := make([]byte, len(payload))
			c.AsyncReadAll(buf, func(err error, n int) {
				sent.n++
				if err == nil && string(buf[:n]) == string(payload) {
					*completed++
				}
				finish()
			})
		}
		if kind != "conn-read" {
			pending++
			c.AsyncWriteAll(payload, func(err error, n int) {
				sent.n++
				if err == nil && n == len(payload) {
					*completed++
				}
				finish()
			})
		}
		ioc.Dispatched = 0
		return fd, p, nil
	case "accepted-read":
		// a connection handed out by a sonic listener; the completion callback does not refer to the connection, so nothing
		// but the IO registry keeps it reachable
		l, err := sonic.Listen(ioc, "tcp", "127.0.0.1:0", sonicopts.Nonblocking(true))
		if err != nil {
			return -1, nil, err
		}
		defer l.Close()
		sa, _ := syscall.Getsockname(l.RawFd())
		in4, ok := sa.(*syscall.SockaddrInet4)
		if !ok {
			return -1, nil, fmt.Errorf("no listener address")
		}
		p, err := net.Dial("tcp", fmt.Sprintf("127.0.0.1:%d", in4.Port))
		if err != nil {
			return -1, nil, err
		}
		var c sonic.Conn
		for i := 0; i < 200 && c == nil; i++ {
			if c, err = l.Accept(); err != nil {
				c = nil
				time.Sleep(time.Millisecond)
			}
		}
		if c == nil {
			p.Close()
			return -1, nil, fmt.Errorf("accept: %v", err)
		}
		fd = c.RawFd()
		num := fd
		buf := make([]byte, len(payload))
		ioc.Dispatched = sonic.MaxCallbackDispatch // force deferral
		c.AsyncReadAll(buf, func(err error, n int) {
			sent.n++
			if err == nil && string(buf[:n]) == string(payload) {
				*completed++
			}
			_ = syscall.Close(num) // (the callback holds the number, not the object)
		})
		ioc.Dispatched = 0
		return fd, p, nil
	case "adapter-read", "adapter-both":
		nc, err := net.Dial("tcp", fdsLn.Addr().String())
		if err != nil {
			return -1, nil, err
		}
		p := fdsAccept(2 * time.Second)
		if p == nil {
			nc.Close()
			return -1, nil, fmt.Errorf("no peer")
		}
		var adp *sonic.AsyncAdapter
		sonic.NewAsyncAdapter(ioc, nc.(syscall.Conn), nc, func(err error, a *sonic.AsyncAdapter) { adp = a })
		if adp == nil {
			nc.Close()
			p.Close()
			return -1, nil, fmt.Errorf("no adapter")
		}
		fd = adp.RawFd()
		pending := 0
		finish := func() {
			pending--
			if pending == 0 {
				adp.Close()
			}
		}
		pending++
		buf := make([]byte, len(payload))
		adp.AsyncReadAll(buf, func(err error, n int) {
			sent.n++
			if err == nil && string(buf[:n]) == string(payload) {
				*completed++
			}
			finish()
		})
		if kind == "adapter-both" {
			pending++
			adp.AsyncWriteAll(payload, func(err error, n int) {
				sent.n++
				if err == nil && n == len(payload) {
					*completed++
				}
				finish()
			})
		}
		return fd, p, nil
	case "packet-read":
		pc, err := sonic.NewPacketConn(ioc, "udp", "127.0.0.1:0")
		if err != nil {
			return -1, nil, err
		}
		fd = pc.RawFd()
		sa, _ := syscall.Getsockname(fd)
		in4, _ := sa.(*syscall.SockaddrInet4)
		if in4 == nil {
			pc.Close()
			return -1, nil, fmt.Errorf("no address")
		}
		_ = syscall.SetNonblock(fd, true)
		buf := make([]byte, 64)
		ioc.Dispatched = sonic.MaxCallbackDispatch
		pc.AsyncReadFrom(buf, func(err error, n int, _ net.Addr) {
			sent.n++
			if err == nil && string(buf[:n]) == string(payload) {
				*completed++
			}
			pc.Close()
		})
		ioc.Dispatched = 0
		return fd, &net.UDPAddr{IP: net.IPv4(127, 0, 0, 1), Port: in4.Port}, nil
	case "listener-accept", "listener-accept-stolen":
		l, err := sonic.Listen(ioc, "tcp", "127.0.0.1:0", sonicopts.Nonblocking(true))
		if err != nil {
			return -1, nil, err
		}
		fd = l.RawFd()
		sa, _ := syscall.Getsockname(fd)
		in4, _ := sa.(*syscall.SockaddrInet4)
		if in4 == nil {
			l.Close()
			return -1, nil, fmt.Errorf("no address")
		}
		addr := &net.TCPAddr{IP: net.IPv4(127, 0, 0, 1), Port: in4.Port}
		var cb func(err error, c sonic.Conn)
		cb = func(err error, c sonic.Conn) {
			sent.n++
			if kind == "listener-accept-stolen" && err == sonicerrors.ErrWouldBlock {
				l.AsyncAccept(cb) // woken with nothing to accept: the application asks again
				return
			}
			if err == nil && c != nil {
				*completed++
				c.Close()
			}
			l.Close()
		}
		l.AsyncAccept(cb)
		if kind == "listener-accept-stolen" {
			// the queued connection is taken by a handler dispatched earlier in the same poll batch (blocking twin), so the
			// listener's own event finds the queue empty; whatever the library then does with the accept (complete it with
			// ErrWouldBlock, as here re-issued by the application, or keep waiting) the listener has an accept in flight
			_ = ioc.Post(func() {
				if c, err := l.Accept(); err == nil && c != nil {
					c.Close()
				}
			})
			cl, err := net.DialTCP("tcp", nil, addr)
			if err == nil {
				time.Sleep(2 * time.Millisecond)
				_, _ = ioc.PollOne()
				cl.Close()
			}
		}
		return fd, addr, nil
	}
	return -1, nil, fmt.Errorf("unknown gc kind")
}

func fdsStaleCloseTrial(d *fdsDirectState, ioc *sonic.IO, xkind string) {
	var closeX func() error
	fdX := -1
	switch xkind {
	case "packet":
		x, err := sonic.NewPacketConn(ioc, "udp", "127.0.0.1:0")
		if err != nil {
			d.fail("gc.stale-close."+xkind, "setup: %v", err)
			return
		}
		fdX, closeX = x.RawFd(), x.Close
	case "conn":
		x, err := sonic.Dial(ioc, "tcp", fdsLn.Addr().String())
		if err != nil {
			d.fail("gc.stale-close."+xkind, "setup: %v", err)
			return
		}
		if p := fdsAccept(2 * time.Second); p != nil {
			p.Close()
		}
		fdX, closeX = x.RawFd(), x.Close
	case "listener":
		x, err := sonic.Listen(ioc, "tcp", "127.0.0.1:0", sonicopts.Nonblocking(true))
		if err != nil {
			d.fail("gc.stale-close."+xkind, "setup: %v", err)
			return
		}
		fdX, closeX = x.RawFd(), x.Close
	}
	_ = closeX()
	y, err := sonic.NewPacketConn(ioc, "udp", "127.0.0.1:0")
	if err != nil {
		d.fail("gc.stale-close."+xkind, "setup of the second object: %v", err)
		return
	}
	defer y.Close()
	if y.RawFd() != fdX {
		return // the kernel handed out another number: nothing to observe this time
	}
	sa, _ := syscall.Getsockname(y.RawFd())
	in4, _ := sa.(*syscall.SockaddrInet4)
	if in4 == nil {
		return
	}
	_ = syscall.SetNonblock(y.RawFd(), true)
	done := false
	buf := make([]byte, 16)
	ioc.Dispatched = sonic.MaxCallbackDispatch
	y.AsyncReadFrom(buf, func(err error, n int, _ net.Addr) { done = err == nil && n == 3 })
	ioc.Dispatched = 0
	_ = closeX() // the repeated Close of the object that no longer owns the number
	if !ioc.VerifRegistered(fdX) {
		d.fail("gc.unregistered-in-flight", "repeated Close of a closed %s dropped the registration of descriptor %d, which now belongs to a packet connection with a read in flight", xkind, fdX)
		return
	}
	if u, err := net.DialUDP("udp", nil, &net.UDPAddr{IP: net.IPv4(127, 0, 0, 1), Port: in4.Port}); err == nil {
		_, _ = u.Write([]byte("abc"))
		defer u.Close()
	}
	for i := 0; i < 200 && !done; i++ {
		runtime.GC()
		_ = ioc.RunOneFor(5 * time.Millisecond)
	}
	if !done {
		d.fail("gc.completion-lost", "the read of the packet connection that inherited descriptor %d from a closed %s never completed after the repeated Close", fdX, xkind)
	}
}

// fdsGcTimerTrial: false = the timer was collected while armed (stop polling this IO context).
func fdsGcTimerTrial(d *fdsDirectState, ioc *sonic.IO, variant string) bool {
	fired, ticked, finalized := 0, false, false
	func() {
		t, err := sonic.NewTimer(ioc)
		if err != nil {
			return
		}
		// (a finalizer on the timer itself would never run: timer -> stored callback -> timer is a cycle; the sentinel is
		// reachable only through the callbacks the timer holds)
		sentinel := new([64]byte)
		runtime.SetFinalizer(sentinel, func(*[64]byte) { finalized = true })
		last := func() { runtime.KeepAlive(sentinel); fired++; _ = t.Close() }
		switch variant {
		case "once":
			ticked = true
			_ = t.ScheduleOnce(30*time.Millisecond, last)
		case "repeating":
			ticked = true
			n := 0
			_ = t.ScheduleRepeating(10*time.Millisecond, func() {
				if n++; n == 3 {
					last()
				}
			})
		case "rescheduled-in-cancelled-repeating-callback":
			_ = t.ScheduleRepeating(5*time.Millisecond, func() {
				ticked = true
				_ = t.Cancel()
				_ = t.ScheduleOnce(40*time.Millisecond, last)
			})
		case "rescheduled-in-one-shot-callback":
			_ = t.ScheduleOnce(5*time.Millisecond, func() {
				ticked = true
				_ = t.ScheduleOnce(40*time.Millisecond, last)
			})
		}
	}()
	for i := 0; i < 50 && !ticked; i++ {
		_ = ioc.RunOneFor(10 * time.Millisecond)
	}
	for i := 0; i < 3; i++ {
		runtime.GC()
		time.Sleep(time.Millisecond)
	}
	if finalized && fired == 0 {
		d.fail("gc.collected-in-flight", "timer (%s): the timer was finalised while its schedule was in flight", variant)
		return false
	}
	for i := 0; i < 60 && fired == 0; i++ {
		_ = ioc.RunOneFor(10 * time.Millisecond)
		if i%10 == 5 {
			runtime.GC()
		}
		if finalized && fired == 0 {
			d.fail("gc.collected-in-flight", "timer (%s): the timer was finalised while its schedule was in flight", variant)
			return false
		}
	}
	if fired == 0 {
		d.fail("gc.completion-lost", "timer (%s): the schedule never fired after the references were dropped and the collector ran", variant)
	}
	return true
}

func fdsReconnectTrial(d *fdsDirectState, ioc *sonic.IO, dir string) {
	completed, finalized, sameNumber := false, false, false
	fdB := -1
	var peerA, peerB net.Conn
	func() {
		a, err := sonic.Dial(ioc, "tcp", fdsLn.Addr().String())
		if err != nil {
			return
		}
		peerA = fdsAccept(2 * time.Second)
		if peerA == nil {
			a.Close()
			return
		}
		fdA := a.RawFd()
		reconnect := func(error, int) {
			_ = a.Close()
			b, err := sonic.Dial(ioc, "tcp", fdsLn.Addr().String())
			if err != nil {
				return
			}
			peerB = fdsAccept(2 * time.Second)
			fdB = b.RawFd()
			sameNumber = fdB == fdA
			sent := &fdsSentinel{}
			runtime.SetFinalizer(sent, func(*fdsSentinel) { finalized = true })
			buf := make([]byte, 4)
			b.AsyncReadAll(buf, func(err error, n int) { // deferred: the new peer has not written yet
				sent.n++
				completed = err == nil && string(buf) == "pong"
				_ = b.Close()
			})
		}
		ioc.Dispatched = sonic.MaxCallbackDispatch // force deferral of the first operation
		if dir == "read" {
			a.AsyncReadAll(make([]byte, 4), reconnect)
		} else {
			a.AsyncWriteAll([]byte("ping"), reconnect)
		}
		ioc.Dispatched = 0
	}()
	if peerA == nil {
		return
	}
	defer peerA.Close()
	if dir == "read" {
		_, _ = peerA.Write([]byte("ping"))
	}
	for i := 0; i < 50 && fdB < 0; i++ {
		_ = ioc.RunOneFor(10 * time.Millisecond)
	}
	if fdB < 0 || peerB == nil {
		d.fail("gc.reconnect", "%s: the first operation never completed / the reconnect failed", dir)
		return
	}
	defer peerB.Close()
	if sameNumber {
		d.counts["reconnect-same-number"]++
	}
	if !ioc.VerifRegistered(fdB) {
		d.fail("gc.unregistered-in-flight", "reconnect in the %s callback: the new connection (descriptor %d, same number as the closed one: %v) has a read in flight but the IO registry does not hold its slot", dir, fdB, sameNumber)
	}
	for i := 0; i < 3; i++ {
		runtime.GC()
		time.Sleep(time.Millisecond)
	}
	if finalized {
		d.fail("gc.collected-in-flight", "reconnect in the %s callback: the new connection was finalised while its read was in flight", dir)
		return
	}
	_, _ = peerB.Write([]byte("pong"))
	for i := 0; i < 50 && !completed; i++ {
		_ = ioc.RunOneFor(10 * time.Millisecond)
	}
	if !completed {
		d.fail("gc.completion-lost", "reconnect in the %s callback: the read of the new connection never completed", dir)
	}
}

func fdsGcTrial(d *fdsDirectState, ioc *sonic.IO, kind string, r *rng) {
	payload := []byte(fmt.Sprintf("payload-%d", r.intn(1000000)))
	completed, finalized := 0, false
	want := 1
	if strings.HasSuffix(kind, "-both") {
		want = 2
	}
	fd, peer, err := fdsGcStart(ioc, kind, &completed, &finalized, payload)
	if err != nil {
		d.fail("gc."+kind, "setup: %v", err)
		return
	}
	for i := 0; i < 3; i++ {
		runtime.GC()
		time.Sleep(time.Millisecond)
	}
	if !ioc.VerifRegistered(fd) && completed < want {
		d.fail("gc.unregistered-in-flight", "%s: descriptor %d has an operation in flight but the IO registry does not hold its slot", kind, fd)
		// without the registry the collector may free the object the kernel still points to: stop here
		_ = syscall.Close(fd)
		if c, ok := peer.(io.Closer); ok {
			c.Close()
		}
		return
	}
	if finalized {
		d.fail("gc.collected-in-flight", "%s: state captured by the pending callback was finalised while the operation was in flight", kind)
	}
	if want == 2 {
		// the write completes at the first poll; the read stays in flight (the peer has not written yet): the object must
		// stay registered although one of its directions just completed
		for i := 0; i < 50 && completed < 1; i++ {
			_ = ioc.RunOneFor(2 * time.Millisecond)
		}
		if completed == 1 {
			if !ioc.VerifRegistered(fd) {
				d.fail("gc.unregistered-in-flight", "%s: one direction completed and the IO registry dropped the slot of descriptor %d while the other direction is still in flight", kind, fd)
				// without the registry the collector may free the object the kernel still points to: stop here
				_ = syscall.Close(fd)
				if c, ok := peer.(io.Closer); ok {
					c.Close()
				}
				return
			}
			for i := 0; i < 3; i++ {
				runtime.GC()
				time.Sleep(time.Millisecond)
			}
			if finalized {
				d.fail("gc.collected-in-flight", "%s: finalised while the read was still in flight", kind)
			}
		}
	}
	// let the peer act
	var extra []io.Closer
	switch p := peer.(type) {
	case net.Conn:
		_, _ = p.Write(payload)
		extra = append(extra, p)
		go func() { _, _ = io.Copy(io.Discard, p) }()
	case *net.UDPAddr:
		u, err := net.DialUDP("udp", nil, p)
		if err == nil {
			_, _ = u.Write(payload)
			extra = append(extra, u)
		}
	case *net.TCPAddr:
		c, err := net.DialTCP("tcp", nil, p)
		if err == nil {
			extra = append(extra, c)
		}
	}
	deadline := time.Now().Add(3 * time.Second)
	for completed < want && time.Now().Before(deadline) {
		runtime.GC()
		_ = ioc.RunOneFor(5 * time.Millisecond)
	}
	if completed < want {
		d.fail("gc.completion-lost", "%s: %d of %d completions arrived after the references were dropped and the collector ran", kind, completed, want)
		_ = syscall.Close(fd)
	}
	for _, c := range extra {
		c.Close()
	}
	time.Sleep(2 * time.Millisecond)
	if ioc.VerifRegistered(fd) {
		d.fail("gc.registered-after-completion", "%s: descriptor %d still registered after its operations completed and the object was closed", kind, fd)
	}
}

// fdsMirroredRemapTrial / fdsMmapChild: see fds_mmap.go.
var fdsMirroredRemapTrial = func(d *fdsDirectState) {}
