package main

// Component "mirrored": the real bytes.MirroredBuffer (C11).
//
// Script operations (trace answers in brackets):
//
//	new <req> <prefault 0|1>   [? page <pagesize>]  [< created <size> | < refused]
//	claim <n>                  [< view <off> <len>]   offsets relative to the first byte of Claim(1) on the fresh buffer
//	commit <n> | consume <n>   [< int <k>]
//	used | free | size         [< int <v>]
//	full                       [< bool <b>]
//	reset | prefault           [< unit]
//	write <seed>               [< unit]   stores byte(seed+i) at index i of the slice the last claim returned
//	read <off> <len>           [< bytes <hex>]   the bytes at virtual offsets [off, off+len) of the double mapping
//	destroy                    [< released <still mapped> <file still there>]   from /proc/self/maps and stat
//	label <text>               (no answer) the script leaves the property's domain (negative amounts): not monitored
//
// Without a buffer every operation answers "< nobuf"; a recovered panic answers "< panic".

import (
	"bufio"
	"encoding/hex"
	"fmt"
	"os"
	"os/exec"
	"path/filepath"
	"runtime"
	"runtime/debug"
	"strconv"
	"strings"
	"syscall"
	"time"
	"unsafe"

	sbytes "github.com/talostrading/sonic/bytes"
)

func init() {
	components["mirrored"] = &component{gen: mirGen, enum: mirEnum, run: mirRun, direct: mirDirect}
}

const maxInt = int(^uint(0) >> 1)

// ---- generator -------------------------------------------------------------------------------

// mirGen writes one script. It tracks what a correct ring would do (size, used, tail) only to aim
// the arguments at the boundaries; nothing in the check depends on that bookkeeping being right.
func mirGen(r *rng, maxops int, w *bufio.Writer) {
	page := syscall.Getpagesize()
	negative := r.intn(25) == 0
	if negative {
		fmt.Fprintf(w, "! label negative-amounts (outside C11: modelled, not monitored)\n")
	}
	var size, used, tail int
	alive := false
	newBuf := func() {
		var req int
		switch r.intn(20) {
		case 0, 1, 2:
			req = page
		case 3, 4:
			req = 2 * page
		case 5, 6, 7, 8:
			req = 3 * page
		case 9, 10, 11:
			req = 5 * page
		case 12:
			req = 8 * page
		case 13:
			req = r.pick(6, 7, 9, 12, 16) * page
		case 14:
			req = r.pick(1, 2, page-1, page/2)
		case 15:
			req = r.pick(page+1, 2*page-1, 2*page+1, 3*page-1)
		case 16:
			req = 2*page + 1 + r.intn(page-1) // rounds up to 3 pages
		case 17:
			req = 4*page + 1 + r.intn(page-1) // 5 pages
		case 18:
			req = r.pick(5*page+1, 6*page+1, 7*page-1)
		case 19:
			req = r.pick(0, -1, -page, -page-1, maxInt, maxInt-page+1, -maxInt-1, 1<<62)
		}
		fmt.Fprintf(w, "! new %d %d\n", req, r.intn(2))
		size = req
		if rem := req % page; rem > 0 {
			size = req + page - rem
		}
		alive = size > 0 && size < 1<<40
		used, tail = 0, 0
		if alive {
			fmt.Fprintf(w, "! size\n")
		}
	}
	newBuf()
	free := func() int { return size - used }
	amount := func(of int) int {
		// `of` is the natural bound (free for claim/commit, used for consume)
		var a int
		switch r.intn(16) {
		case 0:
			a = 0
		case 1:
			a = 1
		case 2, 3:
			a = of
		case 4:
			a = of + 1
		case 5:
			a = of - 1
		case 6:
			a = size
		case 7:
			a = size + r.pick(1, page, size)
		case 8:
			a = r.pick(1<<31, 1<<62, maxInt)
		case 9:
			a = page
		case 10:
			a = size - tail // up to the end of the ring
		case 11:
			a = size - tail + 1 + r.intn(page)
		case 12:
			a = r.intn(page + 1)
		default:
			a = r.intn(size + 1)
		}
		if a < 0 && !negative {
			a = 0
		}
		if negative && r.intn(4) == 0 {
			a = -r.pick(1, 2, page, size, size+1, a+1)
		}
		return a
	}
	clamp := func(a, of int) int {
		if a > of {
			return of
		}
		if a < 0 {
			return 0 // only a rough guess in the negative stream
		}
		return a
	}
	commit := func(a int) {
		fmt.Fprintf(w, "! commit %d\n", a)
		k := clamp(a, free())
		used += k
		tail = (tail + k) % size
	}
	consume := func(a int) {
		fmt.Fprintf(w, "! consume %d\n", a)
		used -= clamp(a, used)
	}
	read := func() {
		n := r.pick(1, 2, 8, 16, 32)
		var off int
		switch r.intn(8) {
		case 0:
			off = 0
		case 1:
			off = size - n/2 // straddles the end of the first mapping
		case 2:
			off = size
		case 3:
			off = 2*size - n
		case 4:
			off = tail
		case 5:
			off = tail + size - n
		case 6:
			off = (tail + size - n) % size // what was committed last
		default:
			off = r.intn(2*size - n + 1)
		}
		if off < 0 {
			off = 0
		}
		if off+n > 2*size {
			off = 2*size - n
		}
		if r.intn(40) == 0 {
			off = 2*size - n + 1 // outside: answered with no bytes
		}
		fmt.Fprintf(w, "! read %d %d\n", off, n)
	}
	n := 1 + r.intn(maxops)
	for i := 0; i < n; i++ {
		if !alive {
			// an operation without a buffer, then a new one
			if r.intn(2) == 0 {
				fmt.Fprintf(w, "! %s\n", []string{"claim 1", "commit 1", "consume 1", "used", "free", "full", "size", "reset", "write 1", "read 0 1", "prefault", "destroy"}[r.intn(12)])
			}
			newBuf()
			continue
		}
		switch r.intn(24) {
		case 0, 1, 2:
			fmt.Fprintf(w, "! claim %d\n", amount(free()))
		case 3, 4:
			commit(amount(free()))
		case 5, 6, 7:
			consume(amount(used))
		case 8, 9, 10, 11, 12:
			// the usual workflow: claim, write through the claim, commit what was granted or less, look
			a := amount(free())
			fmt.Fprintf(w, "! claim %d\n! write %d\n", a, r.intn(256))
			commit(r.pick(a, a, clamp(a, free()), clamp(a, free())/2+1))
			if r.intn(2) == 0 {
				read()
			}
		case 13:
			fmt.Fprintf(w, "! write %d\n", r.intn(256)) // through whatever was claimed last (possibly stale)
		case 14, 15, 16:
			read()
		case 17:
			fmt.Fprintf(w, "! used\n! free\n")
		case 18:
			fmt.Fprintf(w, "! full\n")
		case 19:
			fmt.Fprintf(w, "! free\n")
		case 20:
			// fill up, then drain a little: the next claim must cross the end of the ring sooner or later
			commit(free())
			fmt.Fprintf(w, "! full\n")
			consume(r.pick(1, page, page+1, used/2+1))
		case 21:
			if r.intn(4) == 0 {
				fmt.Fprintf(w, "! reset\n")
				used, tail = 0, 0
			} else {
				fmt.Fprintf(w, "! used\n")
			}
		case 22:
			if r.intn(6) == 0 {
				fmt.Fprintf(w, "! prefault\n")
			} else {
				fmt.Fprintf(w, "! size\n")
			}
		case 23:
			if r.intn(6) == 0 {
				fmt.Fprintf(w, "! destroy\n")
				alive = false
			} else {
				fmt.Fprintf(w, "! claim %d\n", amount(free()))
			}
		}
	}
	if alive {
		fmt.Fprintf(w, "! claim %d\n! used\n! free\n! full\n! destroy\n", size)
	}
}

// enum <pages> <depth>: every sequence of <depth> commit/consume operations over a boundary set of
// amounts on a buffer of <pages> pages; after each one the whole free space is claimed (which shows
// where the ring position is) and used/free/full are read.
func mirEnum(args []string, w *bufio.Writer) {
	page := syscall.Getpagesize()
	pages, depth := atoi(args[0]), atoi(args[1])
	size := pages * page
	var alphabet []string
	for _, a := range []int{1, page, size - 1, size} {
		alphabet = append(alphabet, fmt.Sprintf("commit %d", a))
	}
	for _, a := range []int{1, page, size} {
		alphabet = append(alphabet, fmt.Sprintf("consume %d", a))
	}
	alphabet = dedup(alphabet)
	k := 0
	var rec func(prefix []string)
	rec = func(prefix []string) {
		if len(prefix) == depth {
			fmt.Fprintf(w, "# script %d\n! new %d 0\n", k, size)
			for i, op := range prefix {
				fmt.Fprintf(w, "! %s\n! claim %d\n! used\n! free\n! full\n", op, size)
				if i == len(prefix)-1 {
					fmt.Fprintf(w, "! write %d\n! commit %d\n! read 0 16\n! read %d 16\n! read %d 16\n", 7+len(prefix), size, size-8, 2*size-16)
				}
			}
			fmt.Fprintf(w, "! destroy\n")
			k++
			return
		}
		for _, op := range alphabet {
			rec(append(prefix[:len(prefix):len(prefix)], op))
		}
	}
	rec(nil)
}

// ---- executor --------------------------------------------------------------------------------

type mirBuf struct {
	b     *sbytes.MirroredBuffer
	whole []byte  // the double mapping: Claim(1) of the fresh buffer extended to its capacity
	base  uintptr // address of the first byte of Claim(1) on the fresh buffer
	last  []byte  // what the last Claim returned
}

func (m *mirBuf) drop() {
	if m.b != nil {
		_ = m.b.Destroy()
	}
	*m = mirBuf{}
}

// mapsMention reports whether /proc/self/maps still lists a mapping of the named file.
func mapsMention(name string) bool {
	data, err := os.ReadFile("/proc/self/maps")
	if err != nil {
		return true // cannot tell: count it as a failure rather than hide it
	}
	return strings.Contains(string(data), name)
}

func fileExists(name string) bool {
	_, err := os.Lstat(name)
	return err == nil
}

func mirRun(script []string, w *bufio.Writer) {
	var m mirBuf
	defer m.drop()
	for _, line := range script {
		f := strings.Fields(line)
		fmt.Fprintf(w, "! %s\n", line)
		if f[0] == "label" {
			continue
		}
		if f[0] == "new" {
			m.drop()
			fmt.Fprintf(w, "? page %d\n", syscall.Getpagesize())
			out := "refused"
			p := guard(func() {
				b, err := sbytes.NewMirroredBuffer(atoi(f[1]), len(f) > 2 && f[2] == "1")
				if err != nil || b == nil {
					return
				}
				m.b = b
				first := b.Claim(1)
				if len(first) == 1 {
					m.base = uintptr(unsafe.Pointer(&first[0]))
					m.whole = first[:cap(first)]
				}
				out = fmt.Sprintf("created %d", b.Size())
			})
			if p {
				out = "panic"
			}
			fmt.Fprintf(w, "< %s\n", out)
			continue
		}
		if m.b == nil {
			fmt.Fprintf(w, "< nobuf\n")
			continue
		}
		b := m.b
		var out string
		p := guard(func() {
			switch f[0] {
			case "claim":
				s := b.Claim(atoi(f[1]))
				m.last = s
				if len(s) == 0 {
					out = "view 0 0"
				} else {
					out = fmt.Sprintf("view %d %d", int64(uintptr(unsafe.Pointer(&s[0]))-m.base), len(s))
				}
			case "commit":
				out = fmt.Sprintf("int %d", b.Commit(atoi(f[1])))
			case "consume":
				out = fmt.Sprintf("int %d", b.Consume(atoi(f[1])))
			case "used":
				out = fmt.Sprintf("int %d", b.UsedSpace())
			case "free":
				out = fmt.Sprintf("int %d", b.FreeSpace())
			case "size":
				out = fmt.Sprintf("int %d", b.Size())
			case "full":
				out = fmt.Sprintf("bool %v", b.Full())
			case "reset":
				b.Reset()
				out = "unit"
			case "prefault":
				b.Prefault()
				out = "unit"
			case "write":
				seed := atoi(f[1])
				for i := range m.last {
					m.last[i] = byte(seed + i)
				}
				out = "unit"
			case "read":
				off, n := atoi(f[1]), atoi(f[2])
				lim := 2 * b.Size()
				if len(m.whole) < lim {
					lim = len(m.whole)
				}
				if off < 0 || n <= 0 || off+n > lim || off+n < off {
					out = "bytes -"
				} else {
					out = "bytes " + hex.EncodeToString(m.whole[off:off+n])
				}
			case "destroy":
				name := b.Name()
				_ = b.Destroy()
				out = fmt.Sprintf("released %v %v", mapsMention(name), fileExists(name))
				// the slices into the (former) mapping must not be touched again
				m.b, m.whole, m.last, m.base = nil, nil, nil, 0
			default:
				panic("bad op " + f[0])
			}
		})
		if p {
			out = "panic"
		}
		fmt.Fprintf(w, "< %s\n", out)
	}
}

// ---- direct mode: what no model can exhibit ------------------------------------------------------

// mapping is one line of /proc/self/maps that names a mirrored-buffer file.
type mapping struct {
	lo, hi uint64
	path   string
}

func namedMappings(substr string) []mapping {
	data, _ := os.ReadFile("/proc/self/maps")
	var out []mapping
	for _, line := range strings.Split(string(data), "\n") {
		if !strings.Contains(line, substr) {
			continue
		}
		f := strings.Fields(line)
		if len(f) < 6 {
			continue
		}
		ab := strings.SplitN(f[0], "-", 2)
		lo, _ := strconv.ParseUint(ab[0], 16, 64)
		hi, _ := strconv.ParseUint(ab[1], 16, 64)
		out = append(out, mapping{lo, hi, strings.Join(f[5:], " ")})
	}
	return out
}

// mirOrphanClaim creates a buffer, takes a claim and returns without the handle (go:noinline: no reference survives in a register
// or stack slot of the caller).
//
//go:noinline
func mirOrphanClaim(page int) (claim []byte, base uintptr, size int) {
	b, err := sbytes.NewMirroredBuffer(2*page, false)
	if err != nil || b == nil {
		return nil, 0, 0
	}
	c := b.Claim(page + 17)
	if len(c) != page+17 {
		_ = b.Destroy()
		return nil, 0, 0
	}
	return c, uintptr(unsafe.Pointer(&c[0])), b.Size()
}

// namedMappingsAt: is [base, base+n) still mapped (per /proc/self/maps)?
func namedMappingsAt(base uintptr, n int) bool {
	data, err := os.ReadFile("/proc/self/maps")
	if err != nil {
		return false
	}
	for _, line := range strings.Split(string(data), "\n") {
		var lo, hi uint64
		if _, err := fmt.Sscanf(line, "%x-%x", &lo, &hi); err == nil && lo <= uint64(base) && uint64(base) < hi {
			return true
		}
	}
	return false
}

func maxInt0(a int) int {
	if a < 0 {
		return 0
	}
	return a
}

func mirDirect(seed uint64, tier string, args []string, w *bufio.Writer) {
	page := syscall.Getpagesize()
	fails := 0
	fail := func(key, format string, a ...any) {
		fails++
		if fails <= 20 {
			fmt.Fprintf(w, "DIRECT-FAIL key=mirrored.%s %s\n", key, fmt.Sprintf(format, a...))
		}
	}
	r := newRng(seed*7919 + 11)
	reqs := []int{page, 2 * page, 3 * page, 5 * page, 8 * page, 1, page - 1, page + 1, 2*page + 1, 5*page - 1, 7 * page,
		// sizes above 1 MiB that are no multiple of it (where an allocator that works in huge-page units would round)
		1<<20 + page, 1500000}
	cycles := 150
	if tier == "thorough" {
		cycles = 2000
		reqs = append(reqs, 6*page, 9*page, 12*page, 16*page, 33*page+5)
	}
	created, probes := 0, 0
	var names []string
	one := func(req int, sweep bool) {
		b, err := sbytes.NewMirroredBuffer(req, r.intn(2) == 0)
		if err != nil || b == nil {
			fail("direct.new-refused", "NewMirroredBuffer(%d) failed: %v", req, err)
			return
		}
		created++
		size := b.Size()
		name := b.Name()
		names = append(names, name)
		want := (req + page - 1) / page * page
		if size != want {
			fail("direct.size", "NewMirroredBuffer(%d).Size() = %d, want %d", req, size, want)
		}
		first := b.Claim(1)
		if len(first) != 1 || cap(first) != 2*size {
			fail("direct.first-claim", "fresh buffer of size %d: Claim(1) has len %d cap %d, want 1 and %d", size, len(first), cap(first), 2*size)
			_ = b.Destroy()
			return
		}
		whole := first[:cap(first)]
		base := uint64(uintptr(unsafe.Pointer(&whole[0])))
		// the two mappings: same file, adjacent, `size` bytes each
		ms := namedMappings(filepath.Base(name))
		var total uint64
		for _, x := range ms {
			total += x.hi - x.lo
		}
		if len(ms) == 0 || ms[0].lo != base || ms[len(ms)-1].hi != base+uint64(2*size) || total != uint64(2*size) {
			fail("direct.maps-layout", "size %d: /proc/self/maps lists %v for %s, want [%x,%x) in two adjacent halves", size, ms, name, base, base+uint64(2*size))
		}
		// aliasing: a byte stored at virtual i is seen at i+size and the other way round
		step := 1
		if !sweep {
			step = 1 + r.intn(97)
		}
		for i := r.intn(step); i < size; i += step {
			v := byte(r.next())
			whole[i] = v
			if whole[i+size] != v {
				fail("direct.alias", "size %d: byte stored at offset %d is not seen at offset %d", size, i, i+size)
				break
			}
			whole[i+size] = v ^ 0x5a
			if whole[i] != v^0x5a {
				fail("direct.alias", "size %d: byte stored at offset %d is not seen at offset %d", size, i+size, i)
				break
			}
			probes++
		}
		if b.UsedSpace()+b.FreeSpace() != size || b.FreeSpace() != size {
			fail("direct.accounting", "size %d: fresh buffer reports used %d + free %d", size, b.UsedSpace(), b.FreeSpace())
		}
		if c := b.Claim(size + 1); len(c) > size {
			fail("direct.accounting", "size %d: Claim(size+1) on the empty buffer grants %d bytes", size, len(c))
		}
		// a claim that crosses the end of the ring is the same memory as the start of the ring
		if size >= 2 {
			b.Commit(size - 1)
			b.Consume(size - 1)
			c := b.Claim(size)
			if len(c) == size {
				c[0], c[1], c[size-1] = 0xa1, 0xb2, 0xc3
				if whole[size-1] != 0xa1 || whole[0] != 0xb2 || whole[size-2] != 0xc3 {
					fail("direct.alias", "size %d: a claim crossing the end is not the memory at the start of the ring", size)
				}
				probes++
			} else {
				fail("direct.cross-claim", "size %d: empty buffer at ring position size-1 grants %d of %d bytes", size, len(c), size)
			}
		}
		if err := b.Destroy(); err != nil {
			fail("direct.destroy-error", "Destroy: %v", err)
		}
		if left := namedMappings(filepath.Base(name)); len(left) != 0 {
			fail("direct.mapping-leaked", "after Destroy /proc/self/maps still lists %v", left)
		}
		if fileExists(name) {
			fail("direct.file-leaked", "after Destroy the backing file %s still exists", name)
		}
		if err := b.Destroy(); err != nil { // idempotent
			fail("direct.destroy-twice", "second Destroy: %v", err)
		}
	}
	if os.Getenv("VERIF_MIRRORED_NOSHM") == "1" {
		// child in a private mount namespace without /dev/shm: the constructor's fallback directory; same checks, a few sizes
		if _, err := os.Stat("/dev/shm"); err == nil {
			return // the namespace was not what the parent asked for: no verdict
		}
		fmt.Fprintln(w, "NOSHM-RAN")
		for _, req := range []int{page, 3 * page, 5*page - 1, 1<<20 + page} {
			one(req, true)
		}
		fmt.Fprintf(w, "DIRECT-STAT {\"mirrored_without_dev_shm_buffers\": %d}\n", created)
		return
	}
	for _, req := range reqs {
		one(req, true)
	}
	for i := 0; i < cycles; i++ {
		one(reqs[r.intn(len(reqs))]+r.pick(0, 0, 0, 1, 17), false)
	}
	// a Destroy repeated later must not touch a buffer created in between (which the kernel usually places at the address
	// the destroyed one had)
	for i := 0; i < 20; i++ {
		req := reqs[r.intn(len(reqs))]
		x, err := sbytes.NewMirroredBuffer(req, false)
		if err != nil || x == nil {
			continue
		}
		names = append(names, x.Name())
		_ = x.Destroy()
		y, err := sbytes.NewMirroredBuffer(req, r.intn(2) == 0)
		if err != nil || y == nil {
			continue
		}
		created += 2
		names = append(names, y.Name())
		_ = x.Destroy()
		if got := namedMappings(filepath.Base(y.Name())); len(got) == 0 {
			fail("direct.destroy-twice", "size %d: a second Destroy of a destroyed buffer removed the mappings of a buffer created in between", y.Size())
			_ = y.Destroy()
			break
		}
		c := y.Claim(1)
		if len(c) == 1 {
			c[0] = 0x5c // faults if the mapping is gone
		}
		if err := y.Destroy(); err != nil {
			fail("direct.destroy-error", "Destroy of the buffer created in between: %v", err)
		}
		if left := namedMappings(filepath.Base(y.Name())); len(left) != 0 {
			fail("direct.mapping-leaked", "after Destroy /proc/self/maps still lists %v", left)
		}
	}
	// rings whose positions do not fit in 31 / 32 bits: the position arithmetic is followed through the address of each claim.
	// No page of these buffers is touched (nothing is stored), so they cost address space only; where the mapping is refused
	// (address-space or overcommit limits) the trial is skipped.
	hugeTried, hugeSteps := 0, 0
	for _, size := range []int{3 << 30, 2<<30 + page, 4<<30 - page, 4<<30 + 3*page} {
		if uint64(size) > uint64(maxInt)/4 {
			continue
		}
		b, err := sbytes.NewMirroredBuffer(size, false)
		if err != nil || b == nil {
			continue
		}
		hugeTried++
		names = append(names, b.Name())
		first := b.Claim(1)
		if len(first) != 1 || b.Size() != size {
			fail("direct.huge-ring", "NewMirroredBuffer(%d): Size() %d, Claim(1) has len %d", size, b.Size(), len(first))
			_ = b.Destroy()
			continue
		}
		base := uintptr(unsafe.Pointer(&first[0]))
		head, tail, used := 0, 0, 0
		steps := 400
		if tier == "thorough" {
			steps = 20000
		}
		bad := false
		for i := 0; i < steps && !bad; i++ {
			hugeSteps++
			big := func() int {
				switch r.intn(5) {
				case 0:
					return size
				case 1:
					return size/2 + r.intn(page)
				case 2:
					return 1<<31 + r.intn(3) - 1
				case 3:
					return r.intn(size)
				}
				return r.intn(3 * page)
			}
			n := big()
			c := b.Claim(n)
			wantLen := n
			if wantLen > size-used {
				wantLen = size - used
			}
			if len(c) != wantLen {
				fail("direct.huge-ring", "size %d head %d tail %d used %d: Claim(%d) has len %d, want %d", size, head, tail, used, n, len(c), wantLen)
				bad = true
				break
			}
			if len(c) > 0 {
				if off := int(uintptr(unsafe.Pointer(&c[0])) - base); off != tail {
					fail("direct.huge-ring", "size %d head %d tail %d used %d: Claim(%d) starts at ring offset %d, want %d (it overlaps queued bytes or skips free ones)", size, head, tail, used, n, off, tail)
					bad = true
					break
				}
			}
			k := wantLen
			if r.intn(3) == 0 && k > 0 {
				k = r.intn(k + 1)
			}
			if got := b.Commit(k); got != k {
				fail("direct.huge-ring", "size %d head %d tail %d used %d: Commit(%d) = %d", size, head, tail, used, k, got)
				bad = true
				break
			}
			used += k
			tail = (tail + k) % size
			m := big()
			wantM := m
			if wantM > used {
				wantM = used
			}
			if got := b.Consume(m); got != wantM {
				fail("direct.huge-ring", "size %d head %d tail %d used %d: Consume(%d) = %d, want %d", size, head, tail, used, m, got, wantM)
				bad = true
				break
			}
			used -= wantM
			head = (head + wantM) % size
			if b.UsedSpace() != used || b.FreeSpace() != size-used || b.Full() != (used == size) {
				fail("direct.huge-ring", "size %d head %d tail %d: UsedSpace %d FreeSpace %d Full %v, want %d %d %v", size, head, tail, b.UsedSpace(), b.FreeSpace(), b.Full(), used, size-used, used == size)
				bad = true
			}
		}
		if err := b.Destroy(); err != nil {
			fail("direct.destroy-error", "Destroy: %v", err)
		}
	}
	// the same checks where /dev/shm does not exist (minimal containers): the constructor falls back to the temporary directory; a
	// child of this process in a private user + mount namespace with an empty tmpfs over /dev
	if self, err := os.Executable(); err == nil {
		cmd := exec.Command("unshare", "-rm", "sh", "-c", "mount -t tmpfs none /dev && VERIF_MIRRORED_NOSHM=1 exec \"$0\" mirrored direct "+fmt.Sprint(seed)+" "+tier, self)
		out, _ := cmd.CombinedOutput()
		text := string(out)
		if strings.Contains(text, "NOSHM-RAN") {
			for _, line := range strings.Split(text, "\n") {
				if strings.HasPrefix(line, "DIRECT-FAIL") {
					fails++
					fmt.Fprintln(w, strings.Replace(line, "key=mirrored.direct.", "key=mirrored.direct.no-dev-shm.", 1))
				} else if strings.HasPrefix(line, "DIRECT-STAT") {
					fmt.Fprintln(w, line)
				}
			}
			if !strings.Contains(text, "DIRECT-STAT") {
				fail("direct.no-dev-shm.crash", "the child without /dev/shm ended without a result: %s", strings.ReplaceAll(text[maxInt0(len(text)-300):], "\n", " | "))
			}
		} else {
			fmt.Fprintf(w, "DIRECT-STAT {\"mirrored_without_dev_shm\": \"skipped (no private mount namespace here)\"}\n")
		}
	}
	// a claim that outlives the handle: claims point into mmap'ed memory the collector does not trace; nothing may unmap it behind
	// a claim the application still holds, also when the *MirroredBuffer itself has become unreachable and collections have run
	func() {
		claim, base, size := mirOrphanClaim(page)
		if claim == nil {
			return
		}
		for i := 0; i < 4; i++ {
			runtime.GC()
			time.Sleep(5 * time.Millisecond)
		}
		old := debug.SetPanicOnFault(true)
		func() {
			defer func() {
				if p := recover(); p != nil {
					fail("direct.claim-unmapped", "a claim of %d bytes was held, the buffer's handle dropped and the collector run: the claim's memory is gone (%v)", len(claim), p)
				}
			}()
			claim[0], claim[len(claim)-1] = 0x11, 0x22
			if claim[0] != 0x11 || claim[len(claim)-1] != 0x22 {
				fail("direct.claim-unmapped", "a claim held after its handle was dropped no longer keeps what is stored in it")
			}
		}()
		debug.SetPanicOnFault(old)
		// (no handle left to Destroy: the two halves are unmapped by hand; the backing file was removed by the constructor)
		if left := namedMappingsAt(base, 2*size); left {
			_ = syscall.Munmap(unsafe.Slice((*byte)(unsafe.Pointer(base)), 2*size))
		}
	}()
	// requests the constructor must reject leave nothing behind
	for _, req := range []int{0, -1, -page, maxInt, -maxInt - 1} {
		b, err := sbytes.NewMirroredBuffer(req, false)
		if err == nil || b != nil {
			fail("direct.bad-size-accepted", "NewMirroredBuffer(%d) did not fail", req)
			if b != nil {
				_ = b.Destroy()
			}
		}
	}
	if left := namedMappings("sonic-mirrored-buffer-"); len(left) != 0 {
		fail("direct.mapping-leaked", "%d mirrored-buffer mappings left in /proc/self/maps after all buffers were destroyed: %v", len(left), left[0])
	}
	leakedFiles := 0
	for _, n := range names {
		if fileExists(n) {
			leakedFiles++
		}
	}
	if leakedFiles != 0 {
		fail("direct.file-leaked", "%d backing files left behind", leakedFiles)
	}
	fmt.Fprintf(w, "DIRECT-STAT {\"mirrored_buffers_created_and_destroyed\": %d, \"mirrored_alias_probes\": %d, \"mirrored_huge_rings\": %d, \"mirrored_huge_ring_steps\": %d, \"mirrored_direct_failures\": %d}\n", created, probes, hugeTried, hugeSteps, fails)
}
