package main

import (
	"bufio"
	"fmt"
	"reflect"
	"strings"
	"unsafe"

	"github.com/talostrading/sonic"
)

func init() {
	components["bip"] = &component{gen: bipGen, enum: bipEnum, run: bipRun}
}

// Script: "new <size>" then any of claim n | commit n | head | consume n | committed | reset.
func bipGen(r *rng, maxops int, w *bufio.Writer) {
	size := r.pick(0, 1, 2, 3, 4, 5, 7, 8, 8, 16, 16, 64, 1000)
	fmt.Fprintf(w, "! new %d\n", size)
	n := 1 + r.intn(maxops)
	arg := func() int {
		switch r.intn(10) {
		case 0:
			return 0
		case 1:
			return size
		case 2:
			return size + 1 + r.intn(3)
		case 3:
			return r.pick(1<<31, 1<<62, 9223372036854775807)
		default:
			return r.intn(size/2 + 2)
		}
	}
	for i := 0; i < n; i++ {
		switch r.intn(12) {
		case 0, 1, 2:
			fmt.Fprintf(w, "! claim %d\n", arg())
		case 3, 4, 5:
			fmt.Fprintf(w, "! commit %d\n", arg())
		case 6, 7:
			fmt.Fprintf(w, "! consume %d\n", arg())
		case 8:
			fmt.Fprintf(w, "! head\n")
		case 9:
			fmt.Fprintf(w, "! committed\n")
		case 10:
			// the usual workflow: claim, commit what was granted (or less)
			a := arg()
			fmt.Fprintf(w, "! claim %d\n! commit %d\n", a, r.pick(a, a, a/2+1))
		case 11:
			if r.intn(8) == 0 {
				fmt.Fprintf(w, "! reset\n")
			} else {
				fmt.Fprintf(w, "! head\n! consume %d\n", arg())
			}
		}
	}
	fmt.Fprintf(w, "! head\n! committed\n")
}

// enum <size> <len>: every sequence of <len> operations over a small argument set.
func bipEnum(args []string, w *bufio.Writer) {
	size, depth := atoi(args[0]), atoi(args[1])
	var alphabet []string
	for _, a := range []int{0, 1, size / 2, size} {
		alphabet = append(alphabet, fmt.Sprintf("claim %d", a), fmt.Sprintf("commit %d", a), fmt.Sprintf("consume %d", a))
	}
	alphabet = dedup(alphabet)
	k := 0
	var rec func(prefix []string)
	rec = func(prefix []string) {
		if len(prefix) == depth {
			fmt.Fprintf(w, "# script %d\n! new %d\n", k, size)
			for _, op := range prefix {
				fmt.Fprintf(w, "! %s\n! head\n! committed\n", op)
			}
			fmt.Fprintf(w, "! claim %d\n", size)
			k++
			return
		}
		for _, op := range alphabet {
			rec(append(prefix, op))
		}
	}
	rec(nil)
}

func dedup(xs []string) []string {
	seen := map[string]bool{}
	var out []string
	for _, x := range xs {
		if !seen[x] {
			seen[x] = true
			out = append(out, x)
		}
	}
	return out
}

func bipRun(script []string, w *bufio.Writer) {
	var b *sonic.BipBuffer
	var base uintptr
	view := func(s []byte) string {
		if len(s) == 0 {
			return "view 0 0"
		}
		return fmt.Sprintf("view %d %d", uintptr(unsafe.Pointer(&s[0]))-base, len(s))
	}
	for _, line := range script {
		f := strings.Fields(line)
		fmt.Fprintf(w, "! %s\n", line)
		var out string
		p := guard(func() {
			switch f[0] {
			case "new":
				b = sonic.NewBipBuffer(atoi(f[1]))
				base = bipBase(b)
				out = "unit"
			case "claim":
				out = view(b.Claim(atoi(f[1])))
			case "commit":
				out = view(b.Commit(atoi(f[1])))
			case "head":
				out = view(b.Head())
			case "consume":
				b.Consume(atoi(f[1]))
				out = "unit"
			case "committed":
				out = fmt.Sprintf("int %d", b.Committed())
			case "reset":
				b.Reset()
				out = "unit"
			default:
				panic("bad op " + f[0])
			}
		})
		if p {
			out = "panic"
		}
		fmt.Fprintf(w, "< %s\n", out)
	}
}

// bipBase returns the address of the first byte of the buffer's backing array.
func bipBase(b *sonic.BipBuffer) uintptr {
	if b.Size() == 0 {
		return 0
	}
	v := reflect.ValueOf(b).Elem()
	for i := 0; i < v.NumField(); i++ {
		f := v.Field(i)
		if f.Kind() == reflect.Slice && f.Type().Elem().Kind() == reflect.Uint8 && f.Len() == b.Size() {
			return f.Pointer()
		}
	}
	// fall back: a fresh buffer grants its whole memory; Commit(0) drops the claim again
	s := b.Claim(b.Size())
	b.Commit(0)
	return uintptr(unsafe.Pointer(&s[0]))
}
