package main

import (
	"bufio"
	"fmt"
	"reflect"
	"runtime/debug"
	"strings"
	"unsafe"

	"github.com/talostrading/sonic"
)

func init() {
	components["bip"] = &component{gen: bipGen, enum: bipEnum, run: bipRun, direct: bipDirect}
}

// Script: "new <size>" then any of claim n | commit n | head | consume n | committed | reset.
func bipGen(r *rng, maxops int, w *bufio.Writer) {
	size := r.pick(0, 1, 2, 3, 4, 5, 7, 8, 8, 16, 16, 64, 1000)
	fmt.Fprintf(w, "! new %d\n", size)
	n := 1 + r.intn(maxops)
	arg := func() int {
		switch r.intn(10) {
		case 0:
			return 0
		case 1:
			return size
		case 2:
			return size + 1 + r.intn(3)
		case 3:
			return r.pick(1<<31, 1<<62, 9223372036854775807)
		default:
			return r.intn(size/2 + 2)
		}
	}
	for i := 0; i < n; i++ {
		switch r.intn(12) {
		case 0, 1, 2:
			fmt.Fprintf(w, "! claim %d\n", arg())
		case 3, 4, 5:
			fmt.Fprintf(w, "! commit %d\n", arg())
		case 6, 7:
			fmt.Fprintf(w, "! consume %d\n", arg())
		case 8:
			fmt.Fprintf(w, "! head\n")
		case 9:
			fmt.Fprintf(w, "! committed\n")
		case 10:
			// the usual workflow: claim, commit what was granted (or less)
			a := arg()
			fmt.Fprintf(w, "! claim %d\n! commit %d\n", a, r.pick(a, a, a/2+1))
		case 11:
			if r.intn(8) == 0 {
				fmt.Fprintf(w, "! reset\n")
			} else {
				fmt.Fprintf(w, "! head\n! consume %d\n", arg())
			}
		}
	}
	fmt.Fprintf(w, "! head\n! committed\n")
}

// enum <size> <len>: every sequence of <len> operations over a small argument set.
func bipEnum(args []string, w *bufio.Writer) {
	if args[0] == "huge" {
		bipHuge(atoi(args[1]), w)
		return
	}
	size, depth := atoi(args[0]), atoi(args[1])
	var alphabet []string
	for _, a := range []int{0, 1, size / 2, size} {
		alphabet = append(alphabet, fmt.Sprintf("claim %d", a), fmt.Sprintf("commit %d", a), fmt.Sprintf("consume %d", a))
	}
	alphabet = dedup(alphabet)
	k := 0
	var rec func(prefix []string)
	rec = func(prefix []string) {
		if len(prefix) == depth {
			fmt.Fprintf(w, "# script %d\n! new %d\n", k, size)
			for _, op := range prefix {
				fmt.Fprintf(w, "! %s\n! head\n! committed\n", op)
			}
			fmt.Fprintf(w, "! claim %d\n", size)
			k++
			return
		}
		for _, op := range alphabet {
			rec(append(prefix, op))
		}
	}
	rec(nil)
}

// enum huge <k>: two buffers whose offsets need more than 31 and more than 32 bits (2 GiB + 4 KiB, 4 GiB + 4 KiB), one script
// each. The trace carries offsets and lengths only and no byte of the buffers is ever stored to, so they cost address space, not
// memory (smaller one first: a block the Go runtime recycles would be cleared, which makes it resident); with less than 12 GiB
// available no script is produced. Per buffer: the "two chunks around the 2^31 / 2^32 offset, a third above it, consume, claim
// everything" workflow, then <k> pseudo-random segments over arguments at the boundaries, most of them begun with Reset.
func bipHuge(k int, w *bufio.Writer) {
	if avail := memAvailableKiB(); avail < 12<<20 || ^uint(0)>>63 == 0 {
		return
	}
	for idx, size := range []int{1<<31 + 4096, 1<<32 + 4096} {
		edge := size - 4096
		first := edge - 8
		fmt.Fprintf(w, "# script %d\n! new %d\n! claim %d\n! commit 0\n! claim %d\n! commit %d\n! claim 64\n! commit 64\n! committed\n! head\n", idx, size, size, first, first)
		fmt.Fprintf(w, "! claim 33\n! commit 33\n! consume %d\n! head\n! claim %d\n! commit %d\n! head\n! consume 97\n! head\n! committed\n! consume %d\n! claim %d\n! commit 0\n", first, first-100, first-100, size, size)
		r := newRng(uint64(size)*31 + 7)
		arg := func() int {
			return r.pick(size, size-8, edge-8, edge, edge+1, 1<<31, 1<<31-1, 64, 33, 4096, size/2, size/2+1, 0, 1, size-edge, r.intn(size))
		}
		for j := 0; j < k; j++ {
			if r.intn(4) != 0 {
				fmt.Fprintf(w, "! reset\n")
			}
			for i := 0; i < 12; i++ {
				switch r.intn(8) {
				case 0, 1, 2:
					a := arg()
					fmt.Fprintf(w, "! claim %d\n! commit %d\n", a, r.pick(a, a, a/2+1, arg()))
				case 3:
					fmt.Fprintf(w, "! claim %d\n", arg())
				case 4, 5:
					fmt.Fprintf(w, "! head\n! consume %d\n", arg())
				case 6:
					fmt.Fprintf(w, "! committed\n! head\n")
				default:
					fmt.Fprintf(w, "! commit %d\n", arg())
				}
			}
			fmt.Fprintf(w, "! head\n! committed\n")
		}
	}
}

func dedup(xs []string) []string {
	seen := map[string]bool{}
	var out []string
	for _, x := range xs {
		if !seen[x] {
			seen[x] = true
			out = append(out, x)
		}
	}
	return out
}

func bipRun(script []string, w *bufio.Writer) {
	var b *sonic.BipBuffer
	var base uintptr
	view := func(s []byte) string {
		if len(s) == 0 {
			return "view 0 0"
		}
		return fmt.Sprintf("view %d %d", uintptr(unsafe.Pointer(&s[0]))-base, len(s))
	}
	for _, line := range script {
		f := strings.Fields(line)
		fmt.Fprintf(w, "! %s\n", line)
		var out string
		p := guard(func() {
			switch f[0] {
			case "new":
				if b != nil && b.Size() > 1<<30 {
					b = nil
					debug.FreeOSMemory() // the previous huge buffer goes back to the system before the next one is made
				}
				b = sonic.NewBipBuffer(atoi(f[1]))
				base = bipBase(b)
				out = "unit"
			case "claim":
				out = view(b.Claim(atoi(f[1])))
			case "commit":
				out = view(b.Commit(atoi(f[1])))
			case "head":
				out = view(b.Head())
			case "consume":
				b.Consume(atoi(f[1]))
				out = "unit"
			case "committed":
				out = fmt.Sprintf("int %d", b.Committed())
			case "reset":
				b.Reset()
				out = "unit"
			default:
				panic("bad op " + f[0])
			}
		})
		if p {
			out = "panic"
		}
		fmt.Fprintf(w, "< %s\n", out)
	}
}

// bipBase returns the address of the first byte of the buffer's backing array.
func bipBase(b *sonic.BipBuffer) uintptr {
	if b.Size() == 0 {
		return 0
	}
	v := reflect.ValueOf(b).Elem()
	for i := 0; i < v.NumField(); i++ {
		f := v.Field(i)
		if f.Kind() == reflect.Slice && f.Type().Elem().Kind() == reflect.Uint8 && f.Len() == b.Size() {
			return f.Pointer()
		}
	}
	// fall back: a fresh buffer grants its whole memory; Commit(0) drops the claim again
	s := b.Claim(b.Size())
	b.Commit(0)
	return uintptr(unsafe.Pointer(&s[0]))
}

// ---- direct monitor: the byte-queue monitor of Spec/Bip.lean over intervals, for buffers too large for its cell list -------

type bipIv struct{ lo, n int }

// bipDirect replays the `enum huge` scripts against an interval form of the C10 monitor (Sonic.Spec.Bip keeps one list entry per
// queued cell, which a 4 GiB buffer does not allow): the queue of committed, unconsumed cells is a list of (offset, length)
// chunks, oldest first; the checks are those of Spec.Bip.step, clause by clause.
func bipDirect(seed uint64, tier string, args []string, w *bufio.Writer) {
	k := 40
	if tier == "thorough" {
		k = 4000
	}
	var sb strings.Builder
	bw := bufio.NewWriter(&sb)
	bipHuge(k, bw)
	bw.Flush()
	fails, ops, scripts := 0, 0, 0
	fail := func(format string, a ...any) {
		fails++
		if fails <= 5 {
			fmt.Fprintf(w, "DIRECT-FAIL key=bip.direct.huge-buffer %s\n", fmt.Sprintf(format, a...))
		}
	}
	var b *sonic.BipBuffer
	var base uintptr
	var size, cLo, cLen int
	var q []bipIv
	var hist []string
	view := func(s []byte) (int, int) {
		if len(s) == 0 {
			return 0, 0
		}
		return int(uintptr(unsafe.Pointer(&s[0])) - base), len(s)
	}
	runLen := func() int {
		if len(q) == 0 {
			return 0
		}
		n, end := q[0].n, q[0].lo+q[0].n
		for _, iv := range q[1:] {
			if iv.lo != end {
				break
			}
			n, end = n+iv.n, end+iv.n
		}
		return n
	}
	dead := false
	for _, line := range strings.Split(sb.String(), "\n") {
		if !strings.HasPrefix(line, "! ") {
			if strings.HasPrefix(line, "# script") {
				dead = false
			}
			continue
		}
		if dead {
			continue
		}
		f := strings.Fields(line[2:])
		hist = append(hist, line[2:])
		if len(hist) > 12 {
			hist = hist[len(hist)-12:]
		}
		bad := func(format string, a ...any) {
			fail("buffer of %d bytes, queue %v, claim (%d,%d): %s; last calls: %v", size, q, cLo, cLen, fmt.Sprintf(format, a...), hist)
			dead = true
		}
		if guard(func() {
			ops++
			switch f[0] {
			case "new":
				scripts++
				size = atoi(f[1])
				b = sonic.NewBipBuffer(size)
				base = bipBase(b)
				q, cLo, cLen, hist = nil, 0, 0, hist[:0]
			case "claim":
				n := atoi(f[1])
				lo, ln := view(b.Claim(n))
				want := -1
				if len(q) == 0 {
					want = minInt(n, size)
				}
				switch {
				case ln < 0 || ln > n || (ln > 0 && (lo < 0 || lo+ln > size)):
					bad("Claim(%d) returned the slice (%d,%d)", n, lo, ln)
				case want >= 0 && ln != want:
					bad("Claim(%d) on an empty buffer granted %d bytes, want %d", n, ln, want)
				default:
					for _, iv := range q {
						if ln > 0 && lo < iv.lo+iv.n && iv.lo < lo+ln {
							bad("Claim(%d) returned (%d,%d), which overlaps the queued chunk (%d,%d)", n, lo, ln, iv.lo, iv.n)
							break
						}
					}
				}
				cLo, cLen = lo, ln
				if b.Claimed() != ln {
					bad("Claimed() = %d after a claim of %d bytes", b.Claimed(), ln)
				}
			case "commit":
				n := atoi(f[1])
				lo, ln := view(b.Commit(n))
				want := minInt(n, cLen)
				if want < 0 {
					want = 0
				}
				if ln != want || (want > 0 && lo != cLo) {
					bad("Commit(%d) returned (%d,%d), want (%d,%d)", n, lo, ln, cLo, want)
				}
				if want > 0 {
					q = append(q, bipIv{cLo, want})
				}
				cLo, cLen = 0, 0
			case "head":
				lo, ln := view(b.Head())
				if ln != runLen() || (ln > 0 && lo != q[0].lo) {
					bad("Head() is (%d,%d), want the first contiguous run of the queue (%d bytes)", lo, ln, runLen())
				}
			case "consume":
				n := atoi(f[1])
				b.Consume(n)
				k := minInt(n, runLen())
				for k > 0 && len(q) > 0 {
					if q[0].n <= k {
						k -= q[0].n
						q = q[1:]
					} else {
						q[0] = bipIv{q[0].lo + k, q[0].n - k}
						k = 0
					}
				}
			case "committed":
				total := 0
				for _, iv := range q {
					total += iv.n
				}
				if got := b.Committed(); got != total {
					bad("Committed() = %d, want %d", got, total)
				}
			case "reset":
				b.Reset()
				q, cLo, cLen = nil, 0, 0
			}
		}) {
			bad("panic in %s", line[2:])
		}
	}
	fmt.Fprintf(w, "DIRECT-STAT {\"bip_huge_buffers\": %d, \"bip_huge_operations\": %d, \"bip_direct_failures\": %d}\n", scripts, ops, fails)
}
