//go:build verif

package main

// bbDirect (property C09, Go-only oracle): AsyncWriteTo / AsyncReadFrom over callees that complete LATER, with calls on the
// buffer while the operation is in flight. The traced component runs the asynchronous twins over callees that complete inside
// the call (one observation per call); here the completion is held back, the buffer is used in between in the ways that leave
// the bytes handed to the callee where they are (Write, WriteByte, Commit, PrepareRead while a write-out is in flight; Commit
// while a read-in is in flight), and the three regions are compared with a byte-list oracle: the write-out removes exactly the
// bytes that were handed to the writer, everything committed meanwhile stays readable in order, nothing is duplicated or lost.

import (
	"bufio"
	"bytes"
	"fmt"

	"github.com/talostrading/sonic"
)

type bbHeldWriter struct {
	p  []byte
	cb sonic.AsyncCallback
}

func (h *bbHeldWriter) AsyncWrite(p []byte, cb sonic.AsyncCallback)    { h.p, h.cb = p, cb }
func (h *bbHeldWriter) AsyncWriteAll(p []byte, cb sonic.AsyncCallback) { h.p, h.cb = p, cb }

type bbHeldReader struct {
	p  []byte
	cb sonic.AsyncCallback
}

func (h *bbHeldReader) AsyncRead(p []byte, cb sonic.AsyncCallback)    { h.p, h.cb = p, cb }
func (h *bbHeldReader) AsyncReadAll(p []byte, cb sonic.AsyncCallback) { h.p, h.cb = p, cb }

func bbDirect(seed uint64, tier string, args []string, w *bufio.Writer) {
	fails := 0
	fail := func(key, format string, a ...any) {
		fails++
		if fails <= 10 {
			fmt.Fprintf(w, "DIRECT-FAIL key=bytebuffer.%s %s\n", key, fmt.Sprintf(format, a...))
		}
	}
	// an uncommitted byte is visible through no return value, the one that accompanies an error included: WriteByte / Write /
	// WriteString of bytes that were never committed, then every reading call on the empty read area
	func() {
		defer func() {
			if p := recover(); p != nil {
				fail("direct.panic", "uncommitted-byte probe: %v", p)
			}
		}()
		for _, how := range []string{"WriteByte", "Write", "WriteString"} {
			for _, prior := range []bool{false, true} {
				b := sonic.NewByteBuffer()
				if prior {
					// some committed traffic first (the scratch state of the byte-wise calls has been used)
					_ = b.WriteByte(0x11)
					b.Commit(1)
					_, _ = b.ReadByte()
					b.Consume(1)
				}
				for x := 0x80; x < 0x84; x++ {
					switch how {
					case "WriteByte":
						_ = b.WriteByte(byte(x))
					case "Write":
						_, _ = b.Write([]byte{byte(x)})
					default:
						_, _ = b.WriteString(string([]byte{byte(x)}))
					}
					c, err := b.ReadByte()
					one := []byte{0}
					n, err2 := b.Read(one)
					if err == nil || c == byte(x) || n != 0 || err2 == nil || one[0] == byte(x) || b.ReadLen() != 0 {
						fail("uncommitted-byte-visible", "%s(%#x) without Commit (prior traffic: %v), then ReadByte -> (%#x, %v), Read -> (%d, %v, buffer byte %#x), ReadLen %d: the byte written and not committed came back to a reader", how, x, prior, c, err, n, err2, one[0], b.ReadLen())
						return
					}
				}
			}
		}
	}()
	r := newRng(seed*40503 + 5)
	trials := 20000
	if tier == "thorough" {
		trials = 600000
	}
	held := 0
	for t := 0; t < trials && fails == 0; t++ {
		func() {
			var hist []string
			note := func(format string, a ...any) { hist = append(hist, fmt.Sprintf(format, a...)) }
			defer func() {
				if p := recover(); p != nil {
					fail("direct.panic", "%v after %v", p, hist)
				}
			}()
			b := sonic.NewByteBuffer()
			// the first half of the trials with short regions (a failure found there reads easily)
			small := t < trials/2
			sz := func(opts ...int) int {
				v := r.pick(opts...)
				if small && v > 6 {
					v %= 7
				}
				return v
			}
			// oracle: the three regions as byte lists
			var saved, data, pend []byte
			check := func(where string) bool {
				if !bytes.Equal(b.Saved(), saved) || !bytes.Equal(b.Data(), data) || b.WriteLen() != len(pend) ||
					b.SaveLen() != len(saved) || b.ReadLen() != len(data) || b.Len() != len(saved)+len(data)+len(pend) {
					fail("direct.async-in-flight", "%s: saved=%x data=%x write-len=%d len=%d, want saved=%x data=%x write-len=%d; calls: %v",
						where, b.Saved(), b.Data(), b.WriteLen(), b.Len(), saved, data, len(pend), hist)
					return false
				}
				if len(pend) > 0 {
					d := b.Data()
					if got := d[len(d) : len(d)+len(pend)]; !bytes.Equal(got, pend) {
						fail("direct.async-in-flight", "%s: write area %x, want %x; calls: %v", where, got, pend, hist)
						return false
					}
				}
				return true
			}
			write := func(n int) {
				p := r.bytes(n)
				_, _ = b.Write(p)
				pend = append(pend, p...)
				note("Write(%x)", p)
			}
			commit := func(n int) {
				b.Commit(n)
				note("Commit(%d)", n)
				if n < 0 {
					n = 0
				}
				if n > len(pend) {
					n = len(pend)
				}
				data = append(data, pend[:n]...)
				pend = pend[n:]
			}
			// a history before the operation: some saved, some readable, some uncommitted bytes (sizes around the initial
			// capacity of 512 so that calls made in flight reallocate)
			write(sz(0, 1, 5, 40, 500, 512, 700))
			commit(len(pend))
			if k := r.intn(len(data) + 1); r.intn(2) == 0 && k > 0 {
				b.Save(k)
				note("Save(%d)", k)
				saved = append(saved, data[:k]...)
				data = data[k:]
			}
			write(sz(0, 0, 3, 30, 600))
			if !check("before the operation") {
				return
			}
			if r.intn(2) == 0 {
				// write-out in flight
				hw := &bbHeldWriter{}
				calls, gotN := 0, 0
				var gotErr error
				b.AsyncWriteTo(hw, func(err error, n int) { calls, gotN, gotErr = calls+1, n, err })
				note("AsyncWriteTo(held)")
				if hw.cb == nil {
					fail("direct.async-in-flight", "AsyncWriteTo did not call the writer's AsyncWriteAll; calls: %v", hist)
					return
				}
				handed := append([]byte(nil), hw.p...)
				if !bytes.Equal(handed, data) {
					fail("direct.async-in-flight", "AsyncWriteTo handed %x to the writer, the read area is %x; calls: %v", handed, data, hist)
					return
				}
				for k := r.intn(4); k > 0; k-- {
					switch r.intn(4) {
					case 0:
						write(sz(1, 2, 20, 600))
					case 1:
						commit(r.pick(1, 2, len(pend), len(pend)+3, -1))
					case 2:
						n := len(data) + r.intn(len(pend)+2)
						err := b.PrepareRead(n)
						note("PrepareRead(%d)", n)
						if n <= len(data)+len(pend) {
							if err != nil {
								fail("direct.async-in-flight", "PrepareRead(%d) = %v with %d readable and %d uncommitted; calls: %v", n, err, len(data), len(pend), hist)
								return
							}
							if n > len(data) {
								k := n - len(data)
								data = append(data, pend[:k]...)
								pend = pend[k:]
							}
						}
					default:
						v := byte(r.next())
						_ = b.WriteByte(v)
						pend = append(pend, v)
						note("WriteByte(%02x)", v)
					}
				}
				if calls != 0 {
					fail("direct.async-in-flight", "the AsyncWriteTo callback ran before the writer completed; calls: %v", hist)
					return
				}
				if !check("while the write-out is in flight") {
					return
				}
				failed := r.intn(6) == 0
				if failed {
					hw.cb(errScripted, 0)
					note("writer completes with an error")
				} else {
					hw.cb(nil, len(handed))
					note("writer completes (%d bytes)", len(handed))
					data = data[len(handed):]
				}
				held++
				if calls != 1 || (failed && gotErr == nil) || (!failed && (gotErr != nil || gotN != len(handed))) {
					fail("direct.async-in-flight", "AsyncWriteTo callback ran %d times with (%v, %d), writer completed with %d bytes, failed=%v; calls: %v", calls, gotErr, gotN, len(handed), failed, hist)
					return
				}
				check("after the write-out completed")
			} else {
				// read-in in flight
				hr := &bbHeldReader{}
				calls, gotN := 0, 0
				var gotErr error
				b.AsyncReadFrom(hr, func(err error, n int) { calls, gotN, gotErr = calls+1, n, err })
				note("AsyncReadFrom(held)")
				if hr.cb == nil {
					fail("direct.async-in-flight", "AsyncReadFrom did not call the reader; calls: %v", hist)
					return
				}
				for k := r.intn(3); k > 0; k-- {
					commit(r.pick(1, 2, len(pend), len(pend)+3, 0))
				}
				if !check("while the read-in is in flight") {
					return
				}
				n := 0
				if len(hr.p) > 0 {
					n = r.intn(len(hr.p) + 1)
				}
				failed := r.intn(6) == 0
				in := r.bytes(n)
				copy(hr.p, in)
				if failed {
					hr.cb(errScripted, 0)
					note("reader completes with an error")
				} else {
					hr.cb(nil, n)
					note("reader completes (%x)", in)
					pend = append(pend, in...)
				}
				held++
				if calls != 1 || (failed && gotErr == nil) || (!failed && (gotErr != nil || gotN != n)) {
					fail("direct.async-in-flight", "AsyncReadFrom callback ran %d times with (%v, %d), reader completed with %d bytes, failed=%v; calls: %v", calls, gotErr, gotN, n, failed, hist)
					return
				}
				if !check("after the read-in completed") {
					return
				}
				commit(len(pend))
				check("after committing what was read in")
			}
		}()
	}
	// large regions (the traced scripts print every byte and stay small): growth across reallocation with hundreds of KiB to
	// MiB buffered — Write / WriteString / Claim+Commit / Reserve add, Consume / Read / Save+Discard take, the three regions are
	// compared with the byte-list oracle after every call
	large := 150
	if tier == "thorough" {
		large = 600
	}
	bigOps := 0
	for t := 0; t < large && fails == 0; t++ {
		func() {
			var hist []string
			defer func() {
				if p := recover(); p != nil {
					fail("direct.panic", "%v after %v", p, hist)
				}
			}()
			b := sonic.NewByteBuffer()
			var saved, data, pend []byte
			size := func() int {
				return r.pick(1<<20, 512<<10, 256<<10, 3<<20, 70000, 1<<20+1, 1<<20-1, 4096, 1, 0, 600000)
			}
			for i := 0; i < 14 && fails == 0; i++ {
				bigOps++
				switch r.intn(9) {
				case 0, 1, 2:
					p := r.bytes(size())
					var n int
					var err error
					if r.intn(3) == 0 {
						n, err = b.WriteString(string(p))
						hist = append(hist, fmt.Sprintf("WriteString(%d bytes)", len(p)))
					} else {
						n, err = b.Write(p)
						hist = append(hist, fmt.Sprintf("Write(%d bytes)", len(p)))
					}
					if n != len(p) || err != nil {
						fail("direct.large", "the call returned (%d, %v) for %d bytes; calls: %v", n, err, len(p), hist)
						return
					}
					pend = append(pend, p...)
				case 3:
					k := r.pick(len(pend), len(pend), len(pend)/2, 1)
					b.Commit(k)
					hist = append(hist, fmt.Sprintf("Commit(%d)", k))
					if k > len(pend) {
						k = len(pend)
					}
					data = append(data, pend[:k]...)
					pend = pend[k:]
				case 4:
					k := r.pick(len(data), len(data)/2, 1, 100000)
					b.Consume(k)
					hist = append(hist, fmt.Sprintf("Consume(%d)", k))
					if k > len(data) {
						k = len(data)
					}
					data = data[k:]
				case 5:
					n := size()
					p := r.bytes(n)
					b.Reserve(n)
					b.Claim(func(dst []byte) int { return copy(dst, p) })
					hist = append(hist, fmt.Sprintf("Reserve(%d); Claim(fills %d)", n, n))
					pend = append(pend, p...)
				case 6:
					out := make([]byte, r.pick(1, 4096, 300000, 2<<20))
					n, err := b.Read(out)
					hist = append(hist, fmt.Sprintf("Read(%d-byte buffer)", len(out)))
					want := len(out)
					if want > len(data) {
						want = len(data)
					}
					if len(data) > 0 && (n != want || err != nil || !bytes.Equal(out[:n], data[:want])) {
						fail("direct.large", "Read returned (%d, %v), want %d bytes of the read area; calls: %v", n, err, want, hist)
						return
					}
					if len(data) > 0 {
						data = data[want:]
					}
				case 7:
					k := r.pick(len(data)/3, 1, len(data))
					if k > 0 && k <= len(data) {
						slot := b.Save(k)
						hist = append(hist, fmt.Sprintf("Save(%d)", k))
						saved = append(saved, data[:k]...)
						data = data[k:]
						if r.intn(2) == 0 {
							b.Discard(slot)
							hist = append(hist, "Discard(that slot)")
							saved = saved[:len(saved)-k]
						}
					}
				default:
					n := size()
					b.Reserve(n)
					hist = append(hist, fmt.Sprintf("Reserve(%d)", n))
					if b.Reserved() < n {
						fail("direct.large", "Reserved() = %d after Reserve(%d); calls: %v", b.Reserved(), n, hist)
						return
					}
				}
				if !bytes.Equal(b.Saved(), saved) || !bytes.Equal(b.Data(), data) || b.WriteLen() != len(pend) || b.Len() != len(saved)+len(data)+len(pend) {
					fail("direct.large", "regions are %d/%d/%d bytes (len %d), want %d/%d/%d, or their contents differ (first difference of the read area at %d); calls: %v",
						b.SaveLen(), b.ReadLen(), b.WriteLen(), b.Len(), len(saved), len(data), len(pend), firstDiff(b.Data(), data), hist)
					return
				}
				if len(pend) > 0 {
					d := b.Data()
					if got := d[len(d) : len(d)+len(pend)]; !bytes.Equal(got, pend) {
						fail("direct.large", "the write area differs from what was written (first difference at %d of %d); calls: %v", firstDiff(got, pend), len(pend), hist)
						return
					}
				}
			}
		}()
	}
	fmt.Fprintf(w, "DIRECT-STAT {\"bytebuffer_async_in_flight_trials\": %d, \"bytebuffer_large_region_calls\": %d, \"bytebuffer_direct_failures\": %d}\n", held, bigOps, fails)
}
