package main

// Component `codec` (property C19): the real sonic.CodecConn[[]byte, []byte] with the real
// codec/frame.Codec over the scripted in-memory transport (memstream.go), both directions, blocking
// and asynchronous APIs.
//
// Script operations
//
//	new                 fresh transport, buffers, codec and connection
//	feed <hex>          queue one transport segment for reading (a Read returns at most one segment)
//	eof                 the peer closes its sending side after what was fed
//	plan k1 k2 ...      the next transport writes accept k1, k2, ... bytes; 0 = would block
//	defer 0|1           asynchronous transport writes complete only at the next pump
//	read | aread        CodecConn.ReadNext / AsyncReadNext (one call)
//	write <hex> | awrite <hex>   CodecConn.WriteNext / AsyncWriteNext (one call)
//	pump                the transport completes whatever pending asynchronous operation it can
//
// Trace lines
//
//	? rd <avail>                 a transport read was issued with a buffer of <avail> bytes (= cap-wi of src)
//	< new <HeaderLen> <MaxPayloadLength> <cap(src)>
//	< ok
//	< r <status> <arg> <cap(src)> <ReadLen(src)> <WriteLen(src)>
//	      status: item <hex> | err <class> | pending - | none - | busy - | panic - | stuck -
//	< w <status> <n> <err> <out-hex> <ReadLen(dst)> <WriteLen(dst)>
//	      status: done | pending | none | busy | panic ; out = bytes the raw peer received during this operation

import (
	"bufio"
	"bytes"
	"encoding/binary"
	"encoding/hex"
	"errors"
	"fmt"
	"io"
	"net"
	"os"
	"runtime"
	"runtime/debug"
	"strings"
	"syscall"
	"time"

	"github.com/talostrading/sonic"
	"github.com/talostrading/sonic/codec/frame"
	"github.com/talostrading/sonic/sonicerrors"
)

func init() {
	components["codec"] = &component{gen: codecGen, enum: codecEnum, run: codecRun, direct: codecDirect}
}

type codecStuck struct{}

// codecStream wraps the scripted transport: it logs the size of every read buffer (the only way the
// capacity chosen by Reserve influences behaviour), turns "nothing queued" and a 0 entry of the write
// plan into ErrWouldBlock for the blocking calls (what a non-blocking descriptor does), and breaks the
// endless loop a zero-length read buffer would cause.
type codecStream struct {
	*memStream
	w *bufio.Writer
}

func (s *codecStream) Read(b []byte) (int, error) {
	fmt.Fprintf(s.w, "? rd %d\n", len(b))
	if len(b) == 0 && len(s.in) > 0 {
		panic(codecStuck{})
	}
	n, err := s.memStream.Read(b)
	if err == errNoData {
		err = sonicerrors.ErrWouldBlock
	}
	return n, err
}

func (s *codecStream) AsyncRead(b []byte, cb sonic.AsyncCallback) {
	fmt.Fprintf(s.w, "? rd %d\n", len(b))
	if len(b) == 0 && len(s.in) > 0 {
		panic(codecStuck{})
	}
	s.memStream.AsyncRead(b, cb)
}

func (s *codecStream) Write(b []byte) (int, error) {
	if len(s.writePlan) > 0 && s.writePlan[0] == 0 {
		s.writePlan = s.writePlan[1:]
		return 0, sonicerrors.ErrWouldBlock
	}
	return s.memStream.Write(b)
}

var _ sonic.Stream = (*codecStream)(nil)

func codecErr(err error) string {
	switch {
	case err == nil:
		return "nil"
	case errors.Is(err, io.EOF):
		return "eof"
	case errors.Is(err, sonicerrors.ErrWouldBlock):
		return "wouldblock"
	case errors.Is(err, frame.ErrPayloadLengthOverflow):
		return "toobig"
	case errors.Is(err, sonicerrors.ErrNeedMore):
		return "needmore"
	case errors.Is(err, sonicerrors.ErrCancelled):
		return "cancelled"
	}
	return "other"
}

func cdHx(b []byte) string {
	if len(b) == 0 {
		return "-"
	}
	return hex.EncodeToString(b)
}

func cdUnhx(s string) []byte {
	if s == "-" {
		return nil
	}
	b, err := hex.DecodeString(s)
	if err != nil {
		panic("bad hex in script")
	}
	return b
}

type codecEnv struct {
	w        *bufio.Writer
	st       *codecStream
	src, dst *sonic.ByteBuffer
	conn     *sonic.CodecConn[[]byte, []byte]
	outMark  int
	rPending bool
	wPending bool
	rRes     string // completion of the asynchronous read, if its callback ran
	wRes     string // "n err" of the asynchronous write, if its callback ran
}

func (e *codecEnv) reset() {
	e.st = &codecStream{memStream: newMemStream(), w: e.w}
	e.src = sonic.NewByteBuffer()
	e.dst = sonic.NewByteBuffer()
	codec := frame.NewCodec(e.src)
	e.conn, _ = sonic.NewCodecConn[[]byte, []byte](e.st, codec, e.src, e.dst)
	e.outMark = 0
	e.rPending, e.wPending = false, false
	e.rRes, e.wRes = "", ""
}

func (e *codecEnv) out() string {
	b := e.st.out[e.outMark:]
	e.outMark = len(e.st.out)
	return cdHx(b)
}

func (e *codecEnv) rline(status, arg string) {
	fmt.Fprintf(e.w, "< r %s %s %d %d %d\n", status, arg, e.src.Cap(), e.src.ReadLen(), e.src.WriteLen())
}

func (e *codecEnv) wline(status string, n int, err string) {
	fmt.Fprintf(e.w, "< w %s %d %s %s %d %d\n", status, n, err, e.out(), e.dst.ReadLen(), e.dst.WriteLen())
}

func readRes(err error, item []byte) string {
	if err != nil {
		return "err " + codecErr(err)
	}
	return "item " + cdHx(item)
}

// guardCodec runs f; "" = returned normally, otherwise "panic" or "stuck".
func guardCodec(f func()) (res string) {
	defer func() {
		if r := recover(); r != nil {
			if _, ok := r.(codecStuck); ok {
				res = "stuck"
			} else {
				res = "panic"
			}
		}
	}()
	f()
	return ""
}

func (e *codecEnv) finishRead() {
	// e.rRes holds "item <hex>" / "err <class>" when the callback ran
	if e.rRes != "" {
		f := strings.Fields(e.rRes)
		e.rPending = false
		e.rRes = ""
		e.rline(f[0], f[1])
	} else {
		e.rline("pending", "-")
	}
}

func (e *codecEnv) finishWrite() {
	if e.wRes != "" {
		var n int
		var es string
		fmt.Sscanf(e.wRes, "%d %s", &n, &es)
		e.wPending = false
		e.wRes = ""
		e.wline("done", n, es)
	} else {
		e.wline("pending", 0, "nil")
	}
}

func codecRun(script []string, w *bufio.Writer) {
	e := &codecEnv{w: w}
	e.reset()
	for _, line := range script {
		f := strings.Fields(line)
		fmt.Fprintf(w, "! %s\n", line)
		switch f[0] {
		case "new":
			e.reset()
			fmt.Fprintf(w, "< new %d %d %d\n", frame.HeaderLen, frame.MaxPayloadLength, e.src.Cap())
		case "feed":
			e.st.feed(cdUnhx(f[1]))
			fmt.Fprintf(w, "< ok\n")
		case "eof":
			e.st.eof = true
			fmt.Fprintf(w, "< ok\n")
		case "plan":
			for _, a := range f[1:] {
				e.st.writePlan = append(e.st.writePlan, atoi(a))
			}
			fmt.Fprintf(w, "< ok\n")
		case "defer":
			e.st.deferWrites = f[1] == "1"
			fmt.Fprintf(w, "< ok\n")
		case "read":
			if e.rPending {
				e.rline("busy", "-")
				break
			}
			var res string
			if p := guardCodec(func() {
				item, err := e.conn.ReadNext()
				res = readRes(err, item)
			}); p != "" {
				e.rline(p, "-")
				break
			}
			rf := strings.Fields(res)
			e.rline(rf[0], rf[1])
		case "aread":
			if e.rPending {
				e.rline("busy", "-")
				break
			}
			e.rPending = true
			if p := guardCodec(func() {
				e.conn.AsyncReadNext(func(err error, item []byte) { e.rRes = readRes(err, item) })
			}); p != "" {
				e.rPending = false
				e.rRes = ""
				e.rline(p, "-")
				break
			}
			e.finishRead()
		case "write":
			if e.wPending {
				e.wline("busy", 0, "nil")
				break
			}
			var n int
			var err error
			if p := guardCodec(func() { n, err = e.conn.WriteNext(cdUnhx(f[1])) }); p != "" {
				e.wline("panic", 0, "nil")
				break
			}
			e.wline("done", n, codecErr(err))
		case "awrite":
			if e.wPending {
				e.wline("busy", 0, "nil")
				break
			}
			e.wPending = true
			if p := guardCodec(func() {
				e.conn.AsyncWriteNext(cdUnhx(f[1]), func(err error, n int) { e.wRes = fmt.Sprintf("%d %s", n, codecErr(err)) })
			}); p != "" {
				e.wPending = false
				e.wRes = ""
				e.wline("panic", 0, "nil")
				break
			}
			e.finishWrite()
		case "pump":
			pw := guardCodec(func() { e.st.pumpWrite() })
			switch {
			case pw != "":
				e.wPending = false
				e.wline("panic", 0, "nil")
			case e.wPending:
				e.finishWrite()
			default:
				e.wline("none", 0, "nil")
			}
			pr := guardCodec(func() { e.st.pumpRead() })
			switch {
			case pr != "":
				e.rPending = false
				e.rline(pr, "-")
			case e.rPending:
				e.finishRead()
			default:
				e.rline("none", "-")
			}
		default:
			panic("bad op " + f[0])
		}
	}
}

// ---- generator --------------------------------------------------------------------------------------

func codecFrame(p []byte) []byte {
	b := make([]byte, 4+len(p))
	binary.BigEndian.PutUint32(b, uint32(len(p)))
	copy(b[4:], p)
	return b
}

// codecSplit cuts b into segments according to a style drawn from r.
func codecSplit(r *rng, b []byte, maxSegs int) [][]byte {
	if len(b) == 0 {
		return nil
	}
	var cuts []int
	switch r.intn(6) {
	case 0: // one segment (everything coalesced)
	case 1: // single bytes where affordable
		if len(b) <= maxSegs {
			for i := 1; i < len(b); i++ {
				cuts = append(cuts, i)
			}
		} else {
			for i := 0; i < maxSegs; i++ {
				cuts = append(cuts, 1+r.intn(len(b)))
			}
		}
	case 2: // small segments 1..7
		for i := 0; i < len(b) && len(cuts) < maxSegs; {
			i += 1 + r.intn(7)
			cuts = append(cuts, i)
		}
	default: // a few random cuts
		k := 1 + r.intn(6)
		for i := 0; i < k; i++ {
			cuts = append(cuts, 1+r.intn(len(b)))
		}
	}
	seen := map[int]bool{}
	var out [][]byte
	last := 0
	// sort cuts (small lists: insertion sort)
	for i := 1; i < len(cuts); i++ {
		for j := i; j > 0 && cuts[j-1] > cuts[j]; j-- {
			cuts[j-1], cuts[j] = cuts[j], cuts[j-1]
		}
	}
	for _, c := range cuts {
		if c <= last || c >= len(b) || seen[c] {
			continue
		}
		seen[c] = true
		out = append(out, b[last:c])
		last = c
	}
	out = append(out, b[last:])
	return out
}

func codecPayloadSize(r *rng, big bool) int {
	switch r.intn(16) {
	case 0, 1:
		return 0
	case 2:
		return 1
	case 3:
		return 2
	case 4:
		return 3
	case 5:
		return 4
	case 6:
		return 5
	case 7:
		return r.pick(255, 256, 257)
	case 8:
		return r.pick(503, 504, 507, 508, 509, 512, 516) // around the initial 512-byte capacity
	case 9:
		if big {
			return r.pick(65535, 65536, 70000)
		}
		return r.pick(1020, 1024, 2000)
	default:
		return r.intn(40)
	}
}

// codecGen: a session mixing both directions. Reading: payload sequences framed by the generator and
// cut at random places (inside the prefix too), delivered before or between the read calls, or hostile
// bytes / over-limit prefixes. Writing: items written under partial-write and would-block plans.
func codecGen(r *rng, maxops int, w *bufio.Writer) {
	fmt.Fprintf(w, "! new\n")
	budget := 4 + r.intn(maxops+1)
	async := r.intn(3) // 0 blocking, 1 async, 2 mixed
	big := r.intn(25) == 0
	rd := func() string {
		if async == 1 || (async == 2 && r.intn(2) == 0) {
			return "aread"
		}
		return "read"
	}
	wr := func() string {
		if async == 1 || (async == 2 && r.intn(2) == 0) {
			return "awrite"
		}
		return "write"
	}
	ops := 0
	emit := func(s string) {
		fmt.Fprintf(w, "! %s\n", s)
		ops++
	}
	readBatch := func(truncate bool) {
		nf := 1 + r.intn(4)
		var stream []byte
		for i := 0; i < nf; i++ {
			stream = append(stream, codecFrame(r.bytes(codecPayloadSize(r, big)))...)
		}
		if truncate { // an incomplete item stays buffered
			stream = stream[:len(stream)-1-r.intn(min(len(stream), 6))]
		}
		segs := codecSplit(r, stream, 48)
		switch r.intn(3) {
		case 0: // everything queued first, then read until would-block
			for _, s := range segs {
				emit("feed " + cdHx(s))
			}
			for i := 0; i < nf+1; i++ {
				emit(rd())
				if r.intn(4) == 0 {
					emit("pump")
				}
			}
		case 1: // a read between the segments: would-block in the middle of an item
			for _, s := range segs {
				emit("feed " + cdHx(s))
				if r.intn(2) == 0 {
					emit(rd())
				}
				if r.intn(3) == 0 {
					emit("pump")
				}
			}
			for i := 0; i < nf; i++ {
				emit(rd())
			}
			emit("pump")
		default: // asynchronous read first, data arrives afterwards
			emit(rd())
			for _, s := range segs {
				emit("feed " + cdHx(s))
				emit("pump")
				if r.intn(3) == 0 {
					emit(rd())
				}
			}
			emit(rd())
			emit("pump")
		}
	}
	for ops < budget {
		switch k := r.intn(20); {
		case k < 10: // a batch of frames to read
			readBatch(false)
		case k < 18: // items to write
			nw := 1 + r.intn(3)
			for i := 0; i < nw; i++ {
				if r.intn(2) == 0 {
					var plan []string
					for j := r.intn(5); j >= 0; j-- {
						plan = append(plan, fmt.Sprint(r.pick(0, 0, 1, 1, 2, 3, 4, 5, 7, 100, 600)))
					}
					emit("plan " + strings.Join(plan, " "))
				}
				if r.intn(6) == 0 {
					emit(fmt.Sprintf("defer %d", r.intn(2)))
				}
				emit(wr() + " " + cdHx(r.bytes(codecPayloadSize(r, big))))
				if r.intn(2) == 0 {
					emit("pump")
				}
			}
			emit("pump")
			emit("pump")
		case k < 19:
			emit(rd())
			emit("pump")
		default:
			emit("pump")
		}
	}
	// How the inbound stream ends. Everything after one of these is garbage, so they come last.
	switch r.intn(8) {
	case 0, 1: // hostile bytes
		n := r.pick(1, 2, 3, 4, 5, 8, 16, 64)
		b := r.bytes(n)
		switch r.intn(10) {
		case 0: // up to 16 MiB declared
			b[0] = 0
		case 1, 2, 3, 4: // over the limit
			b[0] |= 0x41
		default: // small declared lengths
			b[0] = 0
			if n > 1 {
				b[1] = 0
			}
		}
		for _, s := range codecSplit(r, b, 16) {
			emit("feed " + cdHx(s))
			if r.intn(2) == 0 {
				emit(rd())
			}
		}
		emit(rd())
		emit("pump")
		emit(rd())
	case 2, 3: // a prefix just above the limit (must be rejected without reserving anything)
		over := uint32(frame.MaxPayloadLength) + uint32(r.pick(1, 1, 2, 1<<20, 1<<30, 1<<31, 3<<30-1))
		hdr := make([]byte, 4)
		binary.BigEndian.PutUint32(hdr, over)
		if r.intn(2) == 0 {
			hdr = append(hdr, r.bytes(r.intn(6))...)
		}
		for _, s := range codecSplit(r, hdr, 8) {
			emit("feed " + cdHx(s))
			if r.intn(3) == 0 {
				emit(rd())
			}
		}
		emit(rd())
		emit("pump")
		emit(rd())
	case 4: // truncated item, then the peer goes away
		readBatch(true)
		emit("eof")
		emit(rd())
		emit("pump")
	case 5:
		if r.intn(100) == 0 { // a prefix declaring exactly the limit (or one less) is accepted: space is reserved
			hdr := make([]byte, 4)
			binary.BigEndian.PutUint32(hdr, uint32(frame.MaxPayloadLength-r.intn(2)))
			emit("feed " + cdHx(hdr[:2]))
			emit("feed " + cdHx(hdr[2:]))
			emit(rd())
		} else {
			emit("eof")
		}
	}
	emit("pump")
	emit("read")
}

// codecEnum <maxlen> [mode]: every segmentation (all 2^(n-1) compositions) of a few short streams of at most
// <maxlen> bytes, delivered (a) all before the reads, (b) with a read after every segment, blocking
// and asynchronous.
func codecEnum(args []string, w *bufio.Writer) {
	maxlen := atoi(args[0])
	streams := [][][]byte{
		{{}},
		{{0xaa}},
		{{}, {}},
		{{0x01, 0x02}, {}},
		{{0x01}, {0x02, 0x03}},
		{{0x01, 0x02, 0x03, 0x04, 0x05}},
		{{0xde, 0xad, 0xbe}, {}, {0xef}},
	}
	k := 0
	for si, ps := range streams {
		var stream []byte
		for _, p := range ps {
			stream = append(stream, codecFrame(p)...)
		}
		variants := [][]byte{stream}
		if si == 4 {
			// hostile tails: an over-limit prefix and a truncated item after valid items
			variants = append(variants, append(append([]byte{}, codecFrame([]byte{0x07})...), 0x40, 0x00, 0x00, 0x01, 0x00))
			variants = append(variants, append(append([]byte{}, codecFrame([]byte{0x07})...), 0x00, 0x00, 0x00, 0x09, 0x01))
		}
		for _, st := range variants {
			if len(st) > maxlen {
				continue
			}
			n := len(st)
			for mask := 0; mask < 1<<(n-1); mask++ {
				var segs [][]byte
				last := 0
				for i := 1; i < n; i++ {
					if mask&(1<<(i-1)) != 0 {
						segs = append(segs, st[last:i])
						last = i
					}
				}
				segs = append(segs, st[last:])
				for mode := 0; mode < 4; mode++ {
					fmt.Fprintf(w, "# script %d\n! new\n", k)
					k++
					rd := "read"
					if mode >= 2 {
						rd = "aread"
					}
					if mode%2 == 0 {
						for _, s := range segs {
							fmt.Fprintf(w, "! feed %s\n", cdHx(s))
						}
						for i := 0; i < len(ps)+1; i++ {
							fmt.Fprintf(w, "! %s\n", rd)
						}
						fmt.Fprintf(w, "! pump\n")
					} else {
						if mode == 3 {
							fmt.Fprintf(w, "! aread\n")
						}
						for _, s := range segs {
							fmt.Fprintf(w, "! feed %s\n", cdHx(s))
							if mode == 3 {
								fmt.Fprintf(w, "! pump\n! aread\n")
							} else {
								fmt.Fprintf(w, "! read\n")
							}
						}
						for i := 0; i < len(ps); i++ {
							fmt.Fprintf(w, "! %s\n! pump\n", rd)
						}
					}
				}
			}
		}
	}
}

// ---- direct mode: payloads of exactly the limit (1 GiB), which cannot travel through a hex trace -----------------

// codecBigStream is a minimal in-memory transport for the limit-size round trip: writes are appended to wire
// (accepting at most maxWrite bytes each), reads serve wire in the scripted cuts.
type codecBigStream struct {
	wire     []byte
	rd       int
	cuts     []int
	maxWrite int
}

func (s *codecBigStream) RawFd() int   { return -1 }
func (s *codecBigStream) Close() error { return nil }
func (s *codecBigStream) Cancel()      {}
func (s *codecBigStream) Write(b []byte) (int, error) {
	n := len(b)
	if s.maxWrite > 0 && n > s.maxWrite {
		n = s.maxWrite
	}
	s.wire = append(s.wire, b[:n]...)
	return n, nil
}
func (s *codecBigStream) Read(b []byte) (int, error) {
	if s.rd == len(s.wire) {
		return 0, sonicerrors.ErrWouldBlock
	}
	n := len(s.wire) - s.rd
	if len(s.cuts) > 0 {
		if s.cuts[0] < n {
			n = s.cuts[0]
		}
		s.cuts = s.cuts[1:]
	}
	n = copy(b, s.wire[s.rd:s.rd+n])
	s.rd += n
	return n, nil
}
func (s *codecBigStream) AsyncRead(b []byte, cb sonic.AsyncCallback)    { n, err := s.Read(b); cb(err, n) }
func (s *codecBigStream) AsyncReadAll(b []byte, cb sonic.AsyncCallback) { panic("unused") }
func (s *codecBigStream) AsyncWrite(b []byte, cb sonic.AsyncCallback) {
	n, err := s.Write(b)
	cb(err, n)
}
func (s *codecBigStream) AsyncWriteAll(b []byte, cb sonic.AsyncCallback) { panic("unused") }

var _ sonic.Stream = (*codecBigStream)(nil)

func codecPattern(i int) byte { return byte(i*7 + i>>11 + 13) }

// codecDirect (thorough tier): payloads of limit-1 and limit bytes make the whole round trip through WriteNext and
// ReadNext, cut inside the prefix and at arbitrary places; limit+1 is refused by WriteNext before anything is buffered.
// codecRealTransport: the codec connection over a real sonic.Dial connection whose peer starts reading late, so that
// asynchronous writes hit would-block in the middle of an item and are resumed by the poller (the in-memory transport of
// the trace mode completes or refuses a write as scripted; here the kernel and the library's own write reactor decide).
// Every item must arrive intact, in order, exactly once.
// codecItemStep: item i has size + i*codecItemStep bytes.
var codecItemStep = 7

// codecBurstRead: the reading side over a real connection. The peer writes one frame of `first` bytes (the source buffer grows) and
// then `n` tiny frames in a single write, then stays silent; the reader hands out every frame from a callback chain that re-arms
// AsyncReadNext from inside the callback (frames that are already buffered are handed out without touching the transport).
// codecBurstTogether: the large frame and the tiny ones go out in one write (they reach the reader's buffer together).
var codecBurstTogether = false

func codecBurstRead(first, n int) (ok bool, why string) {
	runtime.LockOSThread()
	defer runtime.UnlockOSThread()
	ioc, err := sonic.NewIO()
	if err != nil {
		return false, "newio"
	}
	defer ioc.Close()
	ln, err := net.Listen("tcp", "127.0.0.1:0")
	if err != nil {
		return false, "listen"
	}
	defer ln.Close()
	conn, err := sonic.Dial(ioc, "tcp", ln.Addr().String())
	if err != nil {
		return false, "dial"
	}
	defer conn.Close()
	peer, err := ln.Accept()
	if err != nil {
		return false, "accept"
	}
	defer peer.Close()
	src, dst := sonic.NewByteBuffer(), sonic.NewByteBuffer()
	cc, err := sonic.NewCodecConn[[]byte, []byte](conn, frame.NewCodec(src), src, dst)
	if err != nil {
		return false, "codecconn"
	}
	var wire []byte
	put := func(p []byte) {
		var h [4]byte
		binary.BigEndian.PutUint32(h[:], uint32(len(p)))
		wire = append(append(wire, h[:]...), p...)
	}
	big := make([]byte, first)
	for i := range big {
		big[i] = byte(i * 13)
	}
	put(big)
	if !codecBurstTogether {
		if _, err := peer.Write(wire); err != nil {
			return false, "peer write"
		}
		wire = wire[:0]
	}
	for i := 0; i < n; i++ {
		put([]byte{byte(i), byte(i >> 8), 0x5a})
	}
	if codecBurstTogether {
		go func(w []byte) { _, _ = peer.Write(w) }(append([]byte(nil), wire...))
	}
	got, bad, failed := 0, "", false
	var next func()
	next = func() {
		cc.AsyncReadNext(func(err error, item []byte) {
			if err != nil {
				bad, failed = fmt.Sprintf("after %d frames: %v", got, err), true
				return
			}
			switch {
			case got == 0 && !bytes.Equal(item, big):
				bad = "the first frame differs from what was sent"
			case got > 0 && (len(item) != 3 || item[0] != byte(got-1) || item[1] != byte((got-1)>>8) || item[2] != 0x5a):
				bad = fmt.Sprintf("frame %d is %x", got, item)
			}
			got++
			if bad == "" && got < n+1 {
				next()
			}
		})
	}
	next()
	sent := false
	quiet := time.Now()
	for got < n+1 && bad == "" && !failed && time.Since(quiet) < 1500*time.Millisecond {
		before := got
		_ = ioc.RunOneFor(5 * time.Millisecond)
		if got == 1 && !sent && !codecBurstTogether {
			sent = true
			if _, err := peer.Write(wire); err != nil {
				return false, "peer write"
			}
		}
		if got != before {
			quiet = time.Now()
		}
	}
	if bad != "" {
		return false, bad
	}
	if got != n+1 {
		return false, fmt.Sprintf("%d of %d frames were handed out (the peer sent one frame of %d bytes, then %d 3-byte frames in one write, and nothing more); %d bytes are left in the source buffer", got, n+1, first, n, src.ReadLen()+src.WriteLen())
	}
	return true, ""
}

// codecFastPeer: default socket buffers and a peer that reads from the start, concurrently with the writer, so that a large item
// goes out in a long run of short writes none of which would block.
var codecFastPeer = 0 // 1: reads from the start, small socket buffers; 2: reads from the start, default buffers

func codecRealTransport(seed uint64, items, size int) (ok bool, why string) {
	runtime.LockOSThread()
	defer runtime.UnlockOSThread()
	ioc, err := sonic.NewIO()
	if err != nil {
		return false, "newio"
	}
	defer ioc.Close()
	ln, err := net.Listen("tcp", "127.0.0.1:0")
	if err != nil {
		return false, "listen"
	}
	defer ln.Close()
	// small socket buffers, so that every item runs into would-block several times; the receive buffer is set on the listener
	// (accepted sockets inherit it): shrinking it on an established loopback connection stalls every refill for ~600 ms
	if rc, err := ln.(*net.TCPListener).SyscallConn(); err == nil && codecFastPeer != 2 {
		_ = rc.Control(func(fd uintptr) { _ = syscall.SetsockoptInt(int(fd), syscall.SOL_SOCKET, syscall.SO_RCVBUF, 16384) })
	}
	conn, err := sonic.Dial(ioc, "tcp", ln.Addr().String())
	if err != nil {
		return false, "dial"
	}
	defer conn.Close()
	peer, err := ln.Accept()
	if err != nil {
		return false, "accept"
	}
	defer peer.Close()
	if codecFastPeer != 2 {
		_ = syscall.SetsockoptInt(conn.RawFd(), syscall.SOL_SOCKET, syscall.SO_SNDBUF, 16384)
	}
	src, dst := sonic.NewByteBuffer(), sonic.NewByteBuffer()
	cc, err := sonic.NewCodecConn[[]byte, []byte](conn, frame.NewCodec(src), src, dst)
	if err != nil {
		return false, "codecconn"
	}
	mk := func(i int) []byte {
		b := make([]byte, size+i*codecItemStep)
		for j := range b {
			b[j] = byte((j*31 + i*17 + int(seed)) % 251)
		}
		return b
	}
	type rres struct {
		got [][]byte
		err string
	}
	rc := make(chan rres, 1)
	go func() {
		if codecFastPeer == 0 {
			time.Sleep(120 * time.Millisecond) // let the sender run into a full socket first
		}
		var out rres
		hdr := make([]byte, 4)
		for {
			_ = peer.SetReadDeadline(time.Now().Add(5 * time.Second))
			if _, err := io.ReadFull(peer, hdr); err != nil {
				if err != io.EOF {
					out.err = "peer read: " + err.Error()
				}
				break
			}
			n := int(binary.BigEndian.Uint32(hdr))
			if n > 64<<20 {
				out.err = fmt.Sprintf("nonsensical header after %d items: length %d", len(out.got), n)
				break
			}
			b := make([]byte, n)
			if _, err := io.ReadFull(peer, b); err != nil {
				out.err = "peer read payload: " + err.Error()
				break
			}
			out.got = append(out.got, b)
		}
		rc <- out
	}()
	idx, done, werr := 0, false, ""
	var next func()
	next = func() {
		if idx == items {
			done = true
			return
		}
		it := mk(idx)
		i := idx
		idx++
		cc.AsyncWriteNext(it, func(err error, n int) {
			if err != nil {
				werr = fmt.Sprintf("item %d: %v", i, err)
				done = true
				return
			}
			if dst.ReadLen() != 0 || dst.WriteLen() != 0 {
				werr = fmt.Sprintf("item %d completed with %d+%d bytes left in the write buffer", i, dst.ReadLen(), dst.WriteLen())
				done = true
				return
			}
			next()
		})
	}
	next()
	deadline := time.Now().Add(20 * time.Second)
	for !done && time.Now().Before(deadline) {
		_ = ioc.RunOneFor(5 * time.Millisecond)
	}
	if tc, ok2 := interface{}(conn).(interface{ Close() error }); ok2 {
		_ = tc.Close()
	}
	res := <-rc
	switch {
	case werr != "":
		return false, werr
	case !done:
		return false, "the writes never completed"
	case res.err != "":
		return false, res.err
	case len(res.got) != items:
		return false, fmt.Sprintf("%d items arrived, %d were written", len(res.got), items)
	}
	for i, g := range res.got {
		want := mk(i)
		if len(g) != len(want) {
			return false, fmt.Sprintf("item %d arrived with %d bytes instead of %d", i, len(g), len(want))
		}
		for j := range g {
			if g[j] != want[j] {
				return false, fmt.Sprintf("item %d differs at offset %d", i, j)
			}
		}
	}
	return true, ""
}

// memAvailableKiB: MemAvailable of /proc/meminfo (0 when unknown).
func memAvailableKiB() int {
	data, err := os.ReadFile("/proc/meminfo")
	if err != nil {
		return 0
	}
	for _, line := range strings.Split(string(data), "\n") {
		if strings.HasPrefix(line, "MemAvailable:") {
			var kb int
			fmt.Sscanf(strings.TrimSpace(strings.TrimPrefix(line, "MemAvailable:")), "%d", &kb)
			return kb
		}
	}
	return 0
}

// codecCancelResume: the reading side over a real connection whose read is cancelled while it is parked inside an item. The peer
// writes the prefix and half of a frame; the parked AsyncReadNext is cancelled (conn.Cancel) and its ErrCancelled callback issues
// AsyncReadNext again at once (the documented way to go on after a cancellation); then the peer writes the rest of the frame and
// two more frames. Every frame must be handed out, byte-identical, once. `write`: the same for the writing side (a large item
// parked on would-block, cancelled, written again from the callback: the peer must be able to frame what it receives up to
// the cancellation point and the re-issued write must complete).
func codecCancelResume() (ok bool, why string) {
	runtime.LockOSThread()
	defer runtime.UnlockOSThread()
	ioc, err := sonic.NewIO()
	if err != nil {
		return false, "newio"
	}
	defer ioc.Close()
	ln, err := net.Listen("tcp", "127.0.0.1:0")
	if err != nil {
		return false, "listen"
	}
	defer ln.Close()
	conn, err := sonic.Dial(ioc, "tcp", ln.Addr().String())
	if err != nil {
		return false, "dial"
	}
	defer conn.Close()
	peer, err := ln.Accept()
	if err != nil {
		return false, "accept"
	}
	defer peer.Close()
	src, dst := sonic.NewByteBuffer(), sonic.NewByteBuffer()
	cc, err := sonic.NewCodecConn[[]byte, []byte](conn, frame.NewCodec(src), src, dst)
	if err != nil {
		return false, "codecconn"
	}
	frameOf := func(p []byte) []byte {
		var h [4]byte
		binary.BigEndian.PutUint32(h[:], uint32(len(p)))
		return append(h[:], p...)
	}
	items := [][]byte{bytes.Repeat([]byte{0xa1}, 40), bytes.Repeat([]byte{0xb2}, 7), bytes.Repeat([]byte{0xc3}, 90)}
	var got [][]byte
	cancelled, failed := 0, ""
	var next func()
	next = func() {
		cc.AsyncReadNext(func(err error, item []byte) {
			if err != nil {
				if errors.Is(err, sonicerrors.ErrCancelled) && cancelled == 0 {
					cancelled++
					next() // go on reading from inside the cancellation callback
					return
				}
				failed = fmt.Sprintf("after %d frames: %v", len(got), err)
				return
			}
			got = append(got, append([]byte(nil), item...))
			if len(got) < len(items) {
				next()
			}
		})
	}
	w0 := frameOf(items[0])
	if _, err := peer.Write(w0[:20]); err != nil {
		return false, "peer write"
	}
	next()
	// let the read consume the first half and park
	for i := 0; i < 20; i++ {
		_ = ioc.RunOneFor(2 * time.Millisecond)
	}
	if len(got) != 0 || failed != "" {
		return false, fmt.Sprintf("before the cancellation: %d frames, %s", len(got), failed)
	}
	conn.Cancel()
	if cancelled != 1 {
		return true, "" // the read was not parked (nothing to cancel): not this trial's subject
	}
	rest := append(append(append([]byte(nil), w0[20:]...), frameOf(items[1])...), frameOf(items[2])...)
	if _, err := peer.Write(rest); err != nil {
		return false, "peer write"
	}
	deadline := time.Now().Add(2 * time.Second)
	for len(got) < len(items) && failed == "" && time.Now().Before(deadline) {
		_ = ioc.RunOneFor(5 * time.Millisecond)
	}
	if failed != "" {
		return false, failed
	}
	if len(got) != len(items) {
		return false, fmt.Sprintf("a read parked inside a frame was cancelled and re-issued from its ErrCancelled callback; the peer then sent the rest of the frame and two more: %d of %d frames were handed out within 2 s", len(got), len(items))
	}
	for i := range items {
		if !bytes.Equal(got[i], items[i]) {
			return false, fmt.Sprintf("frame %d after a cancelled and re-issued read: %x, sent %x", i, got[i], items[i])
		}
	}
	return true, ""
}

func codecDirect(seed uint64, tier string, args []string, w *bufio.Writer) {
	fail := func(key, msg string) { fmt.Fprintf(w, "DIRECT-FAIL key=codec.%s %s\n", key, msg) }
	{
		n, size := 10, 300<<10
		if tier == "thorough" {
			n, size = 40, 1<<20
		}
		if ok, why := codecRealTransport(seed, n, size); !ok {
			fail("real-transport", why)
		}
		// long chains of small items, each written from the completion callback of the one before and completing at once: the
		// chain is cut at the dispatch limit, the item that is parked there goes out like the others (growing / shrinking sizes)
		for _, c := range [][3]int{{45, 40, 7}, {70, 600, -7}, {33, 10, 9}} {
			codecItemStep = c[2]
			if ok, why := codecRealTransport(seed+uint64(c[0]), c[0], c[1]); !ok {
				fail("real-transport", fmt.Sprintf("chain of %d items (sizes %d%+d per item): %s", c[0], c[1], c[2], why))
			}
		}
		codecItemStep = 7
		if ok, why := codecCancelResume(); !ok {
			fail("real-transport", "cancel and resume: "+why)
		}
		// large items to a peer that drains as fast as they are written: one AsyncWriteNext is many short writes in a row
		for _, v := range [][2]int{{16 << 10, 3000}, {100, 1500}, {70000, 9000}} {
			if ok, why := codecBurstRead(v[0], v[1]); !ok {
				fail("real-transport", "burst read: "+why)
			}
		}
		// a frame of 9 / 20 MiB with small frames right behind it in the same write (the source buffer grows to tens of MiB and is
		// drained with the next frames already in it)
		if memAvailableKiB() >= 4<<20 {
			codecBurstTogether = true
			for _, v := range [][2]int{{9 << 20, 5}, {20 << 20, 40}, {300 << 10, 10}} {
				if ok, why := codecBurstRead(v[0], v[1]); !ok {
					fail("real-transport", "large frame and small ones in one write: "+why)
				}
			}
			codecBurstTogether = false
		}
		for _, v := range [][3]int{{1, 80, 1 << 20}, {1, 25, 4 << 20}, {2, 14, 24 << 20}} {
			fn := v[1]
			if tier == "thorough" {
				fn *= 4
			}
			if memAvailableKiB() < 4<<20 {
				break
			}
			codecFastPeer = v[0]
			if ok, why := codecRealTransport(seed+99, fn, v[2]); !ok {
				fail("real-transport", fmt.Sprintf("%d items of %d MiB to a peer that reads concurrently (buffers: %d): %s", fn, v[2]>>20, v[0], why))
			}
		}
		codecFastPeer = 0
	}
	// the encoder at the limit: payloads of MaxPayloadLength - 1 and MaxPayloadLength are accepted, one byte more is refused
	// (Encode only; the full round trip through a connection is left to the thorough tier). The payload pages are never
	// touched, the destination buffer is: about 1 GiB resident for a moment.
	limitSizes := []int{frame.MaxPayloadLength - 1, frame.MaxPayloadLength, frame.MaxPayloadLength + 1}
	if avail := memAvailableKiB(); avail < 8<<20 {
		// not enough free memory to be sure the probe cannot be killed: skipped, never a verdict
		limitSizes = nil
	}
	for _, size := range limitSizes {
		func() {
			defer func() {
				if p := recover(); p != nil {
					fail("limit", fmt.Sprintf("Encode of %d bytes panicked: %v", size, p))
				}
			}()
			src, dst := sonic.NewByteBuffer(), sonic.NewByteBuffer()
			err := frame.NewCodec(src).Encode(make([]byte, size), dst)
			switch {
			case size <= frame.MaxPayloadLength && err != nil:
				fail("limit", fmt.Sprintf("Encode refuses a payload of %d bytes (limit %d): %v", size, frame.MaxPayloadLength, err))
			case size > frame.MaxPayloadLength && err == nil:
				fail("limit", fmt.Sprintf("Encode accepts a payload of %d bytes (limit %d)", size, frame.MaxPayloadLength))
			case err == nil && dst.ReadLen()+dst.WriteLen() != size+frame.HeaderLen:
				fail("limit", fmt.Sprintf("Encode of %d bytes left %d bytes in the destination", size, dst.ReadLen()+dst.WriteLen()))
			}
		}()
		debug.FreeOSMemory()
	}
	if tier != "thorough" {
		fmt.Fprintf(w, "DIRECT-STAT {\"codec_real_transport_items\": 10, \"codec_limit_roundtrip\": \"encoder only (full round trip in the thorough tier)\"}\n")
		return
	}
	r := newRng(seed)
	sizes := []int{frame.MaxPayloadLength - 1, frame.MaxPayloadLength}
	done := 0
	for _, size := range sizes {
		st := &codecBigStream{wire: make([]byte, 0, size+8), maxWrite: 1 << (20 + r.intn(10))}
		src, dst := sonic.NewByteBuffer(), sonic.NewByteBuffer()
		conn, _ := sonic.NewCodecConn[[]byte, []byte](st, frame.NewCodec(src), src, dst)
		payload := make([]byte, size)
		for i := range payload {
			payload[i] = codecPattern(i)
		}
		n, err := conn.WriteNext(payload)
		payload = nil
		if err != nil || n != size+4 || dst.ReadLen() != 0 || dst.WriteLen() != 0 {
			fail("write.flush", fmt.Sprintf("WriteNext of %d bytes: n=%d err=%v dst=%d/%d", size, n, err, dst.ReadLen(), dst.WriteLen()))
			continue
		}
		if len(st.wire) != size+4 || binary.BigEndian.Uint32(st.wire) != uint32(size) {
			fail("write.wire", fmt.Sprintf("wire holds %d bytes for a payload of %d", len(st.wire), size))
			continue
		}
		dst = nil
		st.cuts = []int{1, 2, 1 + r.intn(1000), 1 + r.intn(size), 1 + r.intn(size)} // the first two cuts are inside the prefix
		item, err := conn.ReadNext()
		if err != nil || len(item) != size {
			fail("read.item", fmt.Sprintf("ReadNext of a %d-byte item: len=%d err=%v", size, len(item), err))
			continue
		}
		bad := -1
		for i := range item {
			if item[i] != codecPattern(i) {
				bad = i
				break
			}
		}
		if bad >= 0 {
			fail("read.item", fmt.Sprintf("payload of %d bytes differs at offset %d", size, bad))
			continue
		}
		if _, err := conn.ReadNext(); !errors.Is(err, sonicerrors.ErrWouldBlock) {
			fail("read.item", fmt.Sprintf("a second item appeared after the %d-byte one: err=%v", size, err))
			continue
		}
		done++
	}
	// one byte over the limit: refused by the encoder, nothing buffered, nothing written
	{
		st := &codecBigStream{}
		src, dst := sonic.NewByteBuffer(), sonic.NewByteBuffer()
		conn, _ := sonic.NewCodecConn[[]byte, []byte](st, frame.NewCodec(src), src, dst)
		capBefore := dst.Cap()
		n, err := conn.WriteNext(make([]byte, frame.MaxPayloadLength+1))
		if !errors.Is(err, frame.ErrPayloadLengthOverflow) || n != 0 || len(st.wire) != 0 || dst.Cap() != capBefore || dst.WriteLen() != 0 {
			fail("write.wire", fmt.Sprintf("WriteNext of limit+1 bytes: n=%d err=%v wire=%d cap %d->%d", n, err, len(st.wire), capBefore, dst.Cap()))
		} else {
			done++
		}
	}
	fmt.Fprintf(w, "DIRECT-STAT {\"codec_limit_roundtrip\": \"%d of 3 limit-size checks passed (limit-1, limit, limit+1 refused)\"}\n", done)
}
