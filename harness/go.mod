module verifharness

go 1.24.1

require (
	github.com/talostrading/sonic v0.0.0
	golang.org/x/sys v0.11.0
)

require github.com/HdrHistogram/hdrhistogram-go v1.1.2 // indirect

replace github.com/talostrading/sonic => /repo
