package main

// Component "loop": the real event loop (sonic.IO) with real descriptors: TCP connections (sonic.Dial against a
// std-library peer), FIFOs and regular files (sonic.Open), AsyncAdapter-wrapped net.Conn, listeners, packet
// connections, timers and posted handlers, all sharing one IO context per script.
//
// The trace is an event stream ("<" lines) in execution order:
//
//	< call <action> d=<depth>        an API call is made (top level or from inside a completion handler)
//	< enter <op> <res> n=<n> ...     the completion callback of operation <op> is entered
//	< exit <op>
//	< ret <result>                   the API call returned
//
// Handler behaviour is scripted with "! prog <op> a ; b ; c" (actions run inside the callback of <op>) and
// "chain=<k>" (the callback re-issues the same operation k more times). Everything the kernel decides (is data
// there yet, did the write block, which descriptors are in one epoll batch and in which order) is visible only
// through the order of the events; the acceptor never predicts it.

import (
	"bufio"
	"errors"
	"fmt"
	"io"
	"net"
	"net/netip"
	"os"
	"os/signal"
	"path/filepath"
	"runtime"
	"sort"
	"strconv"
	"strings"
	"sync"
	"sync/atomic"
	"syscall"
	"time"

	"github.com/talostrading/sonic"
	"github.com/talostrading/sonic/multicast"
	"github.com/talostrading/sonic/sonicerrors"
	"golang.org/x/sys/unix"
)

func init() {
	components["loop"] = &component{gen: loopGen, enum: loopEnum, run: loopRun}
}

const loopTick = 12 * time.Millisecond

type loopObj struct {
	kind      string
	file      sonic.File          // fifo, regular
	conn      sonic.Conn          // tcp
	adp       *sonic.AsyncAdapter // adapter
	nc        net.Conn            // adapter's net.Conn
	timer     *sonic.Timer
	ln        sonic.Listener
	pc        sonic.PacketConn
	mp        *multicast.UDPPeer // mpeer
	sab       []int              // descriptors held by a sabotage
	packets   bool               // FIFO in packet mode
	adopted   int                // listener: accepted connections that became objects (adopt)
	stolen    int                // listener: connections taken with the blocking Accept (peer k steal)
	peer      net.Conn           // tcp/adapter peer
	peerFd    int                // fifo peer end (-1 if closed)
	peerPC    *net.UDPConn       // packet peer
	path      string
	closed    bool
	rxOff     int    // bytes the peer has written so far (position of the next byte)
	rxDone    int    // bytes handed to the application by completed reads
	shared    []byte // samebuf=1: the one buffer every read of this object uses
	peerGone  bool   // the peer closed, shut down or reset its end
	accepted  []sonic.Conn
	peerConns []net.Conn
}

// owedReads: stream reads in flight whose bytes have all arrived (the peer wrote them, no completed read has taken them).
func (lw *loopWorld) owedReads(ids []int, settled bool) []string {
	var owed []string
	if !settled {
		return nil
	}
	for _, id := range ids {
		op := lw.ops[id]
		o := lw.objs[op.obj]
		if op.kind != "read" || op.need <= 0 || o == nil || len(o.sab) != 0 || (o.kind != "tcp" && o.kind != "adapter" && o.kind != "fifo") {
			continue
		}
		if o.rxOff-o.rxDone >= op.need && o.peerOpenForWrites() {
			owed = append(owed, strconv.Itoa(id))
		}
	}
	return owed
}

// peerOpenForWrites: the peer end is still there (after a peer close / reset the bytes it had written may be gone with it).
func (o *loopObj) peerOpenForWrites() bool {
	if o.kind == "fifo" {
		return o.peerFd >= 0
	}
	return o.peer != nil && !o.peerGone
}

type loopOp struct {
	obj   int
	kind  string // read write timer post accept recvfrom sendto
	chain bool   // re-issues itself from its callback
	need  int    // stream reads: bytes that complete the operation (1 for Read, the buffer length for ReadAll; 0: none)
	rep   bool
	done  bool
	t0    time.Time
	delay time.Duration
}

type loopWorld struct {
	w      *bufio.Writer
	ioc    *sonic.IO
	objs   map[int]*loopObj
	progs  map[int][]string
	ops    map[int]*loopOp
	nextOp int
	depth  int
	tmp    string
	keep   [][]byte      // buffers kept alive
	tid    int           // OS thread the loop runs on (signals are aimed at it)
	dead   bool          // a run call had to be broken out of: the IO context is in an unknown state, the script stops
	slept  time.Duration // total of the script's own `sleep` actions (inside callbacks too)
}

// loopHang is the panic value with which the watchdog breaks out of a RunOne/RunPending that does not return.
type loopHang struct{}

var loopSigOnce sync.Once

// signalAfter interrupts the loop thread (SIGUSR1, handled and ignored by the Go runtime) after d: an epoll_wait in
// progress returns EINTR.
func (lw *loopWorld) signalAfter(d time.Duration) {
	loopSigOnce.Do(func() { signal.Notify(make(chan os.Signal, 64), syscall.SIGUSR1) })
	tid := lw.tid
	go func() {
		time.Sleep(d)
		_ = syscall.Tgkill(syscall.Getpid(), tid, syscall.SIGUSR1)
	}()
}

// runnable: may RunOne / RunPending be called now without blocking forever on correct code?  Every operation in
// flight must be able to complete without further stimulus once its peer has been fed (done here), must not re-issue
// itself or run a handler program, and no repeating timer may be armed. Returns the longest timer delay to wait for.
func (lw *loopWorld) runnable(needOne bool) (bool, time.Duration) {
	if lw.depth != 0 || lw.ioc.Dispatched != 0 {
		return false, 0
	}
	var ids []int
	for id, op := range lw.ops {
		if op.done {
			continue
		}
		if op.kind != "post" {
			if ob := lw.objs[op.obj]; ob == nil || ob.closed {
				continue
			}
		}
		if op.rep || op.chain || len(lw.progs[id]) > 0 || op.kind == "write" {
			return false, 0
		}
		if op.kind == "read" && lw.objs[op.obj].kind == "regular" {
			return false, 0
		}
		ids = append(ids, id)
	}
	if needOne && len(ids) == 0 {
		return false, 0
	}
	sort.Ints(ids)
	maxWait := time.Duration(0)
	for _, id := range ids {
		op := lw.ops[id]
		switch op.kind {
		case "read":
			switch lw.objs[op.obj].kind {
			case "tcp", "adapter", "fifo":
				lw.peer([]string{"peer", strconv.Itoa(op.obj), "write", "300"})
			case "listener":
				lw.peer([]string{"peer", strconv.Itoa(op.obj), "connect"})
			case "packet", "mpeer":
				lw.peer([]string{"peer", strconv.Itoa(op.obj), "send", "8"})
			}
		case "timer":
			if w := time.Until(op.t0.Add(op.delay)); w > maxWait {
				maxWait = w
			}
		}
	}
	return true, maxWait
}

func streamByte(k, i int) byte { return byte((i*7 + k*13 + 1) % 251) }
func opByte(id, j int) byte    { return byte((j*11 + id*17 + 3) % 251) }

func errClass(err error) string {
	if err == nil {
		return "nil"
	}
	switch {
	case errors.Is(err, io.EOF):
		return "eof"
	case errors.Is(err, sonicerrors.ErrCancelled):
		return "cancelled"
	case errors.Is(err, sonicerrors.ErrWouldBlock):
		return "wouldblock"
	case errors.Is(err, sonicerrors.ErrTimeout):
		return "timeout"
	}
	var en syscall.Errno
	if errors.As(err, &en) {
		return "sys-" + unix.ErrnoName(en)
	}
	return "other"
}

func hexOrDash(b []byte) string {
	if len(b) == 0 {
		return "-"
	}
	const hexd = "0123456789abcdef"
	out := make([]byte, 0, 2*len(b))
	for _, x := range b {
		out = append(out, hexd[x>>4], hexd[x&15])
	}
	return string(out)
}

func (lw *loopWorld) ev(format string, a ...any) {
	fmt.Fprintf(lw.w, "< "+format+"\n", a...)
}

func attr(fields []string, key string) (string, bool) {
	for _, f := range fields {
		if strings.HasPrefix(f, key+"=") {
			return f[len(key)+1:], true
		}
	}
	return "", false
}

func (lw *loopWorld) opID(fields []string) int {
	v, ok := attr(fields, "op")
	if !ok || v == "+" {
		lw.nextOp++
		return lw.nextOp
	}
	return atoi(v)
}

// runProg executes the handler body of op inside its callback.
func (lw *loopWorld) entered(op int, res string, reissue func()) {
	lw.depth++
	lw.ev("enter %d %s d=%d", op, res, lw.depth)
	if o := lw.ops[op]; o != nil && !o.rep {
		o.done = true
	}
	for _, a := range lw.progs[op] {
		lw.exec(strings.Fields(a))
	}
	if reissue != nil {
		reissue()
	}
	lw.ev("exit %d", op)
	lw.depth--
}

func withAttr(fields []string, key, val string) []string {
	out := make([]string, 0, len(fields)+1)
	for _, f := range fields {
		if !strings.HasPrefix(f, key+"=") {
			out = append(out, f)
		}
	}
	return append(out, key+"="+val)
}

// chainNext returns the re-issue closure for "chain=k".
func (lw *loopWorld) chainNext(fields []string) func() {
	v, ok := attr(fields, "chain")
	if !ok {
		return nil
	}
	k := atoi(v)
	if k <= 0 {
		// "then=<action, '_' for spaces>": what the innermost callback of the chain does
		if t, ok := attr(fields, "then"); ok {
			act := strings.Fields(strings.ReplaceAll(t, "_", " "))
			return func() { lw.exec(act) }
		}
		return nil
	}
	next := withAttr(withAttr(fields, "chain", strconv.Itoa(k-1)), "op", "+")
	return func() { lw.exec(next) }
}

func (lw *loopWorld) exec(f []string) {
	if len(f) == 0 || lw.dead {
		return
	}
	call := strings.Join(f, " ")
	// The documented usage: at most one read and one write in flight per object, nothing started on a closed
	// object. The script is static, so the precondition is enforced here, at run time.
	switch f[0] {
	case "read", "readall", "write", "writeall", "accept", "recvfrom", "sendto", "cancel":
		k := atoi(f[1])
		o := lw.objs[k]
		if o == nil || o.closed {
			return
		}
		dir := "write"
		if f[0][0] == 'r' || f[0] == "accept" {
			dir = "read"
		}
		if f[0] != "cancel" {
			for _, op := range lw.ops {
				if op.obj == k && op.kind == dir && !op.done {
					return
				}
			}
		}
	case "sched", "tcancel", "scheduled":
		if o := lw.objs[atoi(f[1])]; o == nil || o.timer == nil {
			return
		}
	case "close":
		if o := lw.objs[atoi(f[1])]; o == nil {
			return
		}
	}
	switch f[0] {
	case "read", "readall", "write", "writeall":
		k, n := atoi(f[1]), atoi(f[2])
		id := lw.opID(f)
		f = withAttr(f, "op", strconv.Itoa(id))
		lw.ev("call %s d=%d", strings.Join(f, " "), lw.depth)
		o := lw.objs[k]
		isRead := f[0][0] == 'r'
		dir := "write"
		if isRead {
			dir = "read"
		}
		_, chained := attr(f, "chain")
		lw.ops[id] = &loopOp{obj: k, kind: dir, chain: chained}
		if isRead {
			lw.ops[id].need = 1
			if f[0] == "readall" {
				lw.ops[id].need = n
			}
			if n == 0 {
				lw.ops[id].need = 0
			}
		}
		b := make([]byte, n)
		if _, same := attr(f, "samebuf"); same && isRead {
			if len(lw.objs[k].shared) != n {
				lw.objs[k].shared = make([]byte, n)
			}
			b = lw.objs[k].shared
		}
		lw.keep = append(lw.keep, b)
		if !isRead {
			for j := range b {
				b[j] = opByte(id, j)
			}
		}
		re := lw.chainNext(f)
		cb := func(err error, m int) {
			if isRead {
				mm := m
				if mm < 0 || mm > len(b) {
					mm = 0
				}
				o.rxDone += mm
				lw.entered(id, fmt.Sprintf("%s n=%d data=%s", errClass(err), m, hexOrDash(b[:mm])), re)
			} else {
				if err != nil && o.kind == "tcp" && !o.closed && !errors.Is(err, sonicerrors.ErrCancelled) {
					// a write that failed for good: the kernel's own count of payload bytes it has put on the wire for this
					// connection is a lower bound for what the writes so far have moved
					if info, e := unix.GetsockoptTCPInfo(lw.rawFd(o), unix.SOL_TCP, unix.TCP_INFO); e == nil {
						// (bytes handed to the network for the first time: sent minus retransmitted; never less than what
						// the peer acknowledged, which counts the SYN as one byte)
						low := info.Bytes_sent - info.Bytes_retrans
						if info.Bytes_acked > low+1 {
							low = info.Bytes_acked - 1
						}
						fmt.Fprintf(lw.w, "? acked %d %d\n", k, low)
					}
				}
				lw.entered(id, fmt.Sprintf("%s n=%d", errClass(err), m), re)
			}
		}
		var rw interface {
			AsyncRead([]byte, sonic.AsyncCallback)
			AsyncReadAll([]byte, sonic.AsyncCallback)
			AsyncWrite([]byte, sonic.AsyncCallback)
			AsyncWriteAll([]byte, sonic.AsyncCallback)
		}
		switch o.kind {
		case "tcp":
			rw = o.conn
		case "fifo", "fifow", "regular":
			rw = o.file
		case "adapter":
			rw = o.adp
		}
		switch f[0] {
		case "read":
			rw.AsyncRead(b, cb)
		case "readall":
			rw.AsyncReadAll(b, cb)
		case "write":
			rw.AsyncWrite(b, cb)
		case "writeall":
			rw.AsyncWriteAll(b, cb)
		}
		lw.ev("ret")
	case "cancel":
		lw.ev("call %s d=%d", call, lw.depth)
		o := lw.objs[atoi(f[1])]
		switch o.kind {
		case "tcp":
			o.conn.Cancel()
		case "fifo", "fifow", "regular":
			o.file.Cancel()
		case "adapter":
			o.adp.Cancel()
		}
		lw.ev("ret")
	case "close":
		lw.ev("call %s d=%d", call, lw.depth)
		o := lw.objs[atoi(f[1])]
		var err error
		switch o.kind {
		case "tcp":
			err = o.conn.Close()
		case "fifo", "fifow", "regular":
			err = o.file.Close()
		case "adapter":
			err = o.adp.Close()
		case "listener":
			err = o.ln.Close()
		case "packet":
			err = o.pc.Close()
		case "mpeer":
			err = o.mp.Close()
		case "timer":
			err = o.timer.Close()
		}
		o.closed = true
		for _, op := range lw.ops {
			if op.obj == atoi(f[1]) && op.kind != "post" {
				op.done = true
			}
		}
		lw.ev("ret err=%s", errClass(err))
	case "sched":
		k := atoi(f[1])
		id := lw.opID(f)
		f = withAttr(f, "op", strconv.Itoa(id))
		lw.ev("call %s d=%d", strings.Join(f, " "), lw.depth)
		ticks := atoi(f[3])
		delay := time.Duration(ticks) * loopTick
		if v, ok := attr(f, "ns"); ok {
			// a delay given in nanoseconds (below one tick, below one microsecond): still a positive delay
			delay = time.Duration(atoi(v))
		}
		op := &loopOp{obj: k, kind: "timer", rep: f[2] == "rep", t0: time.Now(), delay: delay}
		lw.ops[id] = op
		last := op.t0
		cb := func() {
			now := time.Now()
			early := now.Sub(last) < delay
			last = now
			lw.entered(id, fmt.Sprintf("timer n=0 early=%v", early), nil)
		}
		var err error
		if f[2] == "rep" {
			err = lw.objs[k].timer.ScheduleRepeating(delay, cb)
		} else {
			err = lw.objs[k].timer.ScheduleOnce(delay, cb)
		}
		if err != nil {
			op.done = true
		}
		lw.ev("ret err=%s", errClass(err))
	case "tcancel":
		lw.ev("call %s d=%d", call, lw.depth)
		err := lw.objs[atoi(f[1])].timer.Cancel()
		if err == nil {
			for _, op := range lw.ops {
				if op.obj == atoi(f[1]) && op.kind == "timer" {
					op.done = true
				}
			}
		}
		lw.ev("ret err=%s", errClass(err))
	case "scheduled":
		lw.ev("call %s d=%d", call, lw.depth)
		lw.ev("ret %v", lw.objs[atoi(f[1])].timer.Scheduled())
	case "post":
		id := lw.opID(f)
		f = withAttr(f, "op", strconv.Itoa(id))
		lw.ev("call %s d=%d", strings.Join(f, " "), lw.depth)
		lw.ops[id] = &loopOp{obj: 0, kind: "post"}
		err := lw.ioc.Post(func() { lw.entered(id, "post n=0", nil) })
		lw.ev("ret err=%s", errClass(err))
	case "accept":
		k := atoi(f[1])
		id := lw.opID(f)
		f = withAttr(f, "op", strconv.Itoa(id))
		lw.ev("call %s d=%d", strings.Join(f, " "), lw.depth)
		lw.ops[id] = &loopOp{obj: k, kind: "read"}
		o := lw.objs[k]
		re := lw.chainNext(f)
		o.ln.AsyncAccept(func(err error, c sonic.Conn) {
			if c != nil {
				o.accepted = append(o.accepted, c)
			}
			lw.entered(id, fmt.Sprintf("%s n=%d", errClass(err), b2i(c != nil)), re)
		})
		lw.ev("ret")
	case "recvfrom":
		k, n := atoi(f[1]), atoi(f[2])
		id := lw.opID(f)
		f = withAttr(f, "op", strconv.Itoa(id))
		lw.ev("call %s d=%d", strings.Join(f, " "), lw.depth)
		lw.ops[id] = &loopOp{obj: k, kind: "read"}
		b := make([]byte, n)
		if _, same := attr(f, "samebuf"); same {
			// the application's one receive buffer, handed to every read of this object (with a callback of its own each time)
			if len(lw.objs[k].shared) != n {
				lw.objs[k].shared = make([]byte, n)
			}
			b = lw.objs[k].shared
		}
		lw.keep = append(lw.keep, b)
		re := lw.chainNext(f)
		o := lw.objs[k]
		if o.kind == "mpeer" {
			o.mp.AsyncRead(b, func(err error, m int, from netip.AddrPort) {
				mm := m
				if mm < 0 || mm > len(b) {
					mm = 0
				}
				fromOK := "none"
				if from.IsValid() && o.peerPC != nil {
					if ap, ok := o.peerPC.LocalAddr().(*net.UDPAddr); ok && int(from.Port()) == ap.Port {
						fromOK = "peer"
					} else {
						fromOK = "other"
					}
				}
				lw.entered(id, fmt.Sprintf("%s n=%d data=%s from=%s", errClass(err), m, hexOrDash(b[:mm]), fromOK), re)
			})
			lw.ev("ret")
			return
		}
		o.pc.AsyncReadFrom(b, func(err error, m int, from net.Addr) {
			mm := m
			if mm < 0 || mm > len(b) {
				mm = 0
			}
			fromOK := "none"
			if from != nil && o.peerPC != nil {
				if from.String() == o.peerPC.LocalAddr().String() {
					fromOK = "peer"
				} else {
					fromOK = "other"
				}
			}
			lw.entered(id, fmt.Sprintf("%s n=%d data=%s from=%s", errClass(err), m, hexOrDash(b[:mm]), fromOK), re)
		})
		lw.ev("ret")
	case "sendto":
		k, n := atoi(f[1]), atoi(f[2])
		id := lw.opID(f)
		f = withAttr(f, "op", strconv.Itoa(id))
		lw.ev("call %s d=%d", strings.Join(f, " "), lw.depth)
		lw.ops[id] = &loopOp{obj: k, kind: "write"}
		b := make([]byte, n)
		for j := range b {
			b[j] = opByte(id, j)
		}
		re := lw.chainNext(f)
		o := lw.objs[k]
		if o.kind == "mpeer" {
			ap := o.peerPC.LocalAddr().(*net.UDPAddr)
			o.mp.AsyncWrite(b, netip.AddrPortFrom(netip.AddrFrom4([4]byte{127, 0, 0, 1}), uint16(ap.Port)), func(err error, m int) {
				lw.entered(id, fmt.Sprintf("%s n=%d", errClass(err), n), re)
			})
			lw.ev("ret")
			return
		}
		o.pc.AsyncWriteTo(b, o.peerPC.LocalAddr(), func(err error) {
			lw.entered(id, fmt.Sprintf("%s n=%d", errClass(err), n), re)
		})
		lw.ev("ret")
	case "wdeadline":
		// a write deadline on the adapted net.Conn: a large write then fails half way (bytes moved and an error)
		if o := lw.objs[atoi(f[1])]; o != nil && o.nc != nil {
			_ = o.nc.SetWriteDeadline(time.Now().Add(time.Duration(atoi(f[2])) * loopTick))
		}
	case "sabotage":
		// the descriptor is closed underneath the object and its number reused (dup2 of the write end of a full pipe):
		// epoll forgets the old registration, later EPOLL_CTL_MOD/DEL for this number fail, writes would block
		o := lw.objs[atoi(f[1])]
		if o == nil || o.closed || (o.kind != "fifo" && o.kind != "tcp") {
			return
		}
		var p [2]int
		if err := syscall.Pipe2(p[:], syscall.O_NONBLOCK|syscall.O_CLOEXEC); err != nil {
			return
		}
		junk := make([]byte, 4096)
		for {
			if _, err := syscall.Write(p[1], junk); err != nil {
				break
			}
		}
		lw.ev("call peer %s other d=%d", f[1], lw.depth)
		err := syscall.Dup2(p[1], lw.rawFd(o))
		o.sab = append(o.sab, p[0], p[1])
		lw.ev("ret %s", map[bool]string{true: "ok", false: "fail"}[err == nil])
	case "setdisp":
		lw.ev("call %s d=%d", call, lw.depth)
		lw.ioc.Dispatched = atoi(f[1])
		lw.ev("ret")
	case "peer":
		if lw.objs[atoi(f[1])] != nil {
			lw.peer(f)
		}
	case "dupfd":
		// a second descriptor for the object's open file description (what a dup(2), a descriptor passed to another process or a
		// child started without close-on-exec leaves behind): it outlives the object; epoll registrations belong to the
		// description, so whatever the object registered must be removed by the object itself
		o := lw.objs[atoi(f[1])]
		if o == nil || o.closed || (o.kind != "fifo" && o.kind != "tcp") {
			return
		}
		if d, err := syscall.Dup(lw.rawFd(o)); err == nil {
			syscall.CloseOnExec(d)
			o.sab = append(o.sab, d)
		}
	case "poll":
		lw.ev("call poll d=%d", lw.depth)
		t0, slept0 := time.Now(), lw.slept
		n, err := lw.ioc.PollOne()
		if el := time.Since(t0) - (lw.slept - slept0); el > 1500*time.Millisecond && lw.depth == 0 {
			// PollOne "will return immediately in case there is no event to process": 1.5 s beyond what the callbacks of this
			// script slept means the loop goroutine was blocked inside the poller
			fmt.Fprintf(lw.w, "? blocked %d\n", el.Milliseconds())
		}
		lw.ev("ret n=%d err=%s", n, errClass(err))
	case "idlepoll":
		// a PollOne at a point where the script's author knows nothing can be ready (no peer action, no timer armed, no handler
		// posted since a state in which every wait had been satisfied): it must report a timeout, not success
		fmt.Fprintf(lw.w, "? idle\n")
		lw.ev("call poll d=%d", lw.depth)
		n, err := lw.ioc.PollOne()
		lw.ev("ret n=%d err=%s", n, errClass(err))
	case "pollfor":
		lw.ev("call poll d=%d", lw.depth)
		err := lw.ioc.RunOneFor(time.Duration(atoi(f[1])) * loopTick)
		lw.ev("ret n=-1 err=%s", errClass(err))
	case "pollsig":
		// RunOneFor interrupted by a signal: reported as a timeout (possibly early), never as an error
		lw.ev("call poll d=%d", lw.depth)
		d := time.Duration(atoi(f[1])) * loopTick
		lw.signalAfter(d / 3)
		err := lw.ioc.RunOneFor(d)
		lw.ev("ret n=-1 err=%s", errClass(err))
	case "runone", "runpending":
		ok, wait := lw.runnable(f[0] == "runone")
		if !ok {
			return
		}
		lw.ev("call poll d=%d", lw.depth)
		var active int32 = 1
		wd := time.AfterFunc(wait+4*time.Second, func() {
			_ = lw.ioc.Post(func() {
				if atomic.LoadInt32(&active) == 1 {
					panic(loopHang{})
				}
			})
		})
		if _, sig := attr(f, "sig"); sig {
			lw.signalAfter(time.Millisecond)
			lw.signalAfter(3 * time.Millisecond)
		}
		hung := false
		var err error
		func() {
			defer func() {
				if r := recover(); r != nil {
					if _, isHang := r.(loopHang); !isHang {
						panic(r)
					}
					hung = true
				}
			}()
			if f[0] == "runone" {
				err = lw.ioc.RunOne()
			} else {
				err = lw.ioc.RunPending()
			}
		}()
		atomic.StoreInt32(&active, 0)
		code := -1
		if f[0] == "runpending" {
			code = -2
		}
		if hung {
			lw.ev("ret n=%d err=hang", code)
			lw.dead = true
			return
		}
		if !wd.Stop() {
			lw.dead = true // the watchdog's handler may still be queued: nothing further can be compared
		}
		lw.ev("ret n=%d err=%s", code, errClass(err))
	case "sleep":
		time.Sleep(time.Duration(atoi(f[1])) * loopTick)
		lw.slept += time.Duration(atoi(f[1])) * loopTick
	case "pending":
		lw.ev("call pending d=%d", lw.depth)
		lw.ev("ret pending=%d posted=%d disp=%d", lw.ioc.Pending(), lw.ioc.Posted(), lw.ioc.Dispatched)
	case "finish":
		lw.finish()
	default:
		panic("loop: bad action " + call)
	}
}

func b2i(b bool) int {
	if b {
		return 1
	}
	return 0
}

// waitReadable waits (bounded) until fd is readable/hung up per poll(2): loopback delivery is not instantaneous.
func waitReady(fd int, events int16, ms int) int16 {
	pfd := []unix.PollFd{{Fd: int32(fd), Events: events}}
	for i := 0; i < 3; i++ {
		n, err := unix.Poll(pfd, ms)
		if err == syscall.EINTR {
			continue
		}
		if n > 0 {
			return pfd[0].Revents
		}
		return 0
	}
	return 0
}

func (lw *loopWorld) rawFd(o *loopObj) int {
	switch o.kind {
	case "tcp":
		return o.conn.RawFd()
	case "fifo", "fifow", "regular":
		return o.file.RawFd()
	case "adapter":
		return o.adp.RawFd()
	case "listener":
		return o.ln.RawFd()
	case "packet":
		return o.pc.RawFd()
	case "mpeer":
		return o.mp.NextLayer().RawFd()
	}
	return -1
}

func (lw *loopWorld) peer(f []string) {
	k := atoi(f[1])
	o := lw.objs[k]
	call := strings.Join(f, " ")
	lw.ev("call %s d=%d", call, lw.depth)
	res := "ok"
	switch f[2] {
	case "write":
		n := atoi(f[3])
		b := make([]byte, n)
		for i := range b {
			b[i] = streamByte(k, o.rxOff+i)
		}
		var err error
		if o.kind == "fifo" {
			if o.peerFd >= 0 && o.packets {
				// packet mode: packets of at most 4 bytes (a read with a smaller buffer would discard the rest of a packet;
				// the scenarios read with 8 bytes or more)
				for off := 0; off < len(b) && err == nil; off += 4 {
					_, err = syscall.Write(o.peerFd, b[off:min(off+4, len(b))])
				}
			} else if o.peerFd >= 0 {
				_, err = syscall.Write(o.peerFd, b)
			} else {
				err = io.ErrClosedPipe
			}
		} else if o.peer != nil {
			_ = o.peer.SetWriteDeadline(time.Now().Add(500 * time.Millisecond))
			_, err = o.peer.Write(b)
		} else {
			err = io.ErrClosedPipe
		}
		if err != nil {
			res = "fail"
		} else {
			o.rxOff += n
			if !o.closed {
				waitReady(lw.rawFd(o), unix.POLLIN, 200)
			}
		}
	case "steal":
		// somebody else (the blocking twin Accept, another process sharing the socket) takes the queued connection
		if (o.kind == "mpeer" || o.kind == "packet") && !o.closed {
			// ... or takes the queued datagram with the blocking Read (the scenarios queue an empty one: no bytes go missing)
			b := make([]byte, 64)
			var err error
			if o.kind == "mpeer" {
				_, _, err = o.mp.Read(b)
			} else {
				_, _, err = o.pc.ReadFrom(b)
			}
			if err != nil && !errors.Is(err, io.EOF) {
				res = "none"
			}
		} else if o.kind != "listener" || o.closed {
			res = "fail"
		} else if c, err := o.ln.Accept(); err != nil {
			res = "none"
		} else {
			o.stolen++
			_ = c.Close()
		}
	case "packetmode":
		// the writer's end of the FIFO switches to packet mode (O_DIRECT, pipe(7)): every write is a packet, a read returns one
		// packet at a time — a descriptor that keeps message boundaries, so that reads come back short while more is queued
		if o.kind != "fifo" || o.peerFd < 0 {
			res = "fail"
		} else if fl, err := unix.FcntlInt(uintptr(o.peerFd), syscall.F_GETFL, 0); err != nil {
			res = "fail"
		} else if _, err := unix.FcntlInt(uintptr(o.peerFd), syscall.F_SETFL, fl|syscall.O_DIRECT); err != nil {
			res = "fail"
		} else {
			// a packet occupies a whole pipe buffer (16 by default): room for 256 packets
			_, _ = unix.FcntlInt(uintptr(o.peerFd), unix.F_SETPIPE_SZ, 1<<20)
			o.packets = true
		}
	case "close":
		if o.kind == "fifo" || o.kind == "fifow" {
			if o.peerFd >= 0 {
				_ = syscall.Close(o.peerFd)
				o.peerFd = -1
			}
		} else if o.peer != nil {
			_ = o.peer.Close()
			o.peer = nil
		}
		if !o.closed {
			waitReady(lw.rawFd(o), unix.POLLIN, 200)
		}
	case "shutwr":
		if tc, ok := o.peer.(*net.TCPConn); ok && tc != nil {
			_ = tc.CloseWrite()
			if !o.closed {
				waitReady(lw.rawFd(o), unix.POLLIN, 200)
			}
		}
	case "rst":
		if tc, ok := o.peer.(*net.TCPConn); ok && tc != nil {
			_ = tc.SetLinger(0)
			_ = tc.Close()
			o.peer = nil
			if !o.closed {
				waitReady(lw.rawFd(o), unix.POLLIN, 200)
			}
		}
	case "drain":
		// read everything the library side has written so far
		var got []byte
		if o.kind == "fifo" {
			res = "n/a"
		} else if o.kind == "fifow" {
			buf := make([]byte, 1<<16)
			for o.peerFd >= 0 {
				n, err := syscall.Read(o.peerFd, buf)
				if n > 0 {
					got = append(got, buf[:n]...)
				}
				if err != nil || n <= 0 {
					break
				}
			}
			res = fmt.Sprintf("len=%d data=%s", len(got), hexOrDash(got))
		} else if o.peer != nil {
			buf := make([]byte, 1<<16)
			for {
				_ = o.peer.SetReadDeadline(time.Now().Add(15 * time.Millisecond))
				n, err := o.peer.Read(buf)
				got = append(got, buf[:n]...)
				if err != nil || n == 0 {
					break
				}
			}
			res = fmt.Sprintf("len=%d data=%s", len(got), hexOrDash(got))
		}
	case "connect":
		// sonic.Listen keeps the requested port (0) in Addr(); ask the kernel which port was bound
		addr := o.ln.Addr().String()
		if sa, e := syscall.Getsockname(o.ln.RawFd()); e == nil {
			if s4, ok := sa.(*syscall.SockaddrInet4); ok {
				addr = fmt.Sprintf("127.0.0.1:%d", s4.Port)
			}
		}
		c, err := net.DialTimeout("tcp", addr, 500*time.Millisecond)
		if err != nil {
			res = "fail"
		} else {
			o.peerConns = append(o.peerConns, c)
			if !o.closed {
				waitReady(lw.rawFd(o), unix.POLLIN, 200)
			}
		}
	case "send":
		n := atoi(f[3])
		b := make([]byte, n)
		for i := range b {
			b[i] = streamByte(k, o.rxOff+i)
		}
		o.rxOff += n
		var dst net.Addr
		if o.kind == "mpeer" {
			dst = &net.UDPAddr{IP: net.IPv4(127, 0, 0, 1), Port: o.mp.LocalAddr().Port}
		} else {
			dst = o.pc.LocalAddr()
		}
		if _, err := o.peerPC.WriteTo(b, dst); err != nil {
			res = "fail"
		} else if !o.closed {
			waitReady(lw.rawFd(o), unix.POLLIN, 200)
		}
	case "recv":
		buf := make([]byte, 1<<16)
		_ = o.peerPC.SetReadDeadline(time.Now().Add(100 * time.Millisecond))
		n, _, err := o.peerPC.ReadFrom(buf)
		if err != nil {
			res = "none"
		} else {
			res = fmt.Sprintf("len=%d data=%s", n, hexOrDash(buf[:n]))
		}
	}
	lw.ev("ret %s", res)
}

// finish: make every in-flight operation completable, poll generously, then report what is stuck although
// its descriptor is ready per poll(2) (an independent readiness oracle).
func (lw *loopWorld) finish() {
	lw.ev("call finish d=%d", lw.depth)
	pendingOps := func() []int {
		var ids []int
		for id, o := range lw.ops {
			if o.done || o.rep {
				continue
			}
			if o.kind != "post" {
				if ob := lw.objs[o.obj]; ob == nil || ob.closed {
					continue
				}
			}
			ids = append(ids, id)
		}
		sort.Ints(ids)
		return ids
	}
	lw.ioc.Dispatched = 0
	// repeating schedules are cancelled first: their programs would keep starting new operations for ever, and "nothing
	// moves any more" could never be reached
	var reps []int
	for _, o := range lw.ops {
		if o.rep && !o.done {
			if ob := lw.objs[o.obj]; ob != nil && !ob.closed {
				reps = append(reps, o.obj)
			}
		}
	}
	sort.Ints(reps)
	for i, k := range reps {
		if i == 0 || reps[i-1] != k {
			lw.exec([]string{"tcancel", strconv.Itoa(k)})
		}
	}
	doneCount := func() int {
		c := 0
		for _, o := range lw.ops {
			if o.done {
				c++
			}
		}
		return c
	}
	// before any help: a stream read whose bytes have all arrived (the peer wrote them, no completed read has taken them)
	// completes by itself within a few polls — a ReadAll that has its buffer full is not left waiting for more
	settled := false
	for i := 0; i < 300 && !settled; i++ {
		before := doneCount()
		lw.exec([]string{"poll"})
		settled = doneCount() == before
	}
	var owed []string
	for attempt := 0; attempt < 2; attempt++ {
		owed = nil
		if attempt == 1 {
			for i := 0; i < 3; i++ {
				time.Sleep(15 * time.Millisecond)
				lw.exec([]string{"poll"})
			}
		}
		owed = lw.owedReads(pendingOps(), settled)
		if len(owed) == 0 {
			break
		}
	}
	// (they are reported with the verdict at the end; the help below still runs, so that what such an operation finally delivers
	// is seen by the data clauses too)
	idle, last := 0, doneCount()
	for round := 0; round < 600 && idle < 12; round++ {
		ids := pendingOps()
		if len(ids) == 0 {
			break
		}
		if c := doneCount(); c != last {
			last, idle = c, 0
		} else {
			idle++
		}
		maxWait := time.Duration(0)
		for _, id := range ids {
			op := lw.ops[id]
			o := lw.objs[op.obj]
			switch op.kind {
			case "read":
				switch o.kind {
				case "tcp", "adapter", "fifo":
					if round%4 == 0 {
						lw.peer([]string{"peer", strconv.Itoa(op.obj), "write", "64"})
					}
				case "listener":
					// a connection the peer made and no accept has handed out is still owed to this accept: no new one
					if round%4 == 0 && len(o.peerConns) <= len(o.accepted)+o.stolen {
						lw.peer([]string{"peer", strconv.Itoa(op.obj), "connect"})
					}
				case "packet", "mpeer":
					if round%4 == 0 {
						lw.peer([]string{"peer", strconv.Itoa(op.obj), "send", "8"})
					}
				}
			case "write":
				if o.kind == "tcp" || o.kind == "adapter" || o.kind == "fifow" {
					lw.peer([]string{"peer", strconv.Itoa(op.obj), "drain"})
				}
			case "timer":
				if w := time.Until(op.t0.Add(op.delay)); w > maxWait {
					maxWait = w
				}
			}
		}
		if maxWait > 0 {
			time.Sleep(maxWait + 2*time.Millisecond)
		}
		lw.exec([]string{"poll"})
	}
	// an operation counts as stuck only if it is still in flight, and ready, after a few more polls (a timer armed by a callback of
	// the last round may come due between that round's poll and this verdict when the machine is busy)
	var stuck []string
	for attempt := 0; attempt < 3; attempt++ {
		stuck = nil
		for _, id := range pendingOps() {
			op := lw.ops[id]
			ready := false
			switch op.kind {
			case "post":
				ready = true
			case "timer":
				ready = time.Now().After(op.t0.Add(op.delay + 5*time.Millisecond))
			case "read":
				o := lw.objs[op.obj]
				ready = waitReady(lw.rawFd(o), unix.POLLIN, 0) != 0
				if o.kind == "listener" && len(o.sab) == 0 && len(o.peerConns) > len(o.accepted)+o.stolen {
					// the kernel completed more connections to this listener than accepts have handed out (the backlog is far
					// larger than a script): one of them belongs to this accept, wherever it went
					ready = true
				}
			case "write":
				ready = waitReady(lw.rawFd(lw.objs[op.obj]), unix.POLLOUT, 0) != 0
			}
			if ready {
				stuck = append(stuck, strconv.Itoa(id))
			}
		}
		if len(stuck) == 0 {
			break
		}
		if attempt < 2 {
			for i := 0; i < 3; i++ {
				time.Sleep(15 * time.Millisecond)
				lw.exec([]string{"poll"})
			}
		}
	}
	for _, id := range owed {
		dup := false
		for _, x := range stuck {
			dup = dup || x == id
		}
		if !dup {
			stuck = append(stuck, id)
		}
	}
	if len(stuck) == 0 {
		lw.ev("ret stuck=-")
	} else {
		lw.ev("ret stuck=%s", strings.Join(stuck, ","))
	}
}

// adopt: "" = nothing to adopt (no event), otherwise "ok".
func (lw *loopWorld) adopt(k, j int) string {
	l := lw.objs[k]
	if l == nil || l.kind != "listener" || lw.objs[j] != nil || l.adopted >= len(l.accepted) {
		return ""
	}
	c := l.accepted[l.adopted]
	var p net.Conn
	for _, pc := range l.peerConns {
		if pc.LocalAddr().String() == c.RemoteAddr().String() {
			p = pc
		}
	}
	if p == nil {
		return ""
	}
	l.adopted++
	lw.objs[j] = &loopObj{kind: "tcp", conn: c, peer: p, peerFd: -1}
	_ = syscall.SetsockoptInt(c.RawFd(), syscall.SOL_SOCKET, syscall.SO_SNDBUF, 4096)
	if tc, ok := p.(*net.TCPConn); ok {
		_ = tc.SetReadBuffer(4096)
	}
	return "ok"
}

func (lw *loopWorld) newObj(k int, kind string) string {
	o := &loopObj{kind: kind, peerFd: -1}
	lw.objs[k] = o
	switch kind {
	case "tcp", "adapter":
		ln, err := net.Listen("tcp", "127.0.0.1:0")
		if err != nil {
			return "fail-listen"
		}
		defer ln.Close()
		if kind == "tcp" {
			c, err := sonic.Dial(lw.ioc, "tcp", ln.Addr().String())
			if err != nil {
				return "fail-dial"
			}
			o.conn = c
			_ = syscall.SetsockoptInt(c.RawFd(), syscall.SOL_SOCKET, syscall.SO_SNDBUF, 4096)
		} else {
			nc, err := net.Dial("tcp", ln.Addr().String())
			if err != nil {
				return "fail-dial"
			}
			o.nc = nc
			if tc, ok := nc.(*net.TCPConn); ok {
				_ = tc.SetWriteBuffer(4096)
			}
			var aerr error
			sonic.NewAsyncAdapter(lw.ioc, nc.(syscall.Conn), nc, func(err error, a *sonic.AsyncAdapter) {
				aerr = err
				o.adp = a
			})
			if aerr != nil || o.adp == nil {
				return "fail-adapter"
			}
		}
		p, err := ln.Accept()
		if err != nil {
			return "fail-accept"
		}
		if tc, ok := p.(*net.TCPConn); ok {
			_ = tc.SetReadBuffer(4096)
		}
		o.peer = p
	case "fifo":
		o.path = filepath.Join(lw.tmp, fmt.Sprintf("fifo%d", k))
		if err := syscall.Mkfifo(o.path, 0o600); err != nil {
			return "fail-mkfifo"
		}
		f, err := sonic.Open(lw.ioc, o.path, os.O_RDONLY|syscall.O_NONBLOCK, 0)
		if err != nil {
			return "fail-open"
		}
		o.file = f
		fd, err := syscall.Open(o.path, os.O_WRONLY|syscall.O_NONBLOCK, 0)
		if err != nil {
			return "fail-open-peer"
		}
		o.peerFd = fd
	case "fifow":
		// the library holds the write end, the harness the read end
		o.path = filepath.Join(lw.tmp, fmt.Sprintf("fifow%d", k))
		if err := syscall.Mkfifo(o.path, 0o600); err != nil {
			return "fail-mkfifo"
		}
		fd, err := syscall.Open(o.path, os.O_RDONLY|syscall.O_NONBLOCK, 0)
		if err != nil {
			return "fail-open-peer"
		}
		o.peerFd = fd
		f, err := sonic.Open(lw.ioc, o.path, os.O_WRONLY|syscall.O_NONBLOCK, 0)
		if err != nil {
			return "fail-open"
		}
		o.file = f
	case "regular":
		o.path = filepath.Join(lw.tmp, fmt.Sprintf("reg%d", k))
		data := make([]byte, 256)
		for i := range data {
			data[i] = streamByte(k, i)
		}
		if err := os.WriteFile(o.path, data, 0o600); err != nil {
			return "fail-create"
		}
		f, err := sonic.Open(lw.ioc, o.path, os.O_RDWR, 0)
		if err != nil {
			return "fail-open"
		}
		o.file = f
	case "timer":
		t, err := sonic.NewTimer(lw.ioc)
		if err != nil {
			return "fail-timer"
		}
		o.timer = t
	case "listener":
		l, err := sonic.Listen(lw.ioc, "tcp", "127.0.0.1:0")
		if err != nil {
			return "fail-listen"
		}
		_ = syscall.SetNonblock(l.RawFd(), true)
		o.ln = l
	case "packet":
		pc, err := sonic.NewPacketConn(lw.ioc, "udp", "127.0.0.1:0")
		if err != nil {
			return "fail-packet"
		}
		// NewPacketConn keeps port 0 in LocalAddr(); ask the kernel
		sa, err := syscall.Getsockname(pc.RawFd())
		if err != nil {
			return "fail-getsockname"
		}
		_ = sa
		o.pc = &packetWithAddr{PacketConn: pc, addr: sockaddrToUDP(sa)}
		p, err := net.ListenUDP("udp", &net.UDPAddr{IP: net.IPv4(127, 0, 0, 1)})
		if err != nil {
			return "fail-peer"
		}
		o.peerPC = p
	case "mpeer":
		mp, err := multicast.NewUDPPeer(lw.ioc, "udp", "127.0.0.1:0")
		if err != nil {
			return "fail-mpeer"
		}
		o.mp = mp
		p, err := net.ListenUDP("udp", &net.UDPAddr{IP: net.IPv4(127, 0, 0, 1)})
		if err != nil {
			return "fail-peer"
		}
		o.peerPC = p
	default:
		return "fail-kind"
	}
	return "ok"
}

type packetWithAddr struct {
	sonic.PacketConn
	addr net.Addr
}

func (p *packetWithAddr) LocalAddr() net.Addr { return p.addr }

func sockaddrToUDP(sa syscall.Sockaddr) net.Addr {
	if s4, ok := sa.(*syscall.SockaddrInet4); ok {
		return &net.UDPAddr{IP: net.IPv4(s4.Addr[0], s4.Addr[1], s4.Addr[2], s4.Addr[3]), Port: s4.Port}
	}
	return &net.UDPAddr{}
}

func (lw *loopWorld) cleanup() {
	for _, o := range lw.objs {
		if o.peer != nil {
			_ = o.peer.Close()
		}
		if o.peerFd >= 0 {
			_ = syscall.Close(o.peerFd)
		}
		if o.peerPC != nil {
			_ = o.peerPC.Close()
		}
		for _, c := range o.peerConns {
			_ = c.Close()
		}
		for _, c := range o.accepted {
			_ = c.Close()
		}
		if !o.closed {
			guard(func() {
				switch o.kind {
				case "tcp":
					_ = o.conn.Close()
				case "fifo", "fifow", "regular":
					_ = o.file.Close()
				case "adapter":
					_ = o.adp.Close()
				case "timer":
					_ = o.timer.Close()
				case "listener":
					_ = o.ln.Close()
				case "packet":
					_ = o.pc.Close()
				case "mpeer":
					_ = o.mp.Close()
				}
			})
		}
		for _, fd := range o.sab {
			_ = syscall.Close(fd)
		}
		if o.nc != nil {
			// the adapter closed the descriptor itself; closing the net.Conn again would hit a foreign descriptor
			runtime.KeepAlive(o.nc)
		}
	}
	if lw.ioc != nil {
		_ = lw.ioc.Close()
	}
	if lw.tmp != "" {
		_ = os.RemoveAll(lw.tmp)
	}
}

func loopRun(script []string, w *bufio.Writer) {
	runtime.LockOSThread()
	defer runtime.UnlockOSThread()
	lw := &loopWorld{w: w, objs: map[int]*loopObj{}, progs: map[int][]string{}, ops: map[int]*loopOp{}, nextOp: 1000}
	ioc, err := sonic.NewIO()
	if err != nil {
		fmt.Fprintf(w, "< fatal newio\n")
		return
	}
	lw.ioc = ioc
	lw.tid = syscall.Gettid()
	lw.tmp, _ = os.MkdirTemp("", "verif-loop-")
	defer lw.cleanup()
	for _, line := range script {
		fmt.Fprintf(w, "! %s\n", line)
		f := strings.Fields(line)
		if len(f) == 0 {
			continue
		}
		switch f[0] {
		case "obj":
			fmt.Fprintf(w, "< obj %s %s %s\n", f[1], f[2], lw.newObj(atoi(f[1]), f[2]))
		case "adopt":
			// adopt <listener> <j>: the first connection the listener's accepts handed out that is not yet an object becomes
			// object j (kind tcp), with the harness's end of that connection as its peer
			if res := lw.adopt(atoi(f[1]), atoi(f[2])); res != "" {
				fmt.Fprintf(w, "< obj %s tcp %s\n", f[2], res)
			}
		case "prog":
			id := atoi(f[1])
			body := strings.Join(f[2:], " ")
			for _, a := range strings.Split(body, ";") {
				if strings.TrimSpace(a) != "" {
					lw.progs[id] = append(lw.progs[id], strings.TrimSpace(a))
				}
			}
		default:
			if guard(func() { lw.exec(f) }) {
				fmt.Fprintf(w, "< panic\n")
				return
			}
		}
		w.Flush()
	}
}

// ---- generator -----------------------------------------------------------------------------------

type loopGenObj struct {
	k    int
	kind string
}

func loopGen(r *rng, maxops int, w *bufio.Writer) {
	var objs []loopGenObj
	add := func(kind string) {
		k := len(objs) + 1
		objs = append(objs, loopGenObj{k, kind})
		fmt.Fprintf(w, "! obj %d %s\n", k, kind)
	}
	add("tcp")
	if r.intn(2) == 0 {
		add("tcp")
	}
	if r.intn(3) == 0 {
		add("fifo")
	}
	if r.intn(3) == 0 {
		add("adapter")
	}
	add("timer")
	if r.intn(2) == 0 {
		add("timer")
	}
	if r.intn(3) == 0 {
		add("listener")
	}
	if r.intn(3) == 0 {
		add("packet")
	}
	if r.intn(12) == 0 {
		add("regular")
	}
	if r.intn(4) == 0 {
		// a connection handed out by AsyncAccept, used like a dialled one from here on
		add("listener")
		l := len(objs)
		fmt.Fprintf(w, "! peer %d connect\n! accept %d op=9\n! adopt %d %d\n", l, l, l, l+1)
		objs = append(objs, loopGenObj{l + 1, "tcp"})
	}
	pickKind := func(kinds ...string) (loopGenObj, bool) {
		var c []loopGenObj
		for _, o := range objs {
			for _, kd := range kinds {
				if o.kind == kd {
					c = append(c, o)
				}
			}
		}
		if len(c) == 0 {
			return loopGenObj{}, false
		}
		return c[r.intn(len(c))], true
	}
	nextID := 10
	id := func() int { nextID++; return nextID }
	size := func() int { return r.pick(1, 1, 2, 3, 5, 8, 8, 16, 64, 300) }
	// one random API action (as text, without "!"), usable at top level and inside handler programs
	var action func(depth int) string
	action = func(depth int) string {
		for {
			switch r.intn(16) {
			case 0, 1, 2:
				if o, ok := pickKind("tcp", "fifo", "adapter"); ok {
					return fmt.Sprintf("%s %d %d op=%d", r.pick2("read", "readall"), o.k, size(), id())
				}
			case 3, 4:
				if o, ok := pickKind("tcp", "adapter"); ok {
					n := size()
					if r.intn(5) == 0 && o.kind == "tcp" {
						// larger than the socket buffers: the write blocks half way. (Not on an adapted net.Conn: its Write
						// is a blocking call of the Go runtime and would stall the loop goroutine until the peer reads.)
						n = r.pick(5000, 20000, 70000)
					}
					return fmt.Sprintf("%s %d %d op=%d", r.pick2("write", "writeall"), o.k, n, id())
				}
			case 5:
				if o, ok := pickKind("tcp", "fifo", "adapter"); ok {
					return fmt.Sprintf("cancel %d", o.k)
				}
			case 6:
				if r.intn(3) == 0 {
					o := objs[r.intn(len(objs))]
					return fmt.Sprintf("close %d", o.k)
				}
			case 7, 8:
				if o, ok := pickKind("timer"); ok {
					return fmt.Sprintf("sched %d %s %d op=%d", o.k, r.pick2("once", "once", "rep"), r.pick(0, 1, 1, 2, 3), id())
				}
			case 9:
				if o, ok := pickKind("timer"); ok {
					return fmt.Sprintf("%s %d", r.pick2("tcancel", "scheduled"), o.k)
				}
			case 10:
				return fmt.Sprintf("post op=%d", id())
			case 11:
				if o, ok := pickKind("listener"); ok {
					return fmt.Sprintf("accept %d op=%d", o.k, id())
				}
			case 12:
				if o, ok := pickKind("packet"); ok {
					if r.intn(2) == 0 {
						return fmt.Sprintf("recvfrom %d %d op=%d", o.k, r.pick(4, 16, 64), id())
					}
					return fmt.Sprintf("sendto %d %d op=%d", o.k, r.pick(1, 8, 32), id())
				}
			case 13:
				if depth == 0 {
					return fmt.Sprintf("setdisp %d", r.pick(0, 0, 31, 32, 32))
				}
			case 14:
				if o, ok := pickKind("tcp", "adapter"); ok && r.intn(2) == 0 {
					// inline chains that run into the dispatch limit
					if r.intn(2) == 0 {
						return fmt.Sprintf("write %d %d op=%d chain=%d", o.k, r.pick(1, 2, 3), id(), r.pick(5, 33, 40, 70))
					}
					return fmt.Sprintf("read %d %d op=%d chain=%d", o.k, r.pick(1, 2), id(), r.pick(5, 33, 40))
				}
			case 15:
				if o, ok := pickKind("regular"); ok {
					return fmt.Sprintf("%s %d %d op=%d", r.pick2("read", "readall"), o.k, r.pick(1, 8), id())
				}
			}
		}
	}
	peerAct := func() string {
		for {
			switch r.intn(10) {
			case 0, 1, 2, 3, 4:
				if o, ok := pickKind("tcp", "fifo", "adapter"); ok {
					return fmt.Sprintf("peer %d write %d", o.k, r.pick(1, 2, 3, 5, 8, 13, 64, 200))
				}
			case 5:
				if o, ok := pickKind("tcp", "adapter"); ok {
					return fmt.Sprintf("peer %d drain", o.k)
				}
			case 6:
				if o, ok := pickKind("tcp", "fifo", "adapter"); ok && r.intn(3) == 0 {
					return fmt.Sprintf("peer %d %s", o.k, r.pick2("close", "close", "shutwr", "rst"))
				}
			case 7:
				if o, ok := pickKind("listener"); ok {
					return fmt.Sprintf("peer %d connect", o.k)
				}
			case 8:
				if o, ok := pickKind("packet"); ok {
					return fmt.Sprintf("peer %d send %d", o.k, r.pick(1, 8, 32, 100))
				}
			case 9:
				return fmt.Sprintf("sleep %d", r.pick(1, 1, 2, 3))
			}
		}
	}
	n := 4 + r.intn(maxops)
	for i := 0; i < n; i++ {
		switch r.intn(10) {
		case 0, 1, 2, 3:
			a := action(0)
			// a handler program for the operation just generated
			if strings.Contains(a, "op=") && !strings.Contains(a, "chain=") && r.intn(3) == 0 {
				opid, _ := attr(strings.Fields(a), "op")
				var body []string
				for j := 0; j <= r.intn(3); j++ {
					body = append(body, action(1))
				}
				if !strings.HasPrefix(a, "sched") || !strings.Contains(a, " rep ") {
					fmt.Fprintf(w, "! prog %s %s\n", opid, strings.Join(body, " ; "))
				} else {
					// a repeating timer runs its program at every firing: operation ids are assigned at run time (op=+)
					var safe []string
					for _, b := range body {
						if strings.Contains(b, "chain=") {
							continue
						}
						if i := strings.Index(b, "op="); i >= 0 {
							b = strings.TrimSpace(b[:i]) + " op=+"
						}
						safe = append(safe, b)
					}
					if r.intn(3) == 0 {
						safe = append(safe, "sleep 2", "poll")
					}
					if len(safe) > 0 {
						fmt.Fprintf(w, "! prog %s %s\n", opid, strings.Join(safe, " ; "))
					}
				}
			}
			fmt.Fprintf(w, "! %s\n", a)
		case 4, 5, 6:
			fmt.Fprintf(w, "! %s\n", peerAct())
		case 7, 8:
			fmt.Fprintf(w, "! poll\n")
			if r.intn(2) == 0 {
				fmt.Fprintf(w, "! pending\n")
			}
		case 9:
			switch r.intn(6) {
			case 0:
				fmt.Fprintf(w, "! pollsig %d\n! pending\n", r.pick(2, 3, 6))
			case 1:
				fmt.Fprintf(w, "! %s%s\n! pending\n", r.pick2("runone", "runpending"), r.pick2("", " sig=1"))
			default:
				fmt.Fprintf(w, "! pending\n")
			}
		}
	}
	fmt.Fprintf(w, "! setdisp 0\n! finish\n! pending\n")
}

func (r *rng) pick2(xs ...string) string { return xs[r.intn(len(xs))] }

// loopEnum writes the scenario families: small deterministic scripts built around the situations that random
// generation reaches rarely — an operation deferred only because the dispatch limit was reached, following another
// one with a different buffer and callback; ReadAll/WriteAll meeting a partial transfer and then the end of the
// stream; waits interrupted by a signal; RunOne / RunPending with every kind of operation in flight; Close with
// both directions in flight. Every family is instantiated for every object kind and operation variant it applies to.
func loopEnum(args []string, w *bufio.Writer) {
	k := 0
	emit := func(lines ...string) {
		fmt.Fprintf(w, "# script %d\n", k)
		k++
		for _, l := range lines {
			for _, a := range strings.Split(l, "\n") {
				if a = strings.TrimSpace(a); a != "" {
					fmt.Fprintf(w, "! %s\n", a)
				}
			}
		}
		fmt.Fprintf(w, "! setdisp 0\n! finish\n! pending\n")
	}
	streamKinds := []string{"tcp", "adapter", "fifo"}
	// 1. deferred at the dispatch limit, after an inline operation with another buffer
	for _, kind := range []string{"tcp", "adapter"} {
		for _, a := range []string{"write", "writeall"} {
			for _, b := range []string{"write", "writeall"} {
				for _, disp := range []int{31, 32, 33} {
					emit("obj 1 "+kind, fmt.Sprintf("%s 1 3 op=11", a), fmt.Sprintf("setdisp %d", disp), fmt.Sprintf("%s 1 5 op=12", b),
						"setdisp 0", "pending", "poll", "peer 1 drain", "pending")
				}
			}
		}
		// the first write of an object is the one deferred; another object wrote before
		emit("obj 1 "+kind, "obj 2 "+kind, "write 1 3 op=11", "setdisp 32", "write 2 5 op=12", "setdisp 0", "poll", "peer 2 drain", "peer 1 drain", "pending")
		// a chain that runs into the limit by itself, every link with its own buffer
		emit("obj 1 "+kind, "write 1 2 op=11 chain=40", "poll", "poll", "peer 1 drain", "pending")
	}
	for _, kind := range streamKinds {
		for _, a := range []string{"read", "readall"} {
			for _, b := range []string{"read", "readall"} {
				for _, disp := range []int{31, 32} {
					emit("obj 1 "+kind, "peer 1 write 3", fmt.Sprintf("%s 1 3 op=11", a), "peer 1 write 5", fmt.Sprintf("setdisp %d", disp),
						fmt.Sprintf("%s 1 5 op=12", b), "setdisp 0", "pending", "poll", "pending")
				}
			}
		}
		emit("obj 1 "+kind, "peer 1 write 90", "read 1 2 op=11 chain=40", "poll", "poll", "pending")
	}
	for _, disp := range []int{31, 32, 33} {
		emit("obj 1 listener", "peer 1 connect", fmt.Sprintf("setdisp %d", disp), "accept 1 op=11", "setdisp 0", "pending", "poll", "pending")
		emit("obj 1 listener", "peer 1 connect", "peer 1 connect", "accept 1 op=11", fmt.Sprintf("setdisp %d", disp), "accept 1 op=12", "setdisp 0", "poll", "pending")
		emit("obj 1 packet", "peer 1 send 8", fmt.Sprintf("setdisp %d", disp), "recvfrom 1 16 op=11", "setdisp 0", "pending", "poll", "pending")
		emit("obj 1 packet", fmt.Sprintf("setdisp %d", disp), "sendto 1 8 op=11", "setdisp 0", "pending", "poll", "peer 1 recv", "pending")
		emit("obj 1 tcp", "obj 2 listener", "peer 2 connect", "peer 1 write 64", "prog 11 accept 2 op=12", fmt.Sprintf("setdisp %d", disp-1),
			"read 1 4 op=11", "setdisp 0", "poll", "pending")
	}
	emit("obj 1 listener", "peer 1 connect\npeer 1 connect\npeer 1 connect", "accept 1 op=11 chain=40", "poll", "pending")
	// more queued connections than the limit: the chain nests 32 callbacks, the 33rd accept is deferred
	emit("obj 1 listener", strings.Repeat("peer 1 connect\n", 40), "accept 1 op=11 chain=45", "pending", "poll", "poll", "pending")
	emit("obj 1 packet", strings.Repeat("peer 1 send 4\n", 40), "recvfrom 1 8 op=11 chain=45", "pending", "poll", "poll", "pending")
	// zero-length reads (an empty payload of a length-prefixed protocol) complete at once like any other: chained over the limit,
	// alone and alternating with one-byte reads
	for _, kind := range []string{"tcp", "fifo"} {
		for _, opn := range []string{"read", "readall"} {
			emit("obj 1 "+kind, "peer 1 write 90", fmt.Sprintf("%s 1 0 op=11 chain=70", opn), "pending", "poll", "poll", "pending")
			emit("obj 1 "+kind, "obj 2 tcp", "peer 1 write 90", "peer 2 write 90", fmt.Sprintf("%s 1 0 op=11 chain=31 then=read_2_1_op=+_chain=40", opn), "pending", "poll", "poll", "pending")
		}
	}
	// connections handed out by AsyncAccept / used like dialled ones (adopt: the accepted connection becomes object 2)
	acc := []string{"obj 1 listener", "peer 1 connect", "accept 1 op=11", "adopt 1 2"}
	emit(append(acc, "peer 2 write 10", "readall 2 16 op=12", "pending", "poll", "peer 2 write 6", "poll", "pending")...)
	emit(append(acc, "readall 2 16 op=12", "peer 2 write 4", "peer 2 close", "poll", "pending")...)
	emit(append(acc, "read 2 8 op=12", "write 2 70000 op=13", "pending", "peer 2 write 3", "poll", "peer 2 drain", "poll", "peer 2 drain", "poll", "pending")...)
	emit(append(acc, "peer 2 write 90", "read 2 2 op=12 chain=40", "poll", "poll", "pending")...)
	emit(append(acc, "writeall 2 200000 op=12", "pending", "poll", "peer 2 drain", "poll", "peer 2 drain", "poll", "pending")...)
	emit(append(acc, "read 2 8 op=12", "cancel 2", "pending", "read 2 8 op=13", "close 2", "peer 2 write 4", "poll", "pending")...)
	emit("obj 1 listener", "accept 1 op=11", "peer 1 connect", "poll", "adopt 1 2", "peer 2 write 5", "setdisp 32", "read 2 4 op=12", "setdisp 0", "pending", "poll", "pending")
	// a descriptor that keeps message boundaries behind the file type (FIFO in packet mode): every read completes at once and
	// short (one packet) while more is queued
	for _, n := range []int{34, 40, 70} {
		// ReadAll over packets: every call needs several system calls and still completes inside the call — each completion counts
		// towards the dispatch limit like any other
		// one ReadAll that takes k reads: the last packet fills the buffer exactly (k around the dispatch limit)
		for _, k := range []int{31, 32, 33, 34, 35, 64, 65, 66, 67} {
			if n == 34 {
				emit("obj 1 fifo", "peer 1 packetmode", strings.Repeat("peer 1 write 2\n", k), fmt.Sprintf("readall 1 %d op=11", 2*k), "pending", "poll", "pending")
				emit("obj 1 fifo", "peer 1 packetmode", fmt.Sprintf("readall 1 %d op=11", 2*k), strings.Repeat("peer 1 write 2\n", k), "pending", "poll", "pending")
			}
		}
		// (a packet-mode pipe holds 256 packets here; every chain below finds all its packets queued)
		if n <= 40 {
			emit("obj 1 fifo", "peer 1 packetmode", strings.Repeat("peer 1 write 4\n", 2*n+12), fmt.Sprintf("readall 1 8 op=11 chain=%d", n+5), "pending", "poll", "poll", "pending")
			emit("obj 1 fifo", "peer 1 packetmode", strings.Repeat("peer 1 write 2\n", 3*n+12), fmt.Sprintf("readall 1 6 op=11 chain=%d", n+3), "pending", "poll", "poll", "pending")
		}
		emit("obj 1 fifo", "peer 1 packetmode", strings.Repeat("peer 1 write 4\n", n), fmt.Sprintf("read 1 16 op=11 chain=%d", n+5), "pending", "poll", "poll", "pending")
		emit("obj 1 fifo", "obj 2 tcp", "peer 1 packetmode", strings.Repeat("peer 1 write 3\n", n), "peer 2 write 200", fmt.Sprintf("read 1 8 op=11 chain=%d then=read_2_4_op=77", n-2),
			"pending", "poll", "poll", "pending")
	}
	// a chain of one kind that reaches the limit exactly, then an operation of another kind from the innermost callback
	for _, then := range []string{"accept_2_op=77", "recvfrom_3_8_op=77", "sendto_3_4_op=77", "write_4_3_op=77", "read_4_3_op=77"} {
		for _, n := range []int{30, 31, 32} {
			emit("obj 1 tcp", "obj 2 listener", "obj 3 packet", "obj 4 tcp", "peer 2 connect", "peer 3 send 4", "peer 4 write 8", "peer 1 write 200",
				fmt.Sprintf("read 1 1 op=+ chain=%d then=%s", n, then), "pending", "poll", "peer 4 drain", "pending")
		}
	}
	// a read chain of exactly the limit, then an accept issued from the innermost callback
	emit("obj 1 tcp", "obj 2 listener", "peer 2 connect", "peer 1 write 200", "prog 11 accept 2 op=12", "read 1 1 op=+ chain=31", "pending")
	// 2. ReadAll / WriteAll: partial transfer, then more data or the end of the stream
	for _, kind := range streamKinds {
		for _, end := range []string{"peer 1 write 10", "peer 1 close", "peer 1 shutwr", "peer 1 rst"} {
			if kind == "fifo" && (end == "peer 1 shutwr" || end == "peer 1 rst") {
				continue
			}
			emit("obj 1 "+kind, "readall 1 16 op=11", "peer 1 write 6", "poll", end, "poll", "pending")
			emit("obj 1 "+kind, "readall 1 16 op=11", "peer 1 write 6", end, "poll", "poll", "pending")
			emit("obj 1 "+kind, "peer 1 write 6", "readall 1 16 op=11", end, "poll", "pending")
			emit("obj 1 "+kind, "peer 1 write 6", end, "readall 1 16 op=11", "poll", "readall 1 4 op=12", "poll", "pending")
			emit("obj 1 "+kind, "peer 1 write 16", "readall 1 16 op=11", "peer 1 write 6", end, "readall 1 16 op=12", "poll", "poll", "pending")
			emit("obj 1 "+kind, "read 1 16 op=11", "peer 1 write 6", end, "poll", "read 1 16 op=12", "poll", "pending")
		}
	}
	for _, a := range []string{"write", "writeall"} {
		for _, n := range []int{5000, 20000, 70000} {
			emit("obj 1 tcp", fmt.Sprintf("%s 1 %d op=11", a, n), "pending", "peer 1 drain", "poll", "peer 1 drain", "poll", "pending")
			emit("obj 1 tcp", fmt.Sprintf("%s 1 %d op=11", a, n), "peer 1 close", "poll", "poll", "pending")
			emit("obj 1 tcp", fmt.Sprintf("%s 1 %d op=11", a, n), "read 1 8 op=12", "close 1", "pending", "poll", "pending")
			emit("obj 1 tcp", fmt.Sprintf("%s 1 %d op=11", a, n), "read 1 8 op=12", "cancel 1", "pending", "poll", "pending")
		}
	}
	// 3. waits interrupted by a signal; RunOne / RunPending
	for _, sig := range []string{"", " sig=1"} {
		emit("obj 1 timer", "sched 1 once 3 op=11", "runpending"+sig, "pending")
		emit("obj 1 timer", "sched 1 once 3 op=11", "runone"+sig, "pending")
		emit("obj 1 timer", "obj 2 timer", "sched 1 once 2 op=11", "sched 2 once 4 op=12", "post op=13", "runpending"+sig, "pending")
		emit("obj 1 timer", "post op=11", "post op=12", "runone"+sig, "pending", "runpending"+sig, "pending")
		for _, kind := range streamKinds {
			emit("obj 1 "+kind, "obj 2 timer", "read 1 8 op=11", "sched 2 once 2 op=12", "pending", "runpending"+sig, "pending")
			emit("obj 1 "+kind, "readall 1 8 op=11", "runone"+sig, "pending", "runpending"+sig, "pending")
			emit("obj 1 "+kind, "read 1 8 op=11", "cancel 1", "runpending"+sig, "pending")
			emit("obj 1 "+kind, "obj 2 timer", "read 1 8 op=11", "sched 2 once 2 op=12", "close 1", "runpending"+sig, "pending")
		}
		emit("obj 1 listener", "accept 1 op=11", "runpending"+sig, "pending")
		emit("obj 1 packet", "recvfrom 1 16 op=11", "runpending"+sig, "pending")
		emit("obj 1 timer", "sched 1 once 2 op=11", "tcancel 1", "runpending"+sig, "pending")
		emit("obj 1 timer", "runpending"+sig, "pending")
	}
	for _, t := range []int{3, 6} {
		emit("obj 1 timer", fmt.Sprintf("sched 1 once %d op=11", 2*t), fmt.Sprintf("pollsig %d", t), "pending", "scheduled 1")
		emit("obj 1 tcp", "read 1 8 op=11", fmt.Sprintf("pollsig %d", t), "pending", "peer 1 write 8", fmt.Sprintf("pollsig %d", t), "pending")
		emit("obj 1 timer", "post op=11", fmt.Sprintf("pollsig %d", t), "pending")
		emit("obj 1 timer", fmt.Sprintf("pollsig %d", t), "pending")
	}
	// 4. Close / Cancel with both directions in flight, per kind
	for _, kind := range []string{"tcp"} {
		for _, end := range []string{"close 1", "cancel 1", "peer 1 close", "peer 1 rst"} {
			emit("obj 1 "+kind, "writeall 1 70000 op=11", "read 1 8 op=12", "pending", end, "pending", "poll", "poll", "pending")
		}
	}
	// ... and data arriving for the read while the write is stalled (the peer does not drain): arming the second interest must not
	// replace the first, in either order
	emit("obj 1 tcp", "read 1 8 op=11", "writeall 1 200000 op=12", "pending", "peer 1 write 8", "poll", "pending", "peer 1 drain", "poll", "peer 1 drain", "poll", "pending")
	emit("obj 1 tcp", "writeall 1 200000 op=12", "read 1 8 op=11", "pending", "peer 1 write 8", "poll", "pending", "peer 1 drain", "poll", "peer 1 drain", "poll", "pending")
	emit("obj 1 tcp", "readall 1 8 op=11", "writeall 1 200000 op=12", "peer 1 write 4", "poll", "pending", "peer 1 write 4", "poll", "pending", "peer 1 drain", "poll", "peer 1 drain", "poll", "pending")
	// ... the write completes (or is cancelled) first and the read stays in flight with a silent peer: the loop has nothing to
	// report any more (the write interest is gone from the kernel too), so PollOne times out instead of succeeding for nothing
	for _, kind := range []string{"tcp"} {
		emit("obj 1 "+kind, "read 1 8 op=11", "writeall 1 200000 op=12", "pending", "peer 1 drain", "poll", "peer 1 drain", "poll", "peer 1 drain", "poll", "peer 1 drain", "poll",
			"pending", "idlepoll", "idlepoll", "pending", "peer 1 write 8", "poll", "pending", "idlepoll")
		emit("obj 1 "+kind, "writeall 1 200000 op=12", "read 1 8 op=11", "pending", "peer 1 drain", "poll", "peer 1 drain", "poll", "peer 1 drain", "poll", "peer 1 drain", "poll",
			"pending", "idlepoll", "idlepoll", "pending")
		emit("obj 1 "+kind, "read 1 8 op=11", "setdisp 32", "write 1 5 op=12", "setdisp 0", "pending", "poll", "pending", "idlepoll", "idlepoll", "peer 1 write 8", "poll", "idlepoll", "pending")
	}
	emit("obj 1 tcp", "writeall 1 200000 op=12", "setdisp 32", "read 1 8 op=11", "setdisp 0", "pending", "peer 1 write 8", "poll", "pending", "idlepoll", "peer 1 drain", "poll", "peer 1 drain", "poll",
		"peer 1 drain", "poll", "peer 1 drain", "poll", "pending", "idlepoll")
	// Close with an operation parked while a second descriptor for the same open file description exists (dup): the registration
	// goes with the Close, so a peer that writes afterwards wakes nobody
	for _, kind := range []string{"tcp", "fifo"} {
		emit("obj 1 "+kind, "dupfd 1", "read 1 8 op=11", "pending", "close 1", "pending", "peer 1 write 8", "idlepoll", "idlepoll", "pending")
		emit("obj 1 "+kind, "dupfd 1", "read 1 8 op=11", "cancel 1", "pending", "peer 1 write 8", "idlepoll", "close 1", "idlepoll", "pending")
	}
	emit("obj 1 tcp", "dupfd 1", "read 1 8 op=11", "setdisp 32", "write 1 5 op=12", "setdisp 0", "pending", "close 1", "pending", "peer 1 write 8", "idlepoll", "idlepoll", "pending")
	// a peer that has closed already: the first write(2) of a large WriteAll is accepted, the next one draws the error — the count
	// reported with the error covers what was accepted (the kernel's tcpi_bytes_acked is the witness)
	for _, a := range []string{"writeall", "write"} {
		emit("obj 1 tcp", "peer 1 close", a+" 1 8000000 op=11", "pending", "poll", "poll", "pending")
		emit("obj 1 tcp", "write 1 100 op=11", "peer 1 drain", "peer 1 close", a+" 1 8000000 op=12", "pending", "poll", "poll", "pending")
		emit("obj 1 tcp", a+" 1 8000000 op=11", "pending", "peer 1 rst", "poll", "poll", "pending")
	}
	emit("obj 1 packet", "recvfrom 1 16 op=11", "close 1", "pending", "poll", "pending")
	emit("obj 1 listener", "accept 1 op=11", "close 1", "pending", "poll", "pending")
	// 5. two completions harvested by the same epoll_wait: the handler that runs first closes / cancels the other
	// object (the batch order is the kernel's, so both handlers carry the program)
	for _, act := range []string{"close", "tcancel"} {
		for _, mode := range []string{"once", "rep"} {
			emit("obj 1 timer", "obj 2 timer", "prog 11 "+act+" 2", "prog 12 "+act+" 1", "sched 1 "+mode+" 1 op=11", "sched 2 "+mode+" 1 op=12",
				"sleep 3", "poll", "pending", "scheduled 1", "scheduled 2", "poll", "sched 1 once 0 op=13", "sched 2 once 0 op=14", "pending", "tcancel 1", "tcancel 2")
		}
		emit("obj 1 timer", "obj 2 tcp", "prog 12 "+act+" 1", "sched 1 once 1 op=11", "read 2 4 op=12", "peer 2 write 4", "sleep 3", "poll", "pending",
			"scheduled 1", "poll", "pending")
		emit("obj 1 timer", "prog 12 "+act+" 1", "sched 1 once 1 op=11", "post op=12", "sleep 3", "poll", "pending", "scheduled 1", "poll", "pending")
	}
	// ... or cancels and re-arms the other timer far in the future: its event of this batch is stale; the poll that meets it returns at
	// once (PollOne never waits) and a third timer that comes due meanwhile fires on time
	emit("obj 1 timer", "obj 2 timer", "obj 3 timer", "prog 11 tcancel 2 ; sched 2 once 300 op=+", "prog 12 tcancel 1 ; sched 1 once 300 op=+", "sched 1 once 1 op=11", "sched 2 once 1 op=12",
		"sched 3 once 8 op=13", "sleep 3", "poll", "pending", "sleep 8", "poll", "pending", "tcancel 1", "tcancel 2", "pending")
	emit("obj 1 timer", "obj 2 tcp", "prog 12 tcancel 1 ; sched 1 once 300 op=+", "sched 1 once 1 op=11", "read 2 4 op=12", "peer 2 write 4", "sleep 3", "poll", "pending", "poll", "tcancel 1", "pending")
	// ... or cancels and re-arms the other timer: its event of this batch is stale and must not lose the new schedule
	for _, re := range []string{"once 1", "once 3", "rep 1"} {
		// (a one-shot re-arm is left for the drain phase, which waits for it: it must fire)
		tail := []string{"setdisp 0"}
		if re == "rep 1" {
			tail = []string{"tcancel 1", "tcancel 2", "pending"}
		}
		emit(append([]string{"obj 1 timer", "obj 2 timer", "prog 11 tcancel 2 ; sched 2 " + re + " op=+", "prog 12 tcancel 1 ; sched 1 " + re + " op=+", "sched 1 once 1 op=11", "sched 2 once 1 op=12",
			"sleep 3", "poll", "pending", "scheduled 1", "scheduled 2", "sleep 5", "poll", "poll", "pending", "scheduled 1", "scheduled 2"}, tail...)...)
		emit(append([]string{"obj 1 timer", "obj 2 tcp", "prog 12 tcancel 1 ; sched 1 " + re + " op=+", "sched 1 once 1 op=11", "read 2 4 op=12", "peer 2 write 4", "sleep 3", "poll", "pending",
			"scheduled 1", "sleep 5", "poll", "poll", "pending", "scheduled 1"}, tail...)...)
		emit(append([]string{"obj 1 timer", "prog 12 tcancel 1 ; sched 1 " + re + " op=+", "sched 1 once 1 op=11", "post op=12", "sleep 3", "poll", "pending", "scheduled 1", "sleep 5", "poll", "poll",
			"pending", "scheduled 1"}, tail...)...)
	}
	for _, act := range []string{"close", "cancel"} {
		for _, kind := range streamKinds {
			emit("obj 1 "+kind, "obj 2 "+kind, "prog 11 "+act+" 2", "prog 12 "+act+" 1", "read 1 4 op=11", "read 2 4 op=12", "peer 1 write 4", "peer 2 write 4",
				"poll", "pending", "poll", "pending")
		}
		emit("obj 1 tcp", "prog 11 "+act+" 1", "prog 12 "+act+" 1", "writeall 1 70000 op=12", "read 1 4 op=11", "peer 1 write 4", "peer 1 drain", "poll", "pending", "poll", "pending")
	}
	// 5b. the same for every kind of operation that can wait in the poller (also writes parked only because the dispatch limit
	// was reached): a handler dispatched earlier in the batch — another object's completion, a posted handler — closes or
	// cancels the object; both orders of becoming ready
	type victim struct {
		kind   string
		start  []string
		cancel bool
	}
	victims := []victim{
		{"packet", []string{"setdisp 32", "sendto 1 8 op=11", "setdisp 0"}, false},
		{"packet", []string{"recvfrom 1 16 op=11", "peer 1 send 8"}, false},
		{"mpeer", []string{"setdisp 32", "sendto 1 8 op=11", "setdisp 0"}, false},
		{"mpeer", []string{"recvfrom 1 16 op=11", "peer 1 send 8"}, false},
		{"listener", []string{"accept 1 op=11", "peer 1 connect"}, false},
		{"tcp", []string{"read 1 4 op=11", "peer 1 write 4"}, true},
		{"tcp", []string{"setdisp 32", "write 1 8 op=11", "setdisp 0"}, true},
		{"tcp", []string{"setdisp 32", "write 1 8 op=11", "setdisp 0", "read 1 4 op=13", "peer 1 write 4"}, true},
		{"fifo", []string{"read 1 4 op=11", "peer 1 write 4"}, true},
		{"adapter", []string{"read 1 4 op=11", "peer 1 write 4"}, true},
		{"adapter", []string{"setdisp 32", "write 1 8 op=11", "setdisp 0"}, true},
	}
	for _, v := range victims {
		acts := []string{"close"}
		if v.cancel {
			acts = append(acts, "cancel")
		}
		for _, act := range acts {
			for _, killer := range [][]string{{"read 2 4 op=12", "peer 2 write 4"}, {"post op=12"}} {
				head := []string{"obj 1 " + v.kind, "obj 2 tcp", "prog 12 " + act + " 1"}
				tail := []string{"poll", "pending", "poll", "pending"}
				emit(append(append(append(append([]string{}, head...), killer...), v.start...), tail...)...)
				emit(append(append(append(append([]string{}, head...), v.start...), killer...), tail...)...)
			}
		}
	}
	// 5b'. ... and the handler is the object's own other direction: a read and a write parked on one descriptor become ready together
	// (one epoll event), the read callback — dispatched first — cancels or closes the object
	for _, kind := range []string{"tcp", "adapter"} {
		for _, act := range []string{"close", "cancel"} {
			// (the peer then looks at what it received: nothing of a write that was reported cancelled before it had sent anything)
			emit("obj 1 "+kind, "prog 13 "+act+" 1", "setdisp 32", "write 1 8 op=11", "setdisp 0", "read 1 4 op=13", "peer 1 write 4", "poll", "pending", "poll", "peer 1 drain", "pending")
			emit("obj 1 "+kind, "prog 13 "+act+" 1", "read 1 4 op=13", "setdisp 32", "write 1 8 op=11", "setdisp 0", "peer 1 write 4", "poll", "pending", "poll", "peer 1 drain", "pending")
			emit("obj 1 "+kind, "prog 11 "+act+" 1", "setdisp 32", "write 1 8 op=11", "setdisp 0", "read 1 4 op=13", "peer 1 write 4", "poll", "pending", "poll", "peer 1 drain", "pending")
		}
		// a ReadAll that has made progress and is parked again, then a write starts on the same object before the rest arrives
		emit("obj 1 "+kind, "readall 1 8 op=11", "peer 1 write 3", "poll", "pending", "write 1 5 op=12", "poll", "peer 1 write 5", "poll", "peer 1 drain", "pending")
		emit("obj 1 "+kind, "readall 1 8 op=11", "peer 1 write 3", "poll", "setdisp 32", "write 1 5 op=12", "setdisp 0", "peer 1 write 5", "poll", "poll", "peer 1 drain", "pending")
	}
	// 5b+. ... the read callback — dispatched first — starts the next read, which finds nothing and waits in the poller again, while the
	// write of the same event is still to be dispatched: the renewed read interest survives the write's dispatch (and the other way
	// round: the write callback starts the next write, at the dispatch limit so that it waits, before the read is dispatched)
	for _, kind := range []string{"tcp", "adapter"} {
		emit("obj 1 "+kind, "prog 13 read 1 4 op=+", "setdisp 32", "write 1 8 op=11", "setdisp 0", "read 1 4 op=13", "peer 1 write 4", "poll", "pending",
			"peer 1 write 4", "poll", "pending", "idlepoll")
		emit("obj 1 "+kind, "prog 13 read 1 4 op=+", "read 1 4 op=13", "setdisp 32", "write 1 8 op=11", "setdisp 0", "peer 1 write 4", "poll", "pending",
			"peer 1 write 4", "poll", "pending", "peer 1 write 4", "poll", "pending")
		emit("obj 1 "+kind, "prog 13 readall 1 8 op=+", "setdisp 32", "write 1 8 op=11", "setdisp 0", "read 1 4 op=13", "peer 1 write 7", "poll", "pending",
			"peer 1 write 5", "poll", "pending")
		// Cancel with both directions in flight; the cancellation callback of the read starts the next read (of the write: the next
		// write, parked at the limit): the operation started there belongs to the time after the Cancel and completes
		emit("obj 1 "+kind, "prog 11 read 1 8 op=+", "read 1 8 op=11", "setdisp 32", "write 1 5 op=12", "setdisp 0", "pending", "cancel 1", "pending",
			"peer 1 write 8", "poll", "pending", "peer 1 drain")
		emit("obj 1 "+kind, "prog 12 read 1 8 op=+", "read 1 8 op=11", "setdisp 32", "write 1 5 op=12", "setdisp 0", "pending", "cancel 1", "pending",
			"peer 1 write 8", "poll", "pending", "peer 1 drain")
		emit("obj 1 "+kind, "prog 11 setdisp 32 ; write 1 5 op=+ ; setdisp 0", "read 1 8 op=11", "setdisp 32", "write 1 5 op=12", "setdisp 0", "pending", "cancel 1", "pending",
			"poll", "pending", "peer 1 drain")
	}
	emit("obj 1 tcp", "prog 11 read 1 8 op=+", "read 1 8 op=11", "writeall 1 200000 op=12", "pending", "cancel 1", "pending", "peer 1 write 8", "poll", "pending", "peer 1 drain")
	emit("obj 1 adapter", "wdeadline 1 20", "prog 11 read 1 8 op=+", "read 1 8 op=11", "writeall 1 400000 op=12", "pending", "cancel 1", "pending", "peer 1 write 8", "poll", "pending", "peer 1 drain")
	// 5b''. a read started at the dispatch limit on a connection whose previous ReadAll had been parked with progress: it starts from
	// nothing (its own buffer, offset 0)
	for _, kind := range []string{"tcp", "adapter", "fifo"} {
		for _, opn := range []string{"readall", "read"} {
			emit("obj 1 "+kind, "readall 1 8 op=11", "peer 1 write 3", "poll", "peer 1 write 5", "poll", "pending", "peer 1 write 8", "setdisp 32", opn+" 1 8 op=12", "setdisp 0",
				"pending", "poll", "pending")
			emit("obj 1 "+kind, "readall 1 8 op=11", "peer 1 write 3", "poll", "peer 1 write 5", "poll", "pending", "setdisp 32", opn+" 1 8 op=12", "setdisp 0", "pending",
				"peer 1 write 5", "poll", "peer 1 write 3", "poll", "pending")
		}
	}
	// 5c. a listener reported readable whose queue is empty by the time its handler runs (a handler earlier in the batch took the
	// connection with the blocking Accept): the accept completes once, whatever it reports, and a later connection is not its
	emit("obj 1 listener", "obj 2 tcp", "prog 12 peer 1 steal", "accept 1 op=11", "read 2 4 op=12", "peer 2 write 4", "peer 1 connect", "poll", "pending",
		"peer 1 connect", "poll", "poll", "pending", "accept 1 op=13", "poll", "pending")
	emit("obj 1 listener", "prog 12 peer 1 steal", "accept 1 op=11", "post op=12", "peer 1 connect", "poll", "pending", "peer 1 connect", "poll", "poll", "pending")
	emit("obj 1 listener", "prog 12 peer 1 steal", "prog 11 accept 1 op=+", "accept 1 op=11", "post op=12", "peer 1 connect", "poll", "pending", "peer 1 connect", "poll", "poll", "pending")
	// 5d. the same for datagram sockets: the wake-up finds nothing (an earlier handler of the batch took the — empty — datagram with the
	// blocking Read); the read stays in flight with its buffer and completes with the next datagram
	for _, kind := range []string{"mpeer", "packet"} {
		emit("obj 1 "+kind, "obj 2 tcp", "prog 12 peer 1 steal", "recvfrom 1 16 op=11", "read 2 4 op=12", "peer 2 write 4", "peer 1 send 0", "poll", "pending",
			"peer 1 send 8", "poll", "pending")
		emit("obj 1 "+kind, "prog 12 peer 1 steal", "recvfrom 1 16 op=11", "post op=12", "peer 1 send 0", "poll", "pending", "peer 1 send 8", "poll", "poll", "pending")
	}
	// 5g. many descriptors: more interests registered than one epoll_wait harvests (128), the registration that crosses the mark is
	// made by a callback while the batch it belongs to still has events to dispatch
	for _, total := range []int{131, 262} {
		var lines []string
		for k := 1; k <= total+3; k++ {
			lines = append(lines, fmt.Sprintf("obj %d tcp", k))
		}
		lines = append(lines, fmt.Sprintf("prog 11 read %d 4 op=+ ; read %d 4 op=+ ; read %d 4 op=+", total+1, total+2, total+3))
		for k := 1; k <= total-3; k++ {
			lines = append(lines, fmt.Sprintf("read %d 4 op=%d", k, 10+k))
		}
		lines = append(lines, "pending", "peer 1 write 4", "peer 2 write 4", "peer 3 write 4", "poll", "pending", "poll", "pending")
		emit(lines...)
	}
	// 5f. one receive buffer for every read of an object, a new callback each time (what an application with a single packet buffer
	// does): each callback belongs to its own read
	for _, kind := range []string{"packet", "mpeer"} {
		emit("obj 1 "+kind, "recvfrom 1 16 op=11 samebuf=1", "peer 1 send 8", "poll", "recvfrom 1 16 op=12 samebuf=1", "peer 1 send 4", "poll", "recvfrom 1 16 op=13 samebuf=1", "peer 1 send 6", "poll", "pending")
		emit("obj 1 "+kind, "setdisp 32", "peer 1 send 8", "recvfrom 1 16 op=11 samebuf=1", "setdisp 0", "poll", "setdisp 32", "peer 1 send 4", "recvfrom 1 16 op=12 samebuf=1", "setdisp 0", "poll", "pending")
	}
	for _, kind := range []string{"tcp", "fifo", "adapter"} {
		emit("obj 1 "+kind, "read 1 16 op=11 samebuf=1", "peer 1 write 8", "poll", "read 1 16 op=12 samebuf=1", "peer 1 write 4", "poll", "readall 1 16 op=13 samebuf=1", "peer 1 write 16", "poll", "pending")
	}
	// delays below a microsecond / a tick are delays: the timer fires
	for _, ns := range []string{"1", "500", "999", "1500", "999999"} {
		emit("obj 1 timer", "sched 1 once 1 ns="+ns+" op=11", "sleep 1", "poll", "pending", "scheduled 1")
		emit("obj 1 timer", "sched 1 rep 1 ns="+ns+" op=11", "sleep 1", "poll", "sleep 1", "poll", "tcancel 1", "pending")
	}
	// 5e. datagram sockets with a read in flight and a write parked at the dispatch limit, both ready in one event: each completes
	for _, kind := range []string{"mpeer", "packet"} {
		emit("obj 1 "+kind, "recvfrom 1 16 op=11", "setdisp 32", "sendto 1 8 op=12", "setdisp 0", "pending", "peer 1 send 8", "poll", "pending", "poll", "peer 1 recv", "pending")
		emit("obj 1 "+kind, "setdisp 32", "sendto 1 8 op=12", "setdisp 0", "recvfrom 1 16 op=11", "peer 1 send 8", "pending", "poll", "pending", "poll", "peer 1 recv", "pending")
		emit("obj 1 "+kind, "prog 11 recvfrom 1 16 op=+", "recvfrom 1 16 op=11", "setdisp 32", "sendto 1 8 op=12", "setdisp 0", "peer 1 send 8", "poll", "pending", "peer 1 send 4", "poll", "peer 1 recv", "pending")
	}
	// 6. what the callback of a repeating schedule does to its own timer (the schedule continues unless the callback
	// cancelled / closed the timer or left another schedule armed), including a nested poll in which the new schedule fires
	for _, body := range []string{
		"tcancel 1", "close 1", "sched 1 once 0 op=+", "sched 1 once 1 op=+", "sched 1 once 3 op=+", "sched 1 rep 2 op=+",
		"tcancel 1 ; sched 1 once 0 op=+", "tcancel 1 ; sched 1 once 1 op=+", "tcancel 1 ; sched 1 rep 2 op=+",
		"sched 1 once 1 op=+ ; sleep 3 ; poll", "tcancel 1 ; sched 1 once 1 op=+ ; sleep 3 ; poll", "sched 1 once 1 op=+ ; tcancel 1",
		"sched 1 once 1 op=+ ; sleep 3 ; poll ; tcancel 1", "scheduled 1 ; sched 1 once 2 op=+ ; scheduled 1", "post op=+ ; poll",
		// a second repeating schedule started and fired (nested poll) inside the first one's callback, cancelling there
		"tcancel 1 ; sched 1 rep 1 op=12 ; sleep 3 ; poll", "sched 1 rep 1 op=12 ; sleep 3 ; poll",
	} {
		emit("obj 1 timer", "prog 11 "+body, "prog 12 tcancel 1", "sched 1 rep 1 op=11", "sleep 2", "poll", "pending", "scheduled 1", "sleep 3", "poll", "pending",
			"sleep 3", "poll", "pending", "scheduled 1", "tcancel 1", "pending")
	}
	// 7. chains that hop between objects: the limit bounds the shared stack, not each object
	hops := []struct{ setup, first, then string }{
		{"peer 1 write 200", "read 1 1 op=+ chain=20", "recvfrom_3_8_op=+_chain=25"},
		{"peer 1 write 200", "read 1 1 op=+ chain=20", "sendto_3_4_op=+_chain=25"},
		{"", "recvfrom 3 8 op=+ chain=20", "recvfrom_5_8_op=+_chain=25"},
		{"", "recvfrom 3 8 op=+ chain=20", "read_4_1_op=+_chain=25"},
		{"", "recvfrom 5 8 op=+ chain=20", "recvfrom_3_8_op=+_chain=25"},
		{"", "sendto 3 4 op=+ chain=20", "write_4_1_op=+_chain=25"},
		{"", "accept 2 op=+ chain=20", "recvfrom_3_8_op=+_chain=25"},
		{"peer 1 write 200", "read 1 1 op=+ chain=20", "accept_2_op=+_chain=25"},
	}
	for _, h := range hops {
		emit("obj 1 tcp", "obj 2 listener", "obj 3 packet", "obj 4 tcp", "obj 5 mpeer", strings.Repeat("peer 2 connect\n", 30), strings.Repeat("peer 3 send 4\n", 30),
			strings.Repeat("peer 5 send 4\n", 30), "peer 4 write 100", h.setup, h.first+" then="+h.then, "pending", "poll", "poll", "peer 4 drain", "pending")
	}
	// 8. datagram sockets: empty datagrams complete a read with an error-like result (EOF) and must still be counted
	for _, kind := range []string{"mpeer", "packet"} {
		emit("obj 1 "+kind, strings.Repeat("peer 1 send 0\npeer 1 send 0\npeer 1 send 4\n", 15), "recvfrom 1 8 op=+ chain=50", "pending", "poll", "poll", "pending")
		emit("obj 1 "+kind, "peer 1 send 4", "recvfrom 1 8 op=11", "setdisp 32", "peer 1 send 5", "recvfrom 1 8 op=12", "setdisp 0", "pending", "poll", "pending")
		emit("obj 1 "+kind, "recvfrom 1 8 op=11", "sendto 1 4 op=12", "peer 1 recv", "close 1", "pending", "poll", "pending")
	}
	// 9. an adapted net.Conn whose write fails half way (deadline): the count is what was moved
	for _, a := range []string{"write", "writeall"} {
		emit("obj 1 adapter", "wdeadline 1 20", a+" 1 400000 op=11", "poll", "pending", "peer 1 drain", "pending")
	}
	// 9b. the write end of a FIFO: partial writes into a full pipe, and the reader going away while a write is deferred
	// (the kernel reports EPOLLERR alone, the registered handler must still run)
	for _, a := range []string{"write", "writeall"} {
		emit("obj 1 fifow", a+" 1 70000 op=11", "pending", "peer 1 drain", "poll", "peer 1 drain", "poll", "pending")
		emit("obj 1 fifow", a+" 1 70000 op=11", "pending", "peer 1 close", "poll", "poll", "pending")
		emit("obj 1 fifow", a+" 1 100 op=11", "peer 1 drain", a+" 1 70000 op=12", "cancel 1", "pending", "close 1", "pending")
		emit("obj 1 fifow", "write 1 65536 op=11", a+" 1 100 op=12", "pending", "peer 1 close", "poll", "poll", "pending")
		emit("obj 1 fifow", "write 1 65536 op=11", a+" 1 100 op=12", "pending", "peer 1 drain", "poll", "peer 1 drain", "pending")
	}
	// 10. a registration that fails because the descriptor was closed underneath and its number reused
	for _, kind := range []string{"fifo", "tcp"} {
		emit("obj 1 "+kind, "read 1 8 op=11", "pending", "sabotage 1", "write 1 8 op=12", "pending", "close 1", "pending", "obj 2 timer", "sched 2 once 1 op=13", "runpending", "pending")
		emit("obj 1 "+kind, "sabotage 1", "read 1 8 op=11", "write 1 8 op=12", "pending", "cancel 1", "pending", "close 1", "pending")
		if kind == "tcp" {
			// both directions parked, then the descriptor is closed underneath: Close / Cancel drop both, whatever epoll_ctl says
			for _, end := range []string{"close 1", "cancel 1"} {
				emit("obj 1 tcp", "read 1 8 op=11", "setdisp 32", "write 1 5 op=12", "setdisp 0", "pending", "sabotage 1", end, "pending", "obj 2 timer", "sched 2 once 1 op=13", "runpending", "pending")
				emit("obj 1 tcp", "read 1 8 op=11", "writeall 1 400000 op=12", "pending", "sabotage 1", end, "pending", "obj 2 timer", "sched 2 once 1 op=13", "runpending", "pending")
			}
		}
		// de-registration fails (the kernel no longer knows the descriptor): the operation is over all the same
		emit("obj 1 "+kind, "read 1 8 op=11", "sabotage 1", "cancel 1", "pending", "cancel 1", "pending", "close 1", "cancel 1", "pending", "poll", "pending")
		emit("obj 1 "+kind, "read 1 8 op=11", "sabotage 1", "close 1", "pending", "cancel 1", "poll", "pending")
	}
	emit("obj 1 listener", "obj 2 tcp", "prog 12 close 1", "prog 11 close 2", "accept 1 op=11", "read 2 4 op=12", "peer 1 connect", "peer 2 write 4", "poll", "pending", "poll", "pending")
	emit("obj 1 packet", "obj 2 tcp", "prog 12 close 1", "prog 11 close 2", "recvfrom 1 16 op=11", "read 2 4 op=12", "peer 1 send 8", "peer 2 write 4", "poll", "pending", "poll", "pending")
}
