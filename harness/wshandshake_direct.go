package main

// Direct monitor of component "wshandshake" (C18): what the scripted sessions do not reach.
//
//  1. wss:// endpoints whose TLS dial fails (connection refused; a server that closes during TLS set-up): the handshake reports an
//     error and leaves the stream terminated — it does not panic — and the same stream can be handshaken again.
//  2. a quiet period: the server answers the upgrade at once and sends its first frame DialTimeout + 300 ms after the
//     connection was made; the frame is delivered (nothing about dialling limits the life of the session).

import (
	"bufio"
	"bytes"
	"crypto/sha1"
	"crypto/tls"
	"encoding/base64"
	"fmt"
	"io"
	"net"
	"net/http"
	"os"
	"strings"
	"time"

	"github.com/talostrading/sonic"
	"github.com/talostrading/sonic/codec/websocket"
)

func wshsDirect(seed uint64, tier string, args []string, w *bufio.Writer) {
	fails := 0
	fail := func(key, format string, a ...any) {
		fails++
		fmt.Fprintf(w, "DIRECT-FAIL key=wshandshake.%s %s\n", key, fmt.Sprintf(format, a...))
	}
	ioc := sonic.MustIO()
	defer ioc.Close()

	// a conforming plain-text server: answers the upgrade, then sends one text frame after `quiet`
	serve := func(ln net.Listener, quiet time.Duration) {
		c, err := ln.Accept()
		if err != nil {
			return
		}
		defer c.Close()
		req, err := http.ReadRequest(bufio.NewReader(c))
		if err != nil {
			return
		}
		h := sha1.Sum([]byte(req.Header.Get("Sec-WebSocket-Key") + "258EAFA5-E914-47DA-95CA-C5AB0DC85B11"))
		fmt.Fprintf(c, "HTTP/1.1 101 Switching Protocols\r\nUpgrade: websocket\r\nConnection: Upgrade\r\nSec-WebSocket-Accept: %s\r\n\r\n",
			base64.StdEncoding.EncodeToString(h[:]))
		time.Sleep(quiet)
		_, _ = c.Write([]byte{0x81, 0x02, 'h', 'i'})
		time.Sleep(300 * time.Millisecond)
	}

	onlyAsync := len(args) > 0 && args[0] == "only=async-failure"
	onlySecond := len(args) > 0 && args[0] == "only=second-session"
	// 1. failing TLS dials
	variants := []string{"refused", "closed-during-tls-setup"}
	if onlyAsync || onlySecond {
		variants = nil
	}
	for _, variant := range variants {
		func() {
			defer func() {
				if p := recover(); p != nil {
					fail("failure-state", "wss:// handshake whose TLS dial fails (%s) panicked: %v", variant, p)
				}
			}()
			ws, err := websocket.NewWebsocketStream(ioc, &tls.Config{InsecureSkipVerify: true}, websocket.RoleClient)
			if err != nil {
				return
			}
			ln, err := net.Listen("tcp", "127.0.0.1:0")
			if err != nil {
				return
			}
			addr := ln.Addr().String()
			if variant == "refused" {
				ln.Close()
			} else {
				defer ln.Close()
				go func() {
					if c, err := ln.Accept(); err == nil {
						c.Close()
					}
				}()
			}
			herr := ws.Handshake("wss://" + addr + "/")
			if herr == nil {
				fail("failure-state", "wss:// handshake (%s) reported success", variant)
				return
			}
			if ws.State() != websocket.StateTerminated {
				fail("failure-state", "after a failed wss:// dial (%s: %v) the state is %v, not terminated", variant, herr, ws.State())
			}
			// the same stream works against a conforming server afterwards
			ln2, err := net.Listen("tcp", "127.0.0.1:0")
			if err != nil {
				return
			}
			defer ln2.Close()
			go serve(ln2, 0)
			if err := ws.Handshake("ws://" + ln2.Addr().String() + "/"); err != nil || ws.State() != websocket.StateActive {
				fail("rehandshake", "handshake after a failed wss:// dial (%s): err=%v state=%v", variant, err, ws.State())
				return
			}
			if f, err := ws.NextFrame(); err != nil || string(f.Payload()) != "hi" {
				fail("bytes-after-blank-line", "first frame after re-handshake: err=%v", err)
			}
			_ = ws.CloseNextLayer()
		}()
	}

	// 2. the first frame arrives later than the dial timeout after the connection was made
	func() {
		if onlyAsync || onlySecond {
			return
		}
		defer func() {
			if p := recover(); p != nil {
				fail("quiet-period", "panicked: %v", p)
			}
		}()
		ws, err := websocket.NewWebsocketStream(ioc, nil, websocket.RoleClient)
		if err != nil {
			return
		}
		ln, err := net.Listen("tcp", "127.0.0.1:0")
		if err != nil {
			return
		}
		defer ln.Close()
		go serve(ln, websocket.DialTimeout+300*time.Millisecond)
		if err := ws.Handshake("ws://" + ln.Addr().String() + "/"); err != nil {
			fail("quiet-period", "handshake: %v", err)
			return
		}
		f, err := ws.NextFrame()
		if err != nil || string(f.Payload()) != "hi" {
			fail("quiet-period", "the frame the server sent %v after the connection was made was not delivered: err=%v state=%v",
				websocket.DialTimeout+300*time.Millisecond, err, ws.State())
		}
		_ = ws.CloseNextLayer()
	}()
	// 2b. a second session on the same Stream closes like a first one: whatever ended the first session (our Close, the echo of the
	// peer's Close, a protocol violation), in the second one a framing violation is answered with a Close 1002 on the wire, an
	// ordinary Close() sends its Close frame, and the peer's Close is echoed
	upgradeOnly := func(c net.Conn) bool {
		req, err := http.ReadRequest(bufio.NewReader(c))
		if err != nil {
			return false
		}
		h := sha1.Sum([]byte(req.Header.Get("Sec-WebSocket-Key") + "258EAFA5-E914-47DA-95CA-C5AB0DC85B11"))
		_, err = fmt.Fprintf(c, "HTTP/1.1 101 Switching Protocols\r\nUpgrade: websocket\r\nConnection: Upgrade\r\nSec-WebSocket-Accept: %s\r\n\r\n",
			base64.StdEncoding.EncodeToString(h[:]))
		return err == nil
	}
	// the server side of one session: after the upgrade it sends `send`, then collects what the client writes until a Close frame
	// or `wait` has passed
	session := func(ln net.Listener, send []byte, wait time.Duration, got chan<- []wireFrame) {
		c, err := ln.Accept()
		if err != nil {
			got <- nil
			return
		}
		defer c.Close()
		if !upgradeOnly(c) {
			got <- nil
			return
		}
		if len(send) > 0 {
			_, _ = c.Write(send)
		}
		var all []byte
		buf := make([]byte, 4096)
		deadline := time.Now().Add(wait)
		for time.Now().Before(deadline) {
			_ = c.SetReadDeadline(time.Now().Add(50 * time.Millisecond))
			n, err := c.Read(buf)
			all = append(all, buf[:n]...)
			frames, _ := wsParseWire(all)
			for _, f := range frames {
				if f.op == 8 {
					got <- frames
					return
				}
			}
			if err != nil && !os.IsTimeout(err) {
				break
			}
		}
		frames, _ := wsParseWire(all)
		got <- frames
	}
	closeCode := func(frames []wireFrame) int {
		for _, f := range frames {
			if f.op == 8 && len(f.payload) >= 2 {
				return int(f.payload[0])<<8 | int(f.payload[1])
			}
			if f.op == 8 {
				return 0
			}
		}
		return -1
	}
	secondSession := !onlyAsync
	for _, first := range []string{"our-close", "peer-close", "violation"} {
		for _, second := range []string{"violation", "our-close", "peer-close"} {
			if !secondSession {
				break
			}
			func() {
				defer func() {
					if p := recover(); p != nil {
						fail("second-session-close", "first session ended by %s, second by %s: panicked: %v", first, second, p)
					}
				}()
				ws, err := websocket.NewWebsocketStream(ioc, nil, websocket.RoleClient)
				if err != nil {
					return
				}
				run := func(how string) (int, bool) {
					ln, err := net.Listen("tcp", "127.0.0.1:0")
					if err != nil {
						return 0, false
					}
					defer ln.Close()
					var send []byte
					switch how {
					case "peer-close":
						send = []byte{0x88, 0x02, 0x03, 0xe9} // Close 1001
					case "violation":
						send = []byte{0xc1, 0x01, 'x'} // RSV1 set on a text frame
					}
					got := make(chan []wireFrame, 1)
					go session(ln, send, 1500*time.Millisecond, got)
					if err := ws.Handshake("ws://" + ln.Addr().String() + "/"); err != nil {
						<-got
						return 0, false
					}
					switch how {
					case "our-close":
						_ = ws.Close(websocket.CloseNormal, "bye")
					default:
						_, _ = ws.NextFrame()
						_ = ws.Flush()
					}
					frames := <-got
					_ = ws.CloseNextLayer()
					return closeCode(frames), true
				}
				if _, ok := run(first); !ok {
					return
				}
				code, ok := run(second)
				if !ok {
					fail("second-session-close", "handshake of the second session failed (first session ended by %s)", first)
					return
				}
				want := map[string]int{"violation": 1002, "our-close": 1000, "peer-close": 1001}[second]
				if code != want {
					fail("second-session-close", "first session ended by %s; in the second one (%s) the server received Close code %d (-1: no Close frame), want %d", first, second, code, want)
				}
			}()
		}
	}

	// 2c. the peer starts the closing handshake (a Ping, then its Close), the application reads both at frame level and then calls
	// the blocking Close itself, before anything was flushed: the Pong and the echo of the peer's Close still go out
	if secondSession {
		func() {
			defer func() {
				if p := recover(); p != nil {
					fail("second-session-close", "Close() after the peer's Close panicked: %v", p)
				}
			}()
			ws, err := websocket.NewWebsocketStream(ioc, nil, websocket.RoleClient)
			if err != nil {
				return
			}
			ln, err := net.Listen("tcp", "127.0.0.1:0")
			if err != nil {
				return
			}
			defer ln.Close()
			got := make(chan []wireFrame, 1)
			go session(ln, []byte{0x89, 0x02, 'h', 'b', 0x88, 0x02, 0x03, 0xe9}, 1500*time.Millisecond, got)
			if err := ws.Handshake("ws://" + ln.Addr().String() + "/"); err != nil {
				<-got
				return
			}
			_, _ = ws.NextFrame()
			_, _ = ws.NextFrame()
			_ = ws.Close(websocket.CloseNormal, "late")
			_ = ws.Flush()
			frames := <-got
			pong := false
			for _, f := range frames {
				if f.op == 10 && string(f.payload) == "hb" {
					pong = true
				}
			}
			if code := closeCode(frames); code != 1001 || !pong {
				fail("second-session-close", "peer sent Ping and Close(1001); after NextFrame x2, Close(), Flush() the server received pong=%v and Close code %d (-1: none), want the Pong and the echo 1001", pong, code)
			}
			_ = ws.CloseNextLayer()
		}()
	}

	// 2d. a Stream whose previous session received large frames (its read buffer grew to megabytes) is handshaken again: the new
	// session reads like a fresh one — a frame the new server sends a moment after its response is delivered
	if secondSession {
		func() {
			defer func() {
				if p := recover(); p != nil {
					fail("rehandshake", "re-handshake after a session with large frames panicked: %v", p)
				}
			}()
			ws, err := websocket.NewWebsocketStream(ioc, nil, websocket.RoleClient)
			if err != nil {
				return
			}
			ws.SetMaxMessageSize(4 << 20)
			ln, err := net.Listen("tcp", "127.0.0.1:0")
			if err != nil {
				return
			}
			defer ln.Close()
			big := make([]byte, 0, 3<<20)
			for _, n := range []int{1<<20 + 300000, 600000, 600000} {
				big = append(big, 0x82, 127, 0, 0, 0, 0, byte(n>>24), byte(n>>16), byte(n>>8), byte(n))
				big = append(big, make([]byte, n)...)
			}
			got := make(chan []wireFrame, 1)
			go session(ln, big, 400*time.Millisecond, got)
			if err := ws.Handshake("ws://" + ln.Addr().String() + "/"); err != nil {
				<-got
				return
			}
			for i := 0; i < 3; i++ {
				if f, err := ws.NextFrame(); err != nil || f.PayloadLength() < 600000 {
					fail("rehandshake", "large frame %d of the first session: err=%v", i, err)
					<-got
					return
				}
			}
			<-got
			_ = ws.CloseNextLayer()
			ln2, err := net.Listen("tcp", "127.0.0.1:0")
			if err != nil {
				return
			}
			defer ln2.Close()
			go serve(ln2, 150*time.Millisecond)
			if err := ws.Handshake("ws://" + ln2.Addr().String() + "/"); err != nil || ws.State() != websocket.StateActive {
				fail("rehandshake", "handshake after a session with large frames: err=%v state=%v", err, ws.State())
				return
			}
			done, payload := false, ""
			var rerr error
			ws.AsyncNextFrame(func(err error, f websocket.Frame) {
				done, rerr = true, err
				if err == nil {
					payload = string(f.Payload())
				}
			})
			deadline := time.Now().Add(2 * time.Second)
			for !done && time.Now().Before(deadline) {
				_ = ioc.RunOneFor(5 * time.Millisecond)
			}
			if !done || rerr != nil || payload != "hi" {
				fail("rehandshake", "after a session that received frames of 0.6-1.3 MiB the same Stream was handshaken again; the frame its new server sent 150 ms after the response: delivered=%v err=%v payload=%q", done, rerr, payload)
			}
			_ = ws.CloseNextLayer()
		}()
	}

	// 2e. more histories of a first session that the second session of the same Stream must not notice: it ended inside a
	// fragmented message; a blocking write failed on a dropped transport (its frame was queued); its response head was very long
	// (the handshake buffer grew) and the second response arrives in one segment with 6 KB of frames behind it
	upgradeWith := func(c net.Conn, pad int, trail []byte) bool {
		req, err := http.ReadRequest(bufio.NewReader(c))
		if err != nil {
			return false
		}
		h := sha1.Sum([]byte(req.Header.Get("Sec-WebSocket-Key") + "258EAFA5-E914-47DA-95CA-C5AB0DC85B11"))
		resp := "HTTP/1.1 101 Switching Protocols\r\nUpgrade: websocket\r\nConnection: Upgrade\r\n"
		for pad > 0 {
			k := pad
			if k > 900 {
				k = 900
			}
			resp += "X-Pad: " + strings.Repeat("p", k) + "\r\n"
			pad -= k
		}
		resp += "Sec-WebSocket-Accept: " + base64.StdEncoding.EncodeToString(h[:]) + "\r\n\r\n"
		_, err = c.Write(append([]byte(resp), trail...))
		return err == nil
	}
	serveWith := func(ln net.Listener, pad int, trail []byte, hold time.Duration) {
		c, err := ln.Accept()
		if err != nil {
			return
		}
		defer c.Close()
		if upgradeWith(c, pad, trail) {
			time.Sleep(hold)
		}
	}
	if secondSession {
		histories := []string{"open-fragment", "failed-blocking-write", "long-response-head", "failed-async-write"}
		for _, hist := range histories {
			hist := hist
			func() {
				defer func() {
					if p := recover(); p != nil {
						fail("rehandshake", "second session after %s panicked: %v", hist, p)
					}
				}()
				ws, err := websocket.NewWebsocketStream(ioc, nil, websocket.RoleClient)
				if err != nil {
					return
				}
				ln, err := net.Listen("tcp", "127.0.0.1:0")
				if err != nil {
					return
				}
				defer ln.Close()
				switch hist {
				case "open-fragment":
					go serveWith(ln, 0, []byte{0x01, 0x01, 'a'}, 300*time.Millisecond)
				case "long-response-head":
					go serveWith(ln, 20000, nil, 300*time.Millisecond)
				default:
					go serveWith(ln, 0, nil, 300*time.Millisecond)
				}
				if err := ws.Handshake("ws://" + ln.Addr().String() + "/"); err != nil {
					return
				}
				switch hist {
				case "open-fragment":
					if f, err := ws.NextFrame(); err != nil || f.IsFIN() {
						fail("rehandshake", "first session (%s): the opening fragment was not delivered: %v", hist, err)
						return
					}
					_ = ws.CloseNextLayer()
				case "failed-blocking-write":
					_ = ws.CloseNextLayer()
					_ = ws.Write([]byte("late"), websocket.TypeText)
					_ = ws.Write([]byte("later"), websocket.TypeText)
				case "failed-async-write":
					// the asynchronous twin: the write's completion reports the dead transport
					_ = ws.CloseNextLayer()
					fin := 0
					ws.AsyncWrite([]byte("late"), websocket.TypeText, func(error) { fin++ })
					ws.AsyncWrite([]byte("later"), websocket.TypeText, func(error) { fin++ })
					for dl := time.Now().Add(time.Second); fin < 2 && time.Now().Before(dl); {
						_ = ioc.RunOneFor(5 * time.Millisecond)
					}
				default:
					_ = ws.CloseNextLayer()
				}
				// second session: 60 text frames of 100 bytes arrive with the response, the client writes two messages back to
				// back (asynchronously) and closes
				var trail []byte
				for i := 0; i < 60; i++ {
					trail = append(trail, 0x81, 100)
					trail = append(trail, bytes.Repeat([]byte{byte('A' + i%26)}, 100)...)
				}
				// ... and a Ping last: its Pong is queued when the client reads it and goes out with the writes
				trail = append(trail, 0x89, 3, 'h', 'b', '2')
				ln2, err := net.Listen("tcp", "127.0.0.1:0")
				if err != nil {
					return
				}
				defer ln2.Close()
				got := make(chan []wireFrame, 1)
				go func() {
					c, err := ln2.Accept()
					if err != nil {
						got <- nil
						return
					}
					defer c.Close()
					if !upgradeWith(c, 0, trail) {
						got <- nil
						return
					}
					var all []byte
					buf := make([]byte, 4096)
					deadline := time.Now().Add(2 * time.Second)
					for time.Now().Before(deadline) {
						_ = c.SetReadDeadline(time.Now().Add(50 * time.Millisecond))
						n, err := c.Read(buf)
						all = append(all, buf[:n]...)
						frames, _ := wsParseWire(all)
						if len(frames) > 0 && frames[len(frames)-1].op == 8 {
							got <- frames
							return
						}
						if err != nil && !os.IsTimeout(err) {
							break
						}
					}
					frames, _ := wsParseWire(all)
					got <- frames
				}()
				if err := ws.Handshake("ws://" + ln2.Addr().String() + "/"); err != nil || ws.State() != websocket.StateActive {
					fail("rehandshake", "handshake of the second session after %s: err=%v state=%v", hist, err, ws.State())
					<-got
					return
				}
				buf := make([]byte, 256)
				for i := 0; i < 60; i++ {
					mt, n, err := ws.NextMessage(buf)
					if err != nil || mt != websocket.TypeText || n != 100 || buf[0] != byte('A'+i%26) || buf[99] != byte('A'+i%26) {
						fail("bytes-after-blank-line", "second session after %s: message %d of the 60 that arrived with the response: type=%v n=%d err=%v", hist, i, mt, n, err)
						<-got
						return
					}
				}
				if f, err := ws.NextFrame(); err != nil || !f.Opcode().IsPing() || string(f.Payload()) != "hb2" {
					fail("rehandshake", "second session after %s: the Ping behind the 60 messages: err=%v", hist, err)
					<-got
					return
				}
				d1, d2 := false, false
				ws.AsyncWrite([]byte("first message of the second session"), websocket.TypeText, func(error) { d1 = true })
				ws.AsyncWrite([]byte("second message of the second session"), websocket.TypeText, func(error) { d2 = true })
				deadline := time.Now().Add(time.Second)
				for !(d1 && d2) && time.Now().Before(deadline) {
					_ = ioc.RunOneFor(5 * time.Millisecond)
				}
				_ = ws.Close(websocket.CloseNormal, "done")
				frames := <-got
				var texts []string
				pong := false
				for _, f := range frames {
					if f.op == 1 {
						texts = append(texts, string(f.payload))
					}
					if f.op == 10 && string(f.payload) == "hb2" {
						pong = true
					}
				}
				if !pong {
					fail("second-session-close", "second session after %s: the client read a Ping \"hb2\" and then wrote two messages and closed; no Pong with that payload among the %d frames the server received", hist, len(frames))
				}
				if !d1 || !d2 || len(texts) != 2 || texts[0] != "first message of the second session" || texts[1] != "second message of the second session" {
					fail("rehandshake", "second session after %s: two AsyncWrite calls back to back (callbacks ran: %v %v) put %d frames on the wire, text payloads %q", hist, d1, d2, len(frames), texts)
				}
				_ = ws.CloseNextLayer()
			}()
		}
	}

	// 2f. a handshake that fails leaves nothing behind that a later handshake of the same Stream could pick up: an address that is
	// refused before anything is dialled (not a ws:// / wss:// URL) is refused again when it is given again, blocking and
	// asynchronous, although a conforming server listens there; the same Stream then handshakes normally with the ws:// form.
	if secondSession {
		func() {
			defer func() {
				if p := recover(); p != nil {
					fail("rehandshake", "repeated handshake with a refused address panicked: %v", p)
				}
			}()
			for _, scheme := range []string{"http://", "https://", "tcp://"} {
				ws, err := websocket.NewWebsocketStream(ioc, nil, websocket.RoleClient)
				if err != nil {
					return
				}
				ln, err := net.Listen("tcp", "127.0.0.1:0")
				if err != nil {
					return
				}
				go func() {
					for {
						c, err := ln.Accept()
						if err != nil {
							return
						}
						go func(c net.Conn) {
							defer c.Close()
							if upgradeWith(c, 0, nil) {
								time.Sleep(300 * time.Millisecond)
							}
						}(c)
					}
				}()
				addr := scheme + ln.Addr().String() + "/"
				var errs []error
				var states []websocket.StreamState
				for i := 0; i < 3; i++ {
					if i == 1 {
						done := false
						var aerr error
						ws.AsyncHandshake(addr, func(err error) { done, aerr = true, err })
						for dl := time.Now().Add(2 * time.Second); !done && time.Now().Before(dl); {
							_ = ioc.RunOneFor(5 * time.Millisecond)
						}
						if !done {
							aerr = nil
						}
						errs = append(errs, aerr)
					} else {
						errs = append(errs, ws.Handshake(addr))
					}
					states = append(states, ws.State())
				}
				if errs[0] != nil {
					for i := 1; i < 3; i++ {
						if errs[i] == nil || states[i] == websocket.StateActive {
							fail("rehandshake", "Handshake(%q) was refused (%v); the same call repeated on the same Stream (attempt %d): err=%v state=%v - a failed handshake must leave the stream as a fresh one would be", addr, errs[0], i+1, errs[i], states[i])
							break
						}
					}
				}
				if err := ws.Handshake("ws://" + ln.Addr().String() + "/"); err != nil || ws.State() != websocket.StateActive {
					fail("rehandshake", "after refused handshakes with %q the same Stream could not handshake with the ws:// address: err=%v state=%v", addr, err, ws.State())
				}
				_ = ws.CloseNextLayer()
				_ = ln.Close()
			}
		}()
	}

	// 3. AsyncHandshake whose upgrade is refused (the server answers 400 and keeps the connection): the completion is posted to the
	// loop by the dialling goroutine; the failure callback handshakes again on the same Stream, at once, with a conforming server.
	// The new session must work — and, in the race-detector build of this monitor (property C05), the dialling goroutine must be
	// done with the Stream when it posts the completion.
	rounds := 6
	if onlyAsync {
		rounds = 30
	}
	if onlySecond {
		rounds = 0
	}
	for round := 0; round < rounds; round++ {
		func() {
			defer func() {
				if p := recover(); p != nil {
					fail("async-failure", "panicked: %v", p)
				}
			}()
			ws, err := websocket.NewWebsocketStream(ioc, nil, websocket.RoleClient)
			if err != nil {
				return
			}
			bad, err := net.Listen("tcp", "127.0.0.1:0")
			if err != nil {
				return
			}
			defer bad.Close()
			go func() {
				c, err := bad.Accept()
				if err != nil {
					return
				}
				defer c.Close()
				if _, err := http.ReadRequest(bufio.NewReader(c)); err != nil {
					return
				}
				fmt.Fprintf(c, "HTTP/1.1 400 Bad Request\r\nContent-Length: 0\r\n\r\n")
				_, _ = io.Copy(io.Discard, c) // until the client closes
			}()
			good, err := net.Listen("tcp", "127.0.0.1:0")
			if err != nil {
				return
			}
			defer good.Close()
			go serve(good, 0)
			firstErr, secondDone := error(nil), false
			var secondErr error
			firstDone := false
			ws.AsyncHandshake("ws://"+bad.Addr().String()+"/", func(err error) {
				firstDone, firstErr = true, err
				ws.AsyncHandshake("ws://"+good.Addr().String()+"/", func(err error) { secondDone, secondErr = true, err })
			})
			deadline := time.Now().Add(3 * time.Second)
			for !secondDone && time.Now().Before(deadline) {
				_ = ioc.RunOneFor(5 * time.Millisecond)
			}
			switch {
			case !firstDone:
				fail("async-failure", "the callback of an AsyncHandshake whose upgrade was refused never ran")
			case firstErr == nil:
				fail("async-failure", "an AsyncHandshake answered with 400 reported success")
			case !secondDone:
				fail("async-failure", "the AsyncHandshake started from the failure callback never completed")
			case secondErr != nil || ws.State() != websocket.StateActive:
				fail("rehandshake", "AsyncHandshake from the failure callback of a refused upgrade: err=%v state=%v", secondErr, ws.State())
			default:
				if f, err := ws.NextFrame(); err != nil || string(f.Payload()) != "hi" {
					fail("rehandshake", "first frame of the session opened from the failure callback: err=%v", err)
				}
			}
			_ = ws.CloseNextLayer()
		}()
	}
	fmt.Fprintf(w, "DIRECT-STAT {\"wshandshake_direct_failures\": %d}\n", fails)
}
