package main

// Direct monitor of component "wshandshake" (C18): what the scripted sessions do not reach.
//
//  1. wss:// endpoints whose TLS dial fails (connection refused; a server that closes during TLS set-up): the handshake reports an
//     error and leaves the stream terminated — it does not panic — and the same stream can be handshaken again.
//  2. a quiet period: the server answers the upgrade at once and sends its first frame DialTimeout + 300 ms after the
//     connection was made; the frame is delivered (nothing about dialling limits the life of the session).

import (
	"bufio"
	"crypto/sha1"
	"crypto/tls"
	"encoding/base64"
	"fmt"
	"io"
	"net"
	"net/http"
	"time"

	"github.com/talostrading/sonic"
	"github.com/talostrading/sonic/codec/websocket"
)

func wshsDirect(seed uint64, tier string, args []string, w *bufio.Writer) {
	fails := 0
	fail := func(key, format string, a ...any) {
		fails++
		fmt.Fprintf(w, "DIRECT-FAIL key=wshandshake.%s %s\n", key, fmt.Sprintf(format, a...))
	}
	ioc := sonic.MustIO()
	defer ioc.Close()

	// a conforming plain-text server: answers the upgrade, then sends one text frame after `quiet`
	serve := func(ln net.Listener, quiet time.Duration) {
		c, err := ln.Accept()
		if err != nil {
			return
		}
		defer c.Close()
		req, err := http.ReadRequest(bufio.NewReader(c))
		if err != nil {
			return
		}
		h := sha1.Sum([]byte(req.Header.Get("Sec-WebSocket-Key") + "258EAFA5-E914-47DA-95CA-C5AB0DC85B11"))
		fmt.Fprintf(c, "HTTP/1.1 101 Switching Protocols\r\nUpgrade: websocket\r\nConnection: Upgrade\r\nSec-WebSocket-Accept: %s\r\n\r\n",
			base64.StdEncoding.EncodeToString(h[:]))
		time.Sleep(quiet)
		_, _ = c.Write([]byte{0x81, 0x02, 'h', 'i'})
		time.Sleep(300 * time.Millisecond)
	}

	onlyAsync := len(args) > 0 && args[0] == "only=async-failure"
	// 1. failing TLS dials
	variants := []string{"refused", "closed-during-tls-setup"}
	if onlyAsync {
		variants = nil
	}
	for _, variant := range variants {
		func() {
			defer func() {
				if p := recover(); p != nil {
					fail("failure-state", "wss:// handshake whose TLS dial fails (%s) panicked: %v", variant, p)
				}
			}()
			ws, err := websocket.NewWebsocketStream(ioc, &tls.Config{InsecureSkipVerify: true}, websocket.RoleClient)
			if err != nil {
				return
			}
			ln, err := net.Listen("tcp", "127.0.0.1:0")
			if err != nil {
				return
			}
			addr := ln.Addr().String()
			if variant == "refused" {
				ln.Close()
			} else {
				defer ln.Close()
				go func() {
					if c, err := ln.Accept(); err == nil {
						c.Close()
					}
				}()
			}
			herr := ws.Handshake("wss://" + addr + "/")
			if herr == nil {
				fail("failure-state", "wss:// handshake (%s) reported success", variant)
				return
			}
			if ws.State() != websocket.StateTerminated {
				fail("failure-state", "after a failed wss:// dial (%s: %v) the state is %v, not terminated", variant, herr, ws.State())
			}
			// the same stream works against a conforming server afterwards
			ln2, err := net.Listen("tcp", "127.0.0.1:0")
			if err != nil {
				return
			}
			defer ln2.Close()
			go serve(ln2, 0)
			if err := ws.Handshake("ws://" + ln2.Addr().String() + "/"); err != nil || ws.State() != websocket.StateActive {
				fail("rehandshake", "handshake after a failed wss:// dial (%s): err=%v state=%v", variant, err, ws.State())
				return
			}
			if f, err := ws.NextFrame(); err != nil || string(f.Payload()) != "hi" {
				fail("bytes-after-blank-line", "first frame after re-handshake: err=%v", err)
			}
			_ = ws.CloseNextLayer()
		}()
	}

	// 2. the first frame arrives later than the dial timeout after the connection was made
	func() {
		if onlyAsync {
			return
		}
		defer func() {
			if p := recover(); p != nil {
				fail("quiet-period", "panicked: %v", p)
			}
		}()
		ws, err := websocket.NewWebsocketStream(ioc, nil, websocket.RoleClient)
		if err != nil {
			return
		}
		ln, err := net.Listen("tcp", "127.0.0.1:0")
		if err != nil {
			return
		}
		defer ln.Close()
		go serve(ln, websocket.DialTimeout+300*time.Millisecond)
		if err := ws.Handshake("ws://" + ln.Addr().String() + "/"); err != nil {
			fail("quiet-period", "handshake: %v", err)
			return
		}
		f, err := ws.NextFrame()
		if err != nil || string(f.Payload()) != "hi" {
			fail("quiet-period", "the frame the server sent %v after the connection was made was not delivered: err=%v state=%v",
				websocket.DialTimeout+300*time.Millisecond, err, ws.State())
		}
		_ = ws.CloseNextLayer()
	}()
	// 3. AsyncHandshake whose upgrade is refused (the server answers 400 and keeps the connection): the completion is posted to the
	// loop by the dialling goroutine; the failure callback handshakes again on the same Stream, at once, with a conforming server.
	// The new session must work — and, in the race-detector build of this monitor (property C05), the dialling goroutine must be
	// done with the Stream when it posts the completion.
	rounds := 6
	if onlyAsync {
		rounds = 30
	}
	for round := 0; round < rounds; round++ {
		func() {
			defer func() {
				if p := recover(); p != nil {
					fail("async-failure", "panicked: %v", p)
				}
			}()
			ws, err := websocket.NewWebsocketStream(ioc, nil, websocket.RoleClient)
			if err != nil {
				return
			}
			bad, err := net.Listen("tcp", "127.0.0.1:0")
			if err != nil {
				return
			}
			defer bad.Close()
			go func() {
				c, err := bad.Accept()
				if err != nil {
					return
				}
				defer c.Close()
				if _, err := http.ReadRequest(bufio.NewReader(c)); err != nil {
					return
				}
				fmt.Fprintf(c, "HTTP/1.1 400 Bad Request\r\nContent-Length: 0\r\n\r\n")
				_, _ = io.Copy(io.Discard, c) // until the client closes
			}()
			good, err := net.Listen("tcp", "127.0.0.1:0")
			if err != nil {
				return
			}
			defer good.Close()
			go serve(good, 0)
			firstErr, secondDone := error(nil), false
			var secondErr error
			firstDone := false
			ws.AsyncHandshake("ws://"+bad.Addr().String()+"/", func(err error) {
				firstDone, firstErr = true, err
				ws.AsyncHandshake("ws://"+good.Addr().String()+"/", func(err error) { secondDone, secondErr = true, err })
			})
			deadline := time.Now().Add(3 * time.Second)
			for !secondDone && time.Now().Before(deadline) {
				_ = ioc.RunOneFor(5 * time.Millisecond)
			}
			switch {
			case !firstDone:
				fail("async-failure", "the callback of an AsyncHandshake whose upgrade was refused never ran")
			case firstErr == nil:
				fail("async-failure", "an AsyncHandshake answered with 400 reported success")
			case !secondDone:
				fail("async-failure", "the AsyncHandshake started from the failure callback never completed")
			case secondErr != nil || ws.State() != websocket.StateActive:
				fail("rehandshake", "AsyncHandshake from the failure callback of a refused upgrade: err=%v state=%v", secondErr, ws.State())
			default:
				if f, err := ws.NextFrame(); err != nil || string(f.Payload()) != "hi" {
					fail("rehandshake", "first frame of the session opened from the failure callback: err=%v", err)
				}
			}
			_ = ws.CloseNextLayer()
		}()
	}
	fmt.Fprintf(w, "DIRECT-STAT {\"wshandshake_direct_failures\": %d}\n", fails)
}
