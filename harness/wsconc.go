package main

// Component "wsconc" (property C17): a real websocket.Stream (client role) attached with the verif hook to a REAL
// sonic.AsyncAdapter over a real TCP connection; the other end is a std-library connection driven by this file (the
// "raw peer"): it sends frames built by the independent encoder of wsstream.go and parses everything the client
// writes with the independent RFC 6455 parser of wsstream.go. Application calls (AsyncNextFrame, AsyncNextMessage,
// AsyncWrite, AsyncWriteFrame, AsyncFlush, AsyncClose - at top level or from inside completion callbacks) and peer
// events are placed in chosen poll cycles (poll = ioc.PollOne()); whether the transport accepts bytes is controlled
// by the peer not reading (small socket buffers) and then draining.
//
// The adapter is given an io.ReadWriter that performs the read(2)/write(2) on the same socket without blocking and
// reports what the kernel did as "?" lines (bytes accepted by a write, bytes and complete peer frames brought in by a
// read): with rw=raw a write that the kernel accepts partially returns the short count, which is what makes the
// adapter's write reactor keep a write in flight across poll cycles; with rw=conn the net.Conn's own Write is used.
//
// Script operations ("!" lines):
//
//	new rw=raw|conn snd=<bytes> rcv=<bytes> max=<max message size>
//	prog <cb> a ; b ; c                 actions executed inside the completion callback <cb>
//	read <cb> | readmsg <cb> <bufsize>  AsyncNextFrame / AsyncNextMessage
//	write <cb> <type> <len>             AsyncWrite (payload = pattern of (cb, len))
//	writeframe <cb> <fin> <op> <len>    AsyncWriteFrame of a caller-built frame
//	flush <cb> | close <cb> <code> <hexreason>
//	peer <fin> <rsv> <op> <masked> <hex>   the peer sends one frame;  peereof: the peer half-closes
//	drain                               the peer reads everything the client's kernel has accepted
//	setmax                              SetMaxMessageSize(<the configured value + 70000>), with whatever is in flight
//	poll                                ioc.PollOne()
//	finish                              last flush, then drain / feed pending reads / poll until nothing moves
//
// Trace: "< call ..", "< enter <cb> <result> st=<state>", "< exit <cb>", "< ret ..", "< ctl ..", "< skip ..",
// "< peer seq=..", "< wire <frames> partial=<n>", "< finish stuck=.. partial=.. healthy=..", and the "?" lines above.

import (
	"bufio"
	"context"
	"fmt"
	"io"
	"net"
	"os"
	"runtime"
	"sort"
	"strconv"
	"strings"
	"syscall"
	"time"

	"github.com/talostrading/sonic"
	"github.com/talostrading/sonic/codec/websocket"
	"golang.org/x/sys/unix"
)

func init() {
	components["wsconc"] = &component{gen: wsconcGen, enum: wsconcEnum, run: wsconcRun, direct: wsconcDirect}
}

type wsconcCb struct {
	kind    string
	entered int
}

type wsconcWorld struct {
	w   *bufio.Writer
	ioc *sonic.IO
	ws  *websocket.Stream
	adp *sonic.AsyncAdapter
	nc  net.Conn
	rc  syscall.RawConn
	cfd int
	raw bool

	peer    *net.TCPConn
	prc     syscall.RawConn
	pfd     int
	peerEOF bool

	progs    map[int][]string
	cbs      map[int]*wsconcCb
	depth    int
	readBusy bool
	keep     [][]byte

	peerEnds  []int // cumulative end offset of every frame the peer has sent
	peerSent  int
	peerFrag  bool // the peer's last data frame was not final
	maxMsg    int  // the configured maximum message size
	peerClose bool // the peer has sent a Close frame: a conforming peer sends nothing after it, and neither does finish()
	rxBytes   int  // bytes the adapter has read
	rxFrames  int  // peer frames completely read by the adapter

	txBytes int    // bytes the client's kernel has accepted
	rxPeer  int    // bytes the peer has read
	got     []byte // received by the peer, not yet parsed into frames

	ioErr bool
	moved int
}

func wsconcPat(id, n int) []byte {
	b := make([]byte, n)
	for j := range b {
		b[j] = byte((j*11 + id*17 + 3) % 251)
	}
	return b
}

func wsconcFnv(b []byte) uint64 {
	h := uint64(14695981039346656037)
	for _, x := range b {
		h ^= uint64(x)
		h *= 1099511628211
	}
	return h
}

func (lw *wsconcWorld) ev(format string, a ...any)  { fmt.Fprintf(lw.w, "< "+format+"\n", a...) }
func (lw *wsconcWorld) env(format string, a ...any) { fmt.Fprintf(lw.w, "? "+format+"\n", a...) }

func (lw *wsconcWorld) st() string {
	return fmt.Sprintf("st=%s pend=%d", wsState(lw.ws.State()), lw.ws.Pending())
}

// ---- the io.ReadWriter handed to the adapter --------------------------------------------------------

type wsconcRW struct{ lw *wsconcWorld }

func (x wsconcRW) Read(b []byte) (int, error) {
	lw := x.lw
	if len(b) == 0 {
		return 0, nil
	}
	var (
		n   int
		err error
	)
	if cerr := lw.rc.Read(func(fd uintptr) bool { n, err = syscall.Read(int(fd), b); return true }); cerr != nil && err == nil {
		err = cerr
	}
	if err == syscall.EAGAIN || err == syscall.EINTR {
		lw.env("read n=0 frames=0")
		return 0, nil
	}
	if err != nil {
		lw.ioErr = true
		lw.env("read err")
		return 0, err
	}
	if n == 0 {
		lw.env("read eof")
		return 0, io.EOF
	}
	lw.rxBytes += n
	k := 0
	for lw.rxFrames+k < len(lw.peerEnds) && lw.peerEnds[lw.rxFrames+k] <= lw.rxBytes {
		k++
	}
	lw.rxFrames += k
	lw.moved++
	lw.env("read n=%d frames=%d", n, k)
	return n, nil
}

func (x wsconcRW) Write(b []byte) (int, error) {
	lw := x.lw
	var (
		n   int
		err error
	)
	if lw.raw {
		if cerr := lw.rc.Write(func(fd uintptr) bool { n, err = syscall.Write(int(fd), b); return true }); cerr != nil && err == nil {
			err = cerr
		}
		if err == syscall.EAGAIN || err == syscall.EINTR {
			lw.env("write n=0 of=%d", len(b))
			return 0, nil
		}
	} else {
		_ = lw.nc.SetWriteDeadline(time.Now().Add(2 * time.Second))
		n, err = lw.nc.Write(b)
	}
	if n < 0 {
		n = 0
	}
	if n > 0 {
		lw.txBytes += n
		lw.moved++
	}
	if err != nil {
		lw.ioErr = true
		lw.env("write err n=%d of=%d", n, len(b))
		return n, err
	}
	lw.env("write n=%d of=%d", n, len(b))
	return n, nil
}

func (x wsconcRW) Close() error { return x.lw.nc.Close() }

// ---- set-up -----------------------------------------------------------------------------------------

func (lw *wsconcWorld) setup(f []string) string {
	snd, _ := attr(f, "snd")
	rcv, _ := attr(f, "rcv")
	max, _ := attr(f, "max")
	mode, _ := attr(f, "rw")
	lw.raw = mode != "conn"
	// socket buffer sizes are set before listen / connect: changing them on an established connection shrinks the
	// advertised window under the sender's feet and every refill then waits for a retransmission timer
	sockopt := func(opt int, v string) func(network, address string, c syscall.RawConn) error {
		return func(network, address string, c syscall.RawConn) error {
			if v != "" && v != "0" {
				_ = c.Control(func(fd uintptr) { _ = syscall.SetsockoptInt(int(fd), syscall.SOL_SOCKET, opt, atoi(v)) })
			}
			return nil
		}
	}
	lc := net.ListenConfig{Control: sockopt(syscall.SO_RCVBUF, rcv)}
	ln, err := lc.Listen(context.Background(), "tcp", "127.0.0.1:0")
	if err != nil {
		return "fail-listen"
	}
	defer ln.Close()
	d := net.Dialer{Control: sockopt(syscall.SO_SNDBUF, snd)}
	nc, err := d.Dial("tcp", ln.Addr().String())
	if err != nil {
		return "fail-dial"
	}
	lw.nc = nc
	p, err := ln.Accept()
	if err != nil {
		return "fail-accept"
	}
	lw.peer = p.(*net.TCPConn)
	if lw.rc, err = nc.(syscall.Conn).SyscallConn(); err != nil {
		return "fail-rawconn"
	}
	if lw.prc, err = lw.peer.SyscallConn(); err != nil {
		return "fail-rawconn"
	}
	_ = lw.prc.Control(func(fd uintptr) { lw.pfd = int(fd) })
	var aerr error
	sonic.NewAsyncAdapter(lw.ioc, nc.(syscall.Conn), wsconcRW{lw}, func(err error, a *sonic.AsyncAdapter) {
		aerr = err
		lw.adp = a
	})
	if aerr != nil || lw.adp == nil {
		return "fail-adapter"
	}
	lw.cfd = lw.adp.RawFd()
	ws, err := websocket.NewWebsocketStream(lw.ioc, nil, websocket.RoleClient)
	if err != nil {
		return "fail-stream"
	}
	if err := ws.VerifAttach(lw.adp); err != nil {
		return "fail-attach"
	}
	if max != "" {
		ws.SetMaxMessageSize(atoi(max))
		lw.maxMsg = atoi(max)
	}
	ws.SetControlCallback(func(mt websocket.MessageType, payload []byte) {
		lw.ev("ctl %d %s st=%s", int(mt), wsHx(payload), wsState(ws.State()))
	})
	lw.ws = ws
	return "ok"
}

func (lw *wsconcWorld) cleanup() {
	if lw.adp != nil {
		guard(func() { _ = lw.adp.Close() })
	} else if lw.nc != nil {
		_ = lw.nc.Close()
	}
	if lw.peer != nil {
		_ = lw.peer.Close()
	}
	if lw.ioc != nil {
		_ = lw.ioc.Close()
	}
}

// ---- actions ----------------------------------------------------------------------------------------

func (lw *wsconcWorld) entered(id int, res string) {
	lw.depth++
	cb := lw.cbs[id]
	cb.entered++
	if cb.kind == "read" || cb.kind == "readmsg" {
		lw.readBusy = false
	}
	lw.moved++
	lw.ev("enter %d %s st=%s d=%d", id, res, wsState(lw.ws.State()), lw.depth)
	if cb.entered == 1 { // a second invocation is already a violation; its program is not run again
		for _, a := range lw.progs[id] {
			lw.exec(strings.Fields(a))
		}
	}
	lw.ev("exit %d", id)
	lw.depth--
}

func (lw *wsconcWorld) exec(f []string) {
	if len(f) == 0 {
		return
	}
	switch f[0] {
	case "read", "readmsg", "write", "writeframe", "flush", "close":
		id := atoi(f[1])
		isRead := f[0] == "read" || f[0] == "readmsg"
		// usage precondition (definitions.go): one read in flight; callback ids name one call each
		if lw.cbs[id] != nil || (isRead && lw.readBusy) {
			lw.ev("skip %s", strings.Join(f, " "))
			return
		}
		lw.cbs[id] = &wsconcCb{kind: f[0]}
		lw.ev("call %s d=%d", strings.Join(f, " "), lw.depth)
		plain := func(err error) { lw.entered(id, wsErr(err)) }
		switch f[0] {
		case "read":
			lw.readBusy = true
			lw.ws.AsyncNextFrame(func(err error, fr websocket.Frame) {
				lw.entered(id, fmt.Sprintf("%s f=%s", wsErr(err), wsFrameStr(fr)))
			})
		case "readmsg":
			lw.readBusy = true
			b := make([]byte, atoi(f[2]))
			lw.keep = append(lw.keep, b)
			lw.ws.AsyncNextMessage(b, func(err error, n int, mt websocket.MessageType) {
				nn := n
				if nn < 0 || nn > len(b) {
					nn = 0
				}
				lw.entered(id, fmt.Sprintf("%s n=%d type=%d data=%s", wsErr(err), n, int(mt), wsHx(b[:nn])))
			})
		case "write":
			lw.ws.AsyncWrite(wsconcPat(id, atoi(f[3])), websocket.MessageType(atoi(f[2])), plain)
		case "writeframe":
			fr := lw.ws.AcquireFrame()
			if f[2] == "1" {
				fr.SetFIN()
			}
			fr.SetOpcode(websocket.Opcode(atoi(f[3])))
			if n := atoi(f[4]); n > 0 {
				fr.SetPayload(wsconcPat(id, n))
			} // an empty frame is an acquired frame with its flags set and no payload call (the pool may hand out a used frame)
			lw.ws.AsyncWriteFrame(fr, plain)
		case "flush":
			lw.ws.AsyncFlush(plain)
		case "close":
			lw.ws.AsyncClose(websocket.CloseCode(atoi(f[2])), string(unhx(f[3])), plain)
		}
		lw.ev("ret %s", lw.st())
	case "setmax":
		// the application raises the maximum message size while reads / writes are in flight (scripts with this action
		// never send a frame above the original maximum): nothing observable changes
		if lw.ws != nil && lw.maxMsg > 0 {
			lw.maxMsg += 70000
			lw.ws.SetMaxMessageSize(lw.maxMsg)
		}
		lw.ev("skip setmax")
	case "poll":
		if lw.depth > 0 {
			lw.ev("skip poll")
			return
		}
		lw.ev("call poll d=0")
		n, err := lw.ioc.PollOne()
		lw.ev("ret n=%d err=%s %s", n, errClass(err), lw.st())
	case "peer":
		if lw.peerEOF || lw.depth > 0 {
			lw.ev("skip %s", strings.Join(f, " "))
			return
		}
		fin, op := f[1] == "1", atoi(f[3])
		b := wsEncodePeer(fin, atoi(f[2]), op, f[4] == "1", unhx(f[5]))
		_ = lw.peer.SetWriteDeadline(time.Now().Add(time.Second))
		if _, err := lw.peer.Write(b); err != nil {
			lw.ev("skip %s", strings.Join(f, " "))
			return
		}
		lw.peerSent += len(b)
		lw.peerEnds = append(lw.peerEnds, lw.peerSent)
		if op <= 2 {
			lw.peerFrag = !fin
		}
		if op == 8 {
			lw.peerClose = true
		}
		lw.ev("peer seq=%d %s", len(lw.peerEnds)-1, strings.Join(f[1:], " "))
		waitReady(lw.cfd, unix.POLLIN, 200)
	case "peereof":
		if lw.peerEOF || lw.depth > 0 {
			lw.ev("skip peereof")
			return
		}
		lw.peerEOF = true
		_ = lw.peer.CloseWrite()
		lw.ev("peereof")
		waitReady(lw.cfd, unix.POLLIN, 200)
	case "drain":
		if lw.depth > 0 {
			lw.ev("skip drain")
			return
		}
		lw.drain()
	case "finish":
		if lw.depth > 0 {
			return
		}
		lw.finish()
	default:
		panic("wsconc: bad action " + strings.Join(f, " "))
	}
}

// drain: the peer reads until it has everything the client's kernel accepted, then reports the complete frames.
func (lw *wsconcWorld) drain() {
	buf := make([]byte, 1<<16)
	for tries := 0; tries < 60; tries++ {
		for {
			var (
				k   int
				err error
			)
			_ = lw.prc.Read(func(fd uintptr) bool { k, err = syscall.Read(int(fd), buf); return true })
			if err != nil || k <= 0 {
				break
			}
			lw.got = append(lw.got, buf[:k]...)
			lw.rxPeer += k
			lw.moved++
		}
		if lw.rxPeer >= lw.txBytes {
			break
		}
		waitReady(lw.pfd, unix.POLLIN, 50)
	}
	frames, rest := wsParseWire(lw.got)
	lw.got = append([]byte(nil), rest...)
	var parts []string
	for _, fr := range frames {
		head := fr.payload
		if len(head) > 4 {
			head = head[:4]
		}
		parts = append(parts, fmt.Sprintf("%d:%d:%d:%d:%d:%016x:%s", b01(fr.fin), fr.rsv, fr.op, b01(fr.masked), len(fr.payload), wsconcFnv(fr.payload), wsHx(head)))
	}
	s := "-"
	if len(parts) > 0 {
		s = strings.Join(parts, ",")
	}
	lw.ev("wire %s partial=%d lag=%d", s, len(rest), lw.txBytes-lw.rxPeer)
	// the client's socket becomes writable again once the window update is back
	if lw.ws != nil && lw.writeBusy() {
		waitReady(lw.cfd, unix.POLLOUT, 20)
	}
}

// writeBusy: some write-side callback has not run yet.
func (lw *wsconcWorld) writeBusy() bool {
	for _, cb := range lw.cbs {
		if cb.entered == 0 && cb.kind != "read" && cb.kind != "readmsg" {
			return true
		}
	}
	return false
}

func (lw *wsconcWorld) outstanding() []int {
	var ids []int
	for id, cb := range lw.cbs {
		if cb.entered == 0 {
			ids = append(ids, id)
		}
	}
	sort.Ints(ids)
	return ids
}

// finish: a last flush (so that replies queued by the read path go out), then the peer drains and sends what pending
// reads need, and the loop is polled until nothing moves any more.
func (lw *wsconcWorld) finish() {
	id := 9000
	for attempt := 0; attempt < 6; attempt++ {
		for lw.cbs[id] != nil {
			id++
		}
		lw.exec([]string{"flush", strconv.Itoa(id)})
		idle := 0
		// patient only while something is owed: on a loaded machine the loopback may need a moment
		limit := func() int {
			if len(lw.outstanding()) > 0 {
				return 6
			}
			return 3
		}
		for round := 0; round < 600 && idle < limit(); round++ {
			before := lw.moved
			lw.drain()
			if len(lw.outstanding()) == 0 && lw.rxPeer >= lw.txBytes && lw.ioc.Pending() == 0 {
				// nothing is owed, the peer has everything and no reactor is armed (a flush the library started
				// for itself shows only in the loop's pending count)
				break
			}
			if lw.readBusy && !lw.peerEOF && !lw.peerClose && idle >= 1 && lw.rxFrames == len(lw.peerEnds) {
				if lw.peerFrag {
					lw.exec([]string{"peer", "1", "0", "0", "0", "7a"})
				} else {
					lw.exec([]string{"peer", "1", "0", "1", "0", "7a"})
				}
			}
			if lw.readBusy && lw.rxBytes < lw.peerSent {
				waitReady(lw.cfd, unix.POLLIN, 20+20*idle)
			}
			lw.exec([]string{"poll"})
			if lw.moved == before {
				idle++
				if lw.writeBusy() {
					waitReady(lw.cfd, unix.POLLOUT, 30+20*idle)
				}
			} else {
				idle = 0
			}
		}
		// replies queued by reads that completed meanwhile need one more flush
		if lw.ws.Pending() == 0 || lw.ioErr {
			break
		}
	}
	lw.drain()
	var stuck []string
	for _, id := range lw.outstanding() {
		stuck = append(stuck, strconv.Itoa(id))
	}
	s := "-"
	if len(stuck) > 0 {
		s = strings.Join(stuck, ",")
	}
	lw.ev("finish stuck=%s partial=%d healthy=%d", s, len(lw.got), b01(!lw.ioErr))
}

func wsconcRun(script []string, w *bufio.Writer) {
	runtime.LockOSThread()
	defer runtime.UnlockOSThread()
	dog := time.AfterFunc(30*time.Second, func() {
		fmt.Fprintf(w, "< hang\n")
		w.Flush()
		os.Exit(3)
	})
	defer dog.Stop()
	lw := &wsconcWorld{w: w, progs: map[int][]string{}, cbs: map[int]*wsconcCb{}}
	ioc, err := sonic.NewIO()
	if err != nil {
		fmt.Fprintf(w, "< fatal newio\n")
		return
	}
	lw.ioc = ioc
	defer lw.cleanup()
	for _, line := range script {
		fmt.Fprintf(w, "! %s\n", line)
		f := strings.Fields(line)
		if len(f) == 0 {
			continue
		}
		switch f[0] {
		case "new":
			if lw.ws != nil {
				continue
			}
			r := lw.setup(f)
			fmt.Fprintf(w, "< new %s\n", r)
			if r != "ok" {
				return
			}
		case "prog":
			id := atoi(f[1])
			for _, a := range strings.Split(strings.Join(f[2:], " "), ";") {
				if strings.TrimSpace(a) != "" {
					lw.progs[id] = append(lw.progs[id], strings.TrimSpace(a))
				}
			}
		default:
			if lw.ws == nil {
				continue
			}
			if guard(func() { lw.exec(f) }) {
				fmt.Fprintf(w, "< panic\n")
				return
			}
		}
	}
}
