package main

// Component "post": IO.Post from real goroutines.
//
// Trace mode (linearised schedules, compared exactly with the interleaving model): "post <k> <h>" makes goroutine k
// call ioc.Post for handler h and waits until the call has returned; "nest <h> <h'>" makes handler h post h' when it
// runs; "poll" calls PollOne on the loop thread and reports which handlers ran, in order, whether they ran on the
// loop's OS thread, and Pending()/Posted() afterwards.
//
// Direct mode (search for a failing schedule; nothing a model can exhibit): N goroutines post M handlers each,
// concurrently with the running loop, handlers post again; every handler must run exactly once, on the loop thread,
// in per-goroutine order, the loop must not deadlock, and Pending()/Posted() must be zero at the end.

import (
	"bufio"
	"fmt"
	"net"
	"os"
	"runtime"
	"sort"
	"strings"
	"sync"
	"sync/atomic"
	"syscall"
	"time"

	"github.com/talostrading/sonic"
	"github.com/talostrading/sonic/codec/websocket"
	"github.com/talostrading/sonic/sonicerrors"
)

func init() {
	components["post"] = &component{gen: postGen, enum: postEnum, run: postRun, direct: postDirect}
}

func postGen(r *rng, maxops int, w *bufio.Writer) {
	n := 3 + r.intn(maxops)
	next := 1
	var posted []int
	for i := 0; i < n; i++ {
		switch r.intn(6) {
		case 0, 1, 2:
			fmt.Fprintf(w, "! post %d %d\n", r.intn(4), next)
			posted = append(posted, next)
			next++
		case 3:
			if len(posted) > 0 {
				// a handler not yet run posts another one when it runs (possibly a chain)
				h := posted[r.intn(len(posted))]
				fmt.Fprintf(w, "! nest %d %d\n", h, next)
				posted = append(posted, next)
				next++
			}
		case 4, 5:
			fmt.Fprintf(w, "! poll\n")
		}
	}
	fmt.Fprintf(w, "! poll\n! poll\n! poll\n! poll\n")
}

func postEnum(args []string, w *bufio.Writer) {
	// every sequence of <depth> steps over {post by 0, post by 1, nest on the last posted, poll}
	depth := atoi(args[0])
	k := 0
	var rec func(prefix []int)
	rec = func(prefix []int) {
		if len(prefix) == depth {
			fmt.Fprintf(w, "# script %d\n", k)
			k++
			next, last := 1, 0
			for _, c := range prefix {
				switch c {
				case 0, 1:
					fmt.Fprintf(w, "! post %d %d\n", c, next)
					last = next
					next++
				case 2:
					if last > 0 {
						fmt.Fprintf(w, "! nest %d %d\n", last, next)
						last = next
						next++
					}
				case 3:
					fmt.Fprintf(w, "! poll\n")
				}
			}
			fmt.Fprintf(w, "! poll\n! poll\n! poll\n")
			return
		}
		for c := 0; c < 4; c++ {
			rec(append(prefix, c))
		}
	}
	rec(nil)
}

func postRun(script []string, w *bufio.Writer) {
	runtime.LockOSThread()
	defer runtime.UnlockOSThread()
	ioc, err := sonic.NewIO()
	if err != nil {
		fmt.Fprintf(w, "< fatal\n")
		return
	}
	defer ioc.Close()
	loopTid := syscall.Gettid()
	nests := map[int][]int{}
	ranBefore := map[int]bool{}
	var ran []string
	sameTid := true
	var handler func(h int) func()
	handler = func(h int) func() {
		return func() {
			if syscall.Gettid() != loopTid {
				sameTid = false
			}
			if ranBefore[h] {
				ran = append(ran, fmt.Sprintf("%d!again", h))
			} else {
				ran = append(ran, fmt.Sprintf("%d", h))
			}
			ranBefore[h] = true
			for _, c := range nests[h] {
				_ = ioc.Post(handler(c))
			}
		}
	}
	for _, line := range script {
		fmt.Fprintf(w, "! %s\n", line)
		f := strings.Fields(line)
		switch f[0] {
		case "post":
			h := atoi(f[2])
			done := make(chan error, 1)
			go func() { done <- ioc.Post(handler(h)) }()
			select {
			case err := <-done:
				fmt.Fprintf(w, "< posted err=%s pending=%d posted=%d\n", errClass(err), ioc.Pending(), ioc.Posted())
			case <-time.After(3 * time.Second):
				fmt.Fprintf(w, "< posted err=hang pending=%d posted=-1\n", ioc.Pending())
				return
			}
		case "nest":
			nests[atoi(f[1])] = append(nests[atoi(f[1])], atoi(f[2]))
			fmt.Fprintf(w, "< ok\n")
		case "poll":
			ran = ran[:0]
			type res struct {
				n   int
				err error
			}
			// the poll itself runs on this (locked) thread; a watchdog detects a loop that deadlocks inside dispatch
			timer := time.AfterFunc(5*time.Second, func() {
				fmt.Fprintf(w, "< ran hang\n")
				w.Flush()
				os.Exit(3)
			})
			n, err := ioc.PollOne()
			timer.Stop()
			r := "-"
			if len(ran) > 0 {
				r = strings.Join(ran, ",")
			}
			ec := errClass(err)
			if err == sonicerrors.ErrTimeout {
				ec = "timeout"
			}
			fmt.Fprintf(w, "< ran %s n=%d err=%s sametid=%v pending=%d posted=%d\n", r, n, ec, sameTid, ioc.Pending(), ioc.Posted())
		}
	}
}

// postClosedObjectStart: an operation started on an object that was closed, after its descriptor number went to another open
// descriptor (here: a pipe end), is not an operation in flight: its callback reports the error, Pending() does not count it
// (RunPending would otherwise wait for something nobody can complete) and the descriptor that now owns the number is left alone.
func postClosedObjectStart() (bool, string) {
	runtime.LockOSThread()
	defer runtime.UnlockOSThread()
	ioc, err := sonic.NewIO()
	if err != nil {
		return true, ""
	}
	defer ioc.Close()
	for _, kind := range []string{"tcp-read", "tcp-write", "tcp-readall"} {
		ln, err := net.Listen("tcp", "127.0.0.1:0")
		if err != nil {
			return true, ""
		}
		conn, err := sonic.Dial(ioc, "tcp", ln.Addr().String())
		if err != nil {
			ln.Close()
			return true, ""
		}
		peer, _ := ln.Accept()
		fd := conn.RawFd()
		_ = conn.Close()
		var p [2]int
		if err := syscall.Pipe2(p[:], syscall.O_NONBLOCK); err != nil {
			ln.Close()
			return true, ""
		}
		cleanup := func() {
			syscall.Close(p[0])
			syscall.Close(p[1])
			if peer != nil {
				peer.Close()
			}
			ln.Close()
		}
		if p[0] != fd {
			cleanup() // the number was not reused by the read end: not this trial's subject
			continue
		}
		before := ioc.Pending()
		calls := 0
		var gotErr error
		cb := func(err error, n int) { calls++; gotErr = err }
		buf := make([]byte, 8)
		switch kind {
		case "tcp-read":
			conn.AsyncRead(buf, cb)
		case "tcp-readall":
			conn.AsyncReadAll(buf, cb)
		case "tcp-write":
			conn.AsyncWrite(buf, cb)
		}
		pend := ioc.Pending()
		_, _ = syscall.Write(p[1], []byte{0x42})
		for i := 0; i < 10; i++ {
			_ = ioc.RunOneFor(2 * time.Millisecond)
		}
		var one [4]byte
		n, _ := syscall.Read(p[0], one[:])
		cleanup()
		if kind != "tcp-write" && (pend != before || calls != 1 || gotErr == nil || n != 1 || one[0] != 0x42) {
			return false, fmt.Sprintf("%s on a closed connection whose descriptor number now belongs to a pipe: Pending() %d -> %d right after the call, callback ran %d time(s) err=%v; the byte written into the pipe afterwards: read %d byte(s) (want: an error reported, nothing in flight, the pipe untouched)", kind, before, pend, calls, gotErr, n)
		}
		if kind == "tcp-write" && (ioc.Pending() != before || calls != 1) {
			return false, fmt.Sprintf("%s on a closed connection whose descriptor number now belongs to a pipe: Pending() %d -> %d, callback ran %d time(s) err=%v", kind, before, ioc.Pending(), calls, gotErr)
		}
	}
	return true, ""
}

func postDirect(seed uint64, tier string, args []string, w *bufio.Writer) {
	// RunPending while other goroutines post and one more operation is in flight: it returns only when nothing is
	rp := 3000
	if tier == "thorough" {
		rp = 30000
	}
	rpOK, rpWhy := postRunPending(rp, 4, 25)
	if !rpOK {
		fmt.Fprintf(w, "DIRECT-FAIL key=post.%s mode=runpending rounds=%d posters=4 per=25\n", rpWhy, rp)
	}
	if ok, why := postClosedObjectStart(); !ok {
		fmt.Fprintf(w, "DIRECT-FAIL key=post.runpending-closed-object-start %s\n", why)
	}
	if len(args) > 0 && args[0] == "only=runpending" {
		fmt.Fprintf(w, "DIRECT-STAT {\"post_runpending_rounds\": %d, \"post_runpending_ok\": %v}\n", rp, rpOK)
		return
	}
	rounds, posters, per := 30, 8, 200
	if tier == "thorough" {
		rounds, posters, per = 200, 16, 400
	}
	fails := 0
	total := 0
	r := newRng(seed)
	for round := 0; round < rounds; round++ {
		nestDepth := r.intn(4)
		ok, why, n := postStress(posters, per, nestDepth, r.intn(3) == 0)
		total += n
		if !ok {
			fails++
			fmt.Fprintf(w, "DIRECT-FAIL key=post.%s round=%d posters=%d per=%d nest=%d\n", why, round, posters, per, nestDepth)
			if fails >= 3 {
				break
			}
		}
	}
	// ping-pong: every Post finds the loop blocked in its wait, so every single wake-up matters
	pp := 4000
	if tier == "thorough" {
		pp = 40000
	}
	if ok, why := postPingPong(3, pp); !ok {
		fails++
		fmt.Fprintf(w, "DIRECT-FAIL key=post.%s mode=pingpong posts=%d\n", why, 3*pp)
	}
	total += 3 * pp
	// bursts: several goroutines post at the same instant while the loop is dispatching, so that posters queue up on
	// the lock; once all Post calls have returned every handler must run although no further Post will wake the loop
	br := 1500
	if tier == "thorough" {
		br = 20000
	}
	if ok, why := postBurst(br, 12, 4); !ok {
		fails++
		fmt.Fprintf(w, "DIRECT-FAIL key=post.%s mode=burst rounds=%d posters=12 per=4\n", why, br)
	}
	total += br * 48
	// posting while the loop goroutine arms and disarms a descriptor: both paths update the pending count
	ad := 1500 * time.Millisecond
	if tier == "thorough" {
		ad = 8 * time.Second
	}
	if ok, why, n := postWhileArming(8, ad); !ok {
		fails++
		fmt.Fprintf(w, "DIRECT-FAIL key=post.%s mode=post-while-arming posts=%d\n", why, n)
	} else {
		total += n
	}
	// ... and while it closes connections that have a read and a write waiting in the poller (both interests dropped at once)
	if ok, why, n := postWhileClosingBoth(8, ad); !ok {
		fails++
		fmt.Fprintf(w, "DIRECT-FAIL key=post.%s mode=post-while-closing-connections posts=%d\n", why, n)
	} else {
		total += n
	}
	// Pending() and Posted() next to an armed timer, before, inside and after the dispatch of posted handlers
	if ok, why := postCounters(); !ok {
		fails++
		fmt.Fprintf(w, "DIRECT-FAIL key=post.%s mode=counters\n", why)
	}
	// a posted handler whose wake-up shares a poll batch with an I/O callback that panics (recovered by the application)
	if ok, why := postSurvivesPanickingCallback(); !ok {
		fails++
		fmt.Fprintf(w, "DIRECT-FAIL key=post.%s mode=panicking-callback\n", why)
	}
	// goroutines that keep posting while the loop goroutine closes the IO context
	if ok, why := postWhileClosingIO(40); !ok {
		fails++
		fmt.Fprintf(w, "DIRECT-FAIL key=post.%s mode=post-while-closing-io\n", why)
	}
	// IO.Close with handlers still queued: whatever Close does with them, none runs off the loop goroutine or out of order
	if ok, why := postCloseWithQueued(); !ok {
		fails++
		fmt.Fprintf(w, "DIRECT-FAIL key=post.%s mode=close-with-queued-handlers\n", why)
	}
	// the library's own cross-goroutine hand-off: AsyncHandshake dials on another goroutine and must deliver the
	// completion (state change included) through Post, on the loop goroutine
	ho := 6
	if tier == "thorough" {
		ho = 40
	}
	for i := 0; i < ho; i++ {
		if ok, why := postHandshakeHandoff(i%2 == 0); !ok {
			fails++
			fmt.Fprintf(w, "DIRECT-FAIL key=post.%s mode=handshake-handoff success=%v\n", why, i%2 == 0)
			break
		}
	}
	fmt.Fprintf(w, "DIRECT-STAT {\"post_stress_rounds\": %d, \"post_stress_handlers\": %d, \"post_stress_failures\": %d}\n", rounds, total, fails)
}

// postStress: posters goroutines post `per` handlers each while the loop runs; each handler posts `nest` further
// generations. Returns (ok, failure key, number of handlers expected).
func postStress(posters, per, nest int, slowLoop bool) (bool, string, int) {
	result := make(chan string, 1)
	expected := posters * per * (nest + 1)
	go func() {
		runtime.LockOSThread()
		defer runtime.UnlockOSThread()
		ioc, err := sonic.NewIO()
		if err != nil {
			result <- "newio"
			return
		}
		defer ioc.Close()
		loopTid := syscall.Gettid()
		var executed int64
		counts := make([]int32, posters*per*(nest+1)+1)
		lastSeq := make([]int64, posters) // per poster: last sequence number executed (generation 0 only)
		for i := range lastSeq {
			lastSeq[i] = -1
		}
		bad := atomic.Value{}
		var mk func(id, poster, seq, gen int) func()
		mk = func(id, poster, seq, gen int) func() {
			return func() {
				if syscall.Gettid() != loopTid {
					bad.Store("handler-off-loop-thread")
				}
				if atomic.AddInt32(&counts[id], 1) != 1 {
					bad.Store("handler-ran-twice")
				}
				if ioc.Pending() < 1 {
					// the handler is counted from Post until after it has returned
					bad.Store("pending-does-not-count-the-running-handler")
				}
				if gen == 0 {
					if int64(seq) <= lastSeq[poster] {
						bad.Store("per-poster-order-violated")
					}
					lastSeq[poster] = int64(seq)
				}
				atomic.AddInt64(&executed, 1)
				if gen < nest {
					// nested Post from inside a posted handler
					_ = ioc.Post(mk(id+posters*per, poster, seq, gen+1))
				}
			}
		}
		var wg sync.WaitGroup
		start := make(chan struct{})
		for p := 0; p < posters; p++ {
			wg.Add(1)
			go func(p int) {
				defer wg.Done()
				<-start
				for s := 0; s < per; s++ {
					if err := ioc.Post(mk(1+p*per+s, p, s, 0)); err != nil {
						bad.Store("post-returned-error")
					}
					if s%17 == 0 {
						runtime.Gosched()
					}
				}
			}(p)
		}
		close(start)
		postersDone := make(chan struct{})
		go func() { wg.Wait(); close(postersDone) }()
		deadline := time.Now().Add(20 * time.Second)
		for atomic.LoadInt64(&executed) < int64(expected) && time.Now().Before(deadline) {
			err := ioc.RunOneFor(5 * time.Millisecond)
			if err != nil && err != sonicerrors.ErrTimeout {
				result <- "loop-error"
				return
			}
			if slowLoop {
				time.Sleep(50 * time.Microsecond)
			}
		}
		select {
		case <-postersDone:
		case <-time.After(5 * time.Second):
			result <- "post-blocked-forever"
			return
		}
		if v := bad.Load(); v != nil {
			result <- v.(string)
			return
		}
		if got := atomic.LoadInt64(&executed); got != int64(expected) {
			result <- fmt.Sprintf("handlers-lost")
			return
		}
		// drain anything left and check the counters
		for i := 0; i < 3; i++ {
			_, _ = ioc.PollOne()
		}
		if ioc.Pending() != 0 || ioc.Posted() != 0 {
			result <- "pending-or-posted-not-zero-at-quiescence"
			return
		}
		var missing []int
		for id := 1; id <= expected; id++ {
			if counts[id] != 1 {
				missing = append(missing, id)
			}
		}
		sort.Ints(missing)
		if len(missing) > 0 {
			result <- "handler-count-not-one"
			return
		}
		result <- ""
	}()
	select {
	case why := <-result:
		return why == "", why, expected
	case <-time.After(40 * time.Second):
		return false, "loop-deadlocked", expected
	}
}

// postPingPong: each poster posts one handler and waits until it has run before posting the next, so the loop is
// (almost always) blocked in epoll_wait when Post is called: a wake-up that is lost leaves the handler unexecuted.
func postPingPong(posters, per int) (bool, string) {
	result := make(chan string, 1)
	go func() {
		runtime.LockOSThread()
		defer runtime.UnlockOSThread()
		ioc, err := sonic.NewIO()
		if err != nil {
			result <- "newio"
			return
		}
		defer ioc.Close()
		var stop int32
		var stuck atomic.Value
		var wg sync.WaitGroup
		for p := 0; p < posters; p++ {
			wg.Add(1)
			go func(p int) {
				defer wg.Done()
				for s := 0; s < per && atomic.LoadInt32(&stop) == 0; s++ {
					ran := make(chan struct{})
					if err := ioc.Post(func() {
						if ioc.Pending() < 1 {
							stuck.Store("pending-does-not-count-the-running-handler")
						}
						close(ran)
					}); err != nil {
						stuck.Store("post-returned-error")
						return
					}
					select {
					case <-ran:
					case <-time.After(2 * time.Second):
						stuck.Store("posted-handler-never-run-loop-not-woken")
						atomic.StoreInt32(&stop, 1)
						return
					}
				}
			}(p)
		}
		done := make(chan struct{})
		go func() { wg.Wait(); close(done); _ = ioc.Post(func() {}) }()
		for {
			select {
			case <-done:
				if v := stuck.Load(); v != nil {
					result <- v.(string)
				} else {
					result <- ""
				}
				return
			default:
			}
			// block in the wait: no busy polling, or a lost wake-up would be papered over
			if err := ioc.RunOneFor(4 * time.Second); err != nil && err != sonicerrors.ErrTimeout {
				result <- "loop-error"
				return
			}
		}
	}()
	select {
	case why := <-result:
		return why == "", why
	case <-time.After(120 * time.Second):
		return false, "loop-deadlocked"
	}
}

// postRunPending: per round a timer is armed for an hour (one operation in flight), `posters` goroutines post `per`
// handlers each, and the handler posted last — after all others were posted — closes the timer. The loop goroutine runs
// RunPending: it must not return while the timer is armed or a posted handler has not run.
func postRunPending(rounds, posters, per int) (bool, string) {
	result := make(chan string, 1)
	go func() {
		runtime.LockOSThread()
		defer runtime.UnlockOSThread()
		ioc, err := sonic.NewIO()
		if err != nil {
			result <- "newio"
			return
		}
		defer ioc.Close()
		for round := 0; round < rounds; round++ {
			t, err := sonic.NewTimer(ioc)
			if err != nil {
				result <- "newtimer"
				return
			}
			if err := t.ScheduleOnce(time.Hour, func() {}); err != nil {
				result <- "schedule"
				return
			}
			ran, closed := 0, false // loop goroutine only
			var wg sync.WaitGroup
			for g := 0; g < posters; g++ {
				wg.Add(1)
				go func() {
					defer wg.Done()
					for i := 0; i < per; i++ {
						_ = ioc.Post(func() { ran++ })
					}
				}()
			}
			go func() {
				wg.Wait()
				_ = ioc.Post(func() { closed = true; _ = t.Close() })
			}()
			if err := ioc.RunPending(); err != nil {
				result <- "loop-error"
				return
			}
			if !closed {
				// let the posters finish before the verdict is sent (they use ioc)
				for i := 0; i < 2000 && !closed; i++ {
					_ = ioc.RunOneFor(time.Millisecond)
				}
				result <- "runpending-returned-with-operations-in-flight"
				return
			}
			if ran != posters*per {
				result <- "runpending-returned-with-posted-handlers-not-run"
				return
			}
			if ioc.Pending() != 0 || ioc.Posted() != 0 {
				result <- "pending-or-posted-not-zero-at-quiescence"
				return
			}
		}
		result <- ""
	}()
	select {
	case why := <-result:
		return why == "", why
	case <-time.After(300 * time.Second):
		return false, "loop-deadlocked"
	}
}

// postBurst: per round, `posters` goroutines are released together and post `per` handlers each while the loop goroutine
// keeps dispatching. After every Post call of the round has returned, all handlers of the round must run within a
// generous delay: nothing else is going to wake the loop.
func postBurst(rounds, posters, per int) (bool, string) {
	result := make(chan string, 1)
	go func() {
		runtime.LockOSThread()
		defer runtime.UnlockOSThread()
		ioc, err := sonic.NewIO()
		if err != nil {
			result <- "newio"
			return
		}
		defer ioc.Close()
		expected := posters * per
		for round := 0; round < rounds; round++ {
			ran := 0 // loop goroutine only
			handler := func() { ran++ }
			var wg sync.WaitGroup
			start := make(chan struct{})
			var postErr atomic.Value
			for g := 0; g < posters; g++ {
				wg.Add(1)
				go func() {
					defer wg.Done()
					<-start
					for i := 0; i < per; i++ {
						if err := ioc.Post(handler); err != nil {
							postErr.Store("post-returned-error")
						}
					}
				}()
			}
			returned := make(chan struct{})
			go func() { wg.Wait(); close(returned) }()
			close(start)
			// counted in polls, not in wall-clock time: on a loaded machine the loop goroutine may not run for a while, but 150
			// polls (each waits up to 2 ms) after the last Post returned cannot all miss a wake-up that was written
			after := 0
			for ran < expected {
				if err := ioc.RunOneFor(2 * time.Millisecond); err != nil && err != sonicerrors.ErrTimeout {
					result <- "loop-error"
					return
				}
				select {
				case <-returned:
					if after++; after > 150 {
						result <- "posted-handler-never-run-loop-not-woken"
						return
					}
				default:
				}
			}
			<-returned
			if v := postErr.Load(); v != nil {
				result <- v.(string)
				return
			}
			if ran != expected {
				result <- "handler-count-not-one"
				return
			}
			if ioc.Pending() != 0 || ioc.Posted() != 0 {
				result <- "pending-or-posted-not-zero-at-quiescence"
				return
			}
		}
		result <- ""
	}()
	select {
	case why := <-result:
		return why == "", why
	case <-time.After(300 * time.Second):
		return false, "loop-deadlocked"
	}
}

// postWhileArming: goroutines post continuously while the loop goroutine arms a read on an idle FIFO (deferred to the
// poller: pending + 1) and cancels it (pending - 1) between polls. At the end every handler has run and Pending() and
// Posted() are exactly zero.
func postWhileArming(posters int, d time.Duration) (bool, string, int) {
	result := make(chan string, 1)
	var posted int64
	go func() {
		runtime.LockOSThread()
		defer runtime.UnlockOSThread()
		ioc, err := sonic.NewIO()
		if err != nil {
			result <- "newio"
			return
		}
		defer ioc.Close()
		dir, err := os.MkdirTemp("", "verif-post")
		if err != nil {
			result <- "tmpdir"
			return
		}
		defer os.RemoveAll(dir)
		path := dir + "/idle"
		if err := syscall.Mkfifo(path, 0o600); err != nil {
			result <- "mkfifo"
			return
		}
		f, err := sonic.Open(ioc, path, os.O_RDONLY|syscall.O_NONBLOCK, 0)
		if err != nil {
			result <- "open"
			return
		}
		defer f.Close()
		wfd, err := syscall.Open(path, os.O_WRONLY|syscall.O_NONBLOCK, 0)
		if err != nil {
			result <- "open-writer"
			return
		}
		defer syscall.Close(wfd)
		var ran int64 // loop goroutine only
		var stop int32
		var wg sync.WaitGroup
		for g := 0; g < posters; g++ {
			wg.Add(1)
			go func() {
				defer wg.Done()
				for atomic.LoadInt32(&stop) == 0 {
					if err := ioc.Post(func() { ran++ }); err == nil {
						atomic.AddInt64(&posted, 1)
					}
					if atomic.LoadInt64(&posted)%64 == 0 {
						runtime.Gosched()
					}
				}
			}()
		}
		buf := make([]byte, 8)
		end := time.Now().Add(d)
		cancelled := 0
		for time.Now().Before(end) {
			for i := 0; i < 50; i++ {
				f.AsyncRead(buf, func(err error, n int) { cancelled++ })
				f.Cancel()
			}
			_, _ = ioc.PollOne()
		}
		atomic.StoreInt32(&stop, 1)
		wg.Wait()
		deadline := time.Now().Add(5 * time.Second)
		for ran < atomic.LoadInt64(&posted) && time.Now().Before(deadline) {
			_ = ioc.RunOneFor(5 * time.Millisecond)
		}
		for i := 0; i < 3; i++ {
			_, _ = ioc.PollOne()
		}
		switch {
		case ran != atomic.LoadInt64(&posted):
			result <- "handlers-lost"
		case ioc.Pending() != 0 || ioc.Posted() != 0:
			result <- fmt.Sprintf("pending-or-posted-not-zero-at-quiescence")
		default:
			result <- ""
		}
	}()
	select {
	case why := <-result:
		return why == "", why, int(atomic.LoadInt64(&posted))
	case <-time.After(d + 60*time.Second):
		return false, "loop-deadlocked", int(atomic.LoadInt64(&posted))
	}
}

// postCloseWithQueued: (1) the loop goroutine is inside a posted handler, another handler is queued, a third goroutine closes
// the IO context: the queued handler must not run on that goroutine; (2) a posted handler posts another one and closes the
// IO context with two earlier posts still waiting in its batch: the later post must not overtake them.
// postSurvivesPanickingCallback: a descriptor becomes ready, then a handler is posted, then the loop is polled; the I/O callback —
// dispatched first — panics, the application recovers around the poll call and polls again: the posted handler still runs, once
// (the wake-up it sent is not lost with the aborted batch).
func postSurvivesPanickingCallback() (bool, string) {
	result := make(chan string, 1)
	go func() {
		runtime.LockOSThread()
		defer runtime.UnlockOSThread()
		ioc, err := sonic.NewIO()
		if err != nil {
			result <- "newio"
			return
		}
		defer ioc.Close()
		for round := 0; round < 20; round++ {
			ln, err := net.Listen("tcp", "127.0.0.1:0")
			if err != nil {
				result <- ""
				return
			}
			conn, err := sonic.Dial(ioc, "tcp", ln.Addr().String())
			if err != nil {
				ln.Close()
				result <- ""
				return
			}
			peer, err := ln.Accept()
			ln.Close()
			if err != nil {
				conn.Close()
				result <- ""
				return
			}
			buf := make([]byte, 8)
			conn.AsyncRead(buf, func(error, int) { panic("callback of the application panics") })
			_, _ = peer.Write([]byte("x"))
			time.Sleep(2 * time.Millisecond) // readable before the waker is
			ran := 0
			_ = ioc.Post(func() { ran++ })
			func() {
				defer func() { _ = recover() }()
				_, _ = ioc.PollOne()
			}()
			for i := 0; i < 50 && ran == 0; i++ {
				func() {
					defer func() { _ = recover() }()
					_ = ioc.RunOneFor(2 * time.Millisecond)
				}()
			}
			conn.Close()
			peer.Close()
			if ran != 1 {
				result <- fmt.Sprintf("posted-handler-lost-after-panicking-callback ran=%d round=%d", ran, round)
				return
			}
		}
		result <- ""
	}()
	if why := <-result; why != "" {
		return false, why
	}
	return true, ""
}

// postWhileClosingIO: goroutines keep posting while the loop goroutine closes the IO context. Whatever those Post calls return,
// none of them panics or blocks, and (race-detector build) nothing Close does conflicts with what Post reads.
func postWhileClosingIO(rounds int) (bool, string) {
	for r := 0; r < rounds; r++ {
		result := make(chan string, 1)
		go func() {
			runtime.LockOSThread()
			defer runtime.UnlockOSThread()
			ioc, err := sonic.NewIO()
			if err != nil {
				result <- "newio"
				return
			}
			var stop int32
			var wg sync.WaitGroup
			panicked := int32(0)
			for g := 0; g < 4; g++ {
				wg.Add(1)
				go func() {
					defer wg.Done()
					defer func() {
						if p := recover(); p != nil {
							atomic.StoreInt32(&panicked, 1)
						}
					}()
					for atomic.LoadInt32(&stop) == 0 {
						_ = ioc.Post(func() {})
						runtime.Gosched()
					}
				}()
			}
			for i := 0; i < 20; i++ {
				_, _ = ioc.PollOne()
			}
			_ = ioc.Close()
			time.Sleep(time.Millisecond)
			atomic.StoreInt32(&stop, 1)
			done := make(chan struct{})
			go func() { wg.Wait(); close(done) }()
			select {
			case <-done:
			case <-time.After(5 * time.Second):
				result <- "post-blocked-forever"
				return
			}
			if atomic.LoadInt32(&panicked) != 0 {
				result <- "post-panicked-while-closing"
				return
			}
			result <- ""
		}()
		if why := <-result; why != "" {
			return false, why
		}
	}
	return true, ""
}

func postCloseWithQueued() (bool, string) {
	result := make(chan string, 1)
	go func() {
		runtime.LockOSThread()
		defer runtime.UnlockOSThread()
		loopTid := syscall.Gettid()
		// (1)
		ioc, err := sonic.NewIO()
		if err != nil {
			result <- "newio"
			return
		}
		inH1, release, closed := make(chan struct{}), make(chan struct{}), make(chan struct{})
		var h2tid int32
		_ = ioc.Post(func() { close(inH1); <-release })
		go func() {
			<-inH1
			_ = ioc.Post(func() { atomic.StoreInt32(&h2tid, int32(syscall.Gettid())) })
			_ = ioc.Close()
			close(closed)
			close(release)
		}()
		_ = ioc.RunOneFor(time.Second) // runs H1, which waits for the closer
		select {
		case <-closed:
		case <-time.After(5 * time.Second):
			result <- "post-blocked-forever"
			return
		}
		if t := atomic.LoadInt32(&h2tid); t != 0 && int(t) != loopTid {
			result <- "handler-off-loop-thread"
			return
		}
		// (2)
		ioc2, err := sonic.NewIO()
		if err != nil {
			result <- "newio"
			return
		}
		var order []int
		_ = ioc2.Post(func() {
			order = append(order, 1)
			_ = ioc2.Post(func() { order = append(order, 4) })
			_ = ioc2.Close()
		})
		_ = ioc2.Post(func() { order = append(order, 2) })
		_ = ioc2.Post(func() { order = append(order, 3) })
		for i := 0; i < 3; i++ {
			_, _ = ioc2.PollOne()
		}
		last := 0
		for _, k := range order {
			if k < last {
				result <- "per-poster-order-violated"
				return
			}
			last = k
		}
		result <- ""
	}()
	select {
	case why := <-result:
		return why == "", why
	case <-time.After(30 * time.Second):
		return false, "loop-deadlocked"
	}
}

// postCounters: with a timer armed for an hour, three handlers posted from another goroutine and not yet dispatched:
// Posted() = 3 and Pending() = 4; inside the first handler the batch has left the queue (Posted() = 0) while all three still
// count as pending; afterwards Posted() = 0 and Pending() = 1 (the timer), and 0 once the timer is closed.
func postCounters() (bool, string) {
	result := make(chan string, 1)
	go func() {
		runtime.LockOSThread()
		defer runtime.UnlockOSThread()
		ioc, err := sonic.NewIO()
		if err != nil {
			result <- "newio"
			return
		}
		defer ioc.Close()
		t, err := sonic.NewTimer(ioc)
		if err != nil {
			result <- "newtimer"
			return
		}
		defer t.Close()
		_ = t.ScheduleOnce(time.Hour, func() {})
		inside := [][2]int64{}
		done := make(chan struct{})
		go func() {
			for i := 0; i < 3; i++ {
				_ = ioc.Post(func() { inside = append(inside, [2]int64{int64(ioc.Posted()), ioc.Pending()}) })
			}
			close(done)
		}()
		<-done
		if ioc.Posted() != 3 || ioc.Pending() != 4 {
			result <- fmt.Sprintf("counters-before-dispatch posted=%d pending=%d (want 3 and 4)", ioc.Posted(), ioc.Pending())
			return
		}
		for i := 0; i < 10 && len(inside) < 3; i++ {
			_, _ = ioc.PollOne()
		}
		if len(inside) != 3 {
			result <- "handlers-lost"
			return
		}
		for i, v := range inside {
			if v[0] != 0 || v[1] != int64(4-i) {
				result <- fmt.Sprintf("counters-inside-handler-%d posted=%d pending=%d (want 0 and %d)", i, v[0], v[1], 4-i)
				return
			}
		}
		if ioc.Posted() != 0 || ioc.Pending() != 1 {
			result <- fmt.Sprintf("counters-after-dispatch posted=%d pending=%d (want 0 and 1)", ioc.Posted(), ioc.Pending())
			return
		}
		_ = t.Close()
		if ioc.Pending() != 0 {
			result <- "pending-or-posted-not-zero-at-quiescence"
			return
		}
		result <- ""
	}()
	select {
	case why := <-result:
		return why == "", strings.Fields(why + " x")[0]
	case <-time.After(30 * time.Second):
		return false, "loop-deadlocked"
	}
}

// postWhileClosingBoth: goroutines post continuously while the loop goroutine dials connections, leaves a read and a
// write-all waiting in the poller on each (the peer neither writes nor reads) and closes them.
func postWhileClosingBoth(posters int, d time.Duration) (bool, string, int) {
	result := make(chan string, 1)
	var posted int64
	go func() {
		runtime.LockOSThread()
		defer runtime.UnlockOSThread()
		ioc, err := sonic.NewIO()
		if err != nil {
			result <- "newio"
			return
		}
		defer ioc.Close()
		ln, err := net.Listen("tcp", "127.0.0.1:0")
		if err != nil {
			result <- "listen"
			return
		}
		defer ln.Close()
		var ran int64 // loop goroutine only
		var stop int32
		var wg sync.WaitGroup
		for g := 0; g < posters; g++ {
			wg.Add(1)
			go func() {
				defer wg.Done()
				for atomic.LoadInt32(&stop) == 0 {
					if err := ioc.Post(func() { ran++ }); err == nil {
						atomic.AddInt64(&posted, 1)
					}
					if atomic.LoadInt64(&posted)%64 == 0 {
						runtime.Gosched()
					}
				}
			}()
		}
		big := make([]byte, 1<<20)
		end := time.Now().Add(d)
		both := 0
		for time.Now().Before(end) {
			c, err := sonic.Dial(ioc, "tcp", ln.Addr().String())
			if err != nil {
				break
			}
			p, err := ln.Accept()
			if err != nil {
				c.Close()
				break
			}
			_ = syscall.SetsockoptInt(c.RawFd(), syscall.SOL_SOCKET, syscall.SO_SNDBUF, 4096)
			before := ioc.Pending()
			c.AsyncReadAll(make([]byte, 8), func(error, int) {})
			c.AsyncWriteAll(big, func(error, int) {})
			_ = before
			both++
			_ = c.Close()
			_ = p.Close()
			_, _ = ioc.PollOne()
		}
		atomic.StoreInt32(&stop, 1)
		wg.Wait()
		deadline := time.Now().Add(5 * time.Second)
		for ran < atomic.LoadInt64(&posted) && time.Now().Before(deadline) {
			_ = ioc.RunOneFor(5 * time.Millisecond)
		}
		for i := 0; i < 3; i++ {
			_, _ = ioc.PollOne()
		}
		switch {
		case both == 0:
			result <- ""
		case ran != atomic.LoadInt64(&posted):
			result <- "handlers-lost"
		case ioc.Pending() != 0 || ioc.Posted() != 0:
			result <- "pending-or-posted-not-zero-at-quiescence"
		default:
			result <- ""
		}
	}()
	select {
	case why := <-result:
		return why == "", why, int(atomic.LoadInt64(&posted))
	case <-time.After(d + 60*time.Second):
		return false, "loop-deadlocked", int(atomic.LoadInt64(&posted))
	}
}

// postHandshakeHandoff: AsyncHandshake (successful against a conforming mock server, or refused) with the loop NOT
// running; once the completion is queued (Posted()==1) the stream must still be untouched — state, next layer — and
// the callback must not have run; polling then runs it on the loop's OS thread.
func postHandshakeHandoff(success bool) (bool, string) {
	runtime.LockOSThread()
	defer runtime.UnlockOSThread()
	ioc, err := sonic.NewIO()
	if err != nil {
		return false, "newio"
	}
	defer ioc.Close()
	loopTid := syscall.Gettid()
	s, err := websocket.NewWebsocketStream(ioc, nil, websocket.RoleClient)
	if err != nil {
		return false, "newstream"
	}
	ln, err := net.Listen("tcp", "127.0.0.1:0")
	if err != nil {
		return false, "listen"
	}
	addr := "ws://" + ln.Addr().String() + "/"
	done := make(chan bool, 1)
	out := make(chan wshsServerResult, 1)
	if success {
		plan := wshsPlan{mode: "async", closeAt: -1,
			resp: []byte("HTTP/1.1 101 Switching Protocols\r\nUpgrade: websocket\r\nConnection: Upgrade\r\nSec-WebSocket-Accept: " + strings.Repeat("@", 28) + "\r\n\r\n")}
		go wshsServe(ln, plan, done, out)
	} else {
		ln.Close() // nobody listens: the dial is refused
	}
	before := s.State()
	var cbTid int32 = -1
	var cbErr error
	fired := false
	s.AsyncHandshake(addr, func(err error) { cbErr = err; fired = true; atomic.StoreInt32(&cbTid, int32(syscall.Gettid())) })
	deadline := time.Now().Add(5 * time.Second)
	for ioc.Posted() == 0 && time.Now().Before(deadline) {
		time.Sleep(200 * time.Microsecond)
	}
	why := ""
	switch {
	case ioc.Posted() == 0:
		why = "handshake-completion-never-posted"
	case fired:
		why = "handshake-callback-ran-off-the-loop"
	case s.State() != before:
		why = "handshake-changed-the-stream-off-the-loop"
	}
	if why == "" {
		for i := 0; i < 50 && !fired; i++ {
			_, _ = ioc.PollOne()
		}
		switch {
		case !fired:
			why = "handshake-callback-never-run"
		case int(atomic.LoadInt32(&cbTid)) != loopTid:
			why = "handler-off-loop-thread"
		case success && (cbErr != nil || s.State() != websocket.StateActive):
			why = "handshake-failed-against-conforming-server"
		case !success && (cbErr == nil || s.State() != websocket.StateTerminated):
			why = "refused-handshake-not-reported"
		}
	}
	if success {
		done <- true
		<-out
		_ = s.CloseNextLayer()
		ln.Close()
	}
	return why == "", why
}
