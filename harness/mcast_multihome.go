package main

// Direct monitor of component "mcast" (C12) on a multi-homed host.
//
// The sandbox has one multicast-capable interface, so the trace mode cannot tell "joined on the interface that was named"
// from "joined on the interface the routing table picks". This monitor builds a private network namespace (unshare -rn)
// with three multicast-capable veth interfaces
//
//	eth0  10.9.9.1/24, default route      eth1  10.8.8.1/24      eth2  up, no IPv4 address
//
// re-executes itself inside it, and compares what the peer reports with what the kernel holds (/proc/net/igmp,
// getsockopt): JoinOn / JoinSourceOn land on the named interface, SetOutboundIPv4 changes the kernel and the reported
// value together — also when it fails. If the namespace cannot be created (no unshare, no privilege) the monitor
// reports that it was skipped; it never fails for that reason.

import (
	"bufio"
	"fmt"
	"net"
	"net/netip"
	"os"
	"os/exec"
	"strings"
	"syscall"
	"time"

	"github.com/talostrading/sonic"
	"github.com/talostrading/sonic/multicast"
)

const mcastNsSetup = `ip link set lo up
for i in 0 1 2; do ip link add eth$i type veth peer name eth${i}p; ip link set eth$i up; ip link set eth${i}p up; done
ip addr add 10.9.9.1/24 dev eth0
ip addr add 10.8.8.1/24 dev eth1
ip route add default dev eth0
`

func mcastDirect(seed uint64, tier string, args []string, w *bufio.Writer) {
	if os.Getenv("VERIF_MCAST_NS") == "1" {
		mcastMultihome(w)
		return
	}
	mcastRetainedAddresses(w)
	mcastAddressOwnership(w)
	self, err := os.Executable()
	if err != nil {
		fmt.Fprintf(w, "DIRECT-STAT {\"mcast_multihome\": \"skipped: %v\"}\n", err)
		return
	}
	cmd := exec.Command("unshare", "-rn", "sh", "-c", mcastNsSetup+"VERIF_MCAST_NS=1 exec \"$0\" mcast direct "+fmt.Sprint(seed)+" "+tier, self)
	out, err := cmd.CombinedOutput()
	text := string(out)
	if !strings.Contains(text, "MULTIHOME-RAN") {
		// the namespace could not be set up here: not a verdict about the library
		msg := strings.ReplaceAll(strings.TrimSpace(text), "\"", "'")
		if len(msg) > 200 {
			msg = msg[:200]
		}
		fmt.Fprintf(w, "DIRECT-STAT {\"mcast_multihome\": \"skipped (no private network namespace: %v %s)\"}\n", err, strings.ReplaceAll(msg, "\n", " | "))
		return
	}
	for _, line := range strings.Split(text, "\n") {
		if strings.HasPrefix(line, "DIRECT-") {
			fmt.Fprintln(w, line)
		}
	}
}

// igmpGroups: multicast groups joined per interface, from /proc/net/igmp of the current namespace.
func igmpGroups() map[string]map[string]bool {
	res := map[string]map[string]bool{}
	data, err := os.ReadFile("/proc/net/igmp")
	if err != nil {
		return res
	}
	cur := ""
	for _, line := range strings.Split(string(data), "\n") {
		f := strings.Fields(line)
		if len(f) == 0 || f[0] == "Idx" {
			continue
		}
		if !strings.HasPrefix(line, "\t") && !strings.HasPrefix(line, " ") && len(f) >= 2 {
			cur = strings.TrimSuffix(f[1], ":")
			if res[cur] == nil {
				res[cur] = map[string]bool{}
			}
			continue
		}
		// group line: little-endian hex of the group address
		g := f[0]
		if len(g) == 8 && cur != "" {
			var b [4]byte
			_, _ = fmt.Sscanf(g, "%02x%02x%02x%02x", &b[3], &b[2], &b[1], &b[0])
			res[cur][netip.AddrFrom4(b).String()] = true
		}
	}
	return res
}

func mcastMultihome(w *bufio.Writer) {
	fmt.Fprintln(w, "MULTIHOME-RAN")
	fails := 0
	fail := func(key, format string, a ...any) {
		fails++
		fmt.Fprintf(w, "DIRECT-FAIL key=mcast.%s %s\n", key, fmt.Sprintf(format, a...))
	}
	ioc, err := sonic.NewIO()
	if err != nil {
		fmt.Fprintf(w, "DIRECT-STAT {\"mcast_multihome\": \"skipped: %v\"}\n", err)
		return
	}
	defer ioc.Close()
	trials := 0
	// 1. JoinOn / JoinSourceOn: the membership is created on the interface that was named
	for _, tc := range []struct{ group, iface, src string }{
		{"239.1.1.1", "eth1", ""}, {"239.1.1.2", "eth0", ""}, {"239.1.1.3", "eth1", "10.8.8.7"}, {"239.1.1.4", "eth0", "10.9.9.7"},
	} {
		trials++
		p, err := multicast.NewUDPPeer(ioc, "udp", "0.0.0.0:0")
		if err != nil {
			fail("multihome-setup", "NewUDPPeer: %v", err)
			continue
		}
		if tc.src == "" {
			err = p.JoinOn(multicast.IP(tc.group), multicast.InterfaceName(tc.iface))
		} else {
			err = p.JoinSourceOn(multicast.IP(tc.group), multicast.SourceIP(tc.src), multicast.InterfaceName(tc.iface))
		}
		if err != nil {
			fail("join-on-failed", "join %s on %s (source %q): %v", tc.group, tc.iface, tc.src, err)
			p.Close()
			continue
		}
		g := igmpGroups()
		for ifc, groups := range g {
			if groups[tc.group] && ifc != tc.iface {
				fail("joined-on-another-interface", "JoinOn(%s, %s)%s: the kernel lists the group on %s", tc.group, tc.iface, map[bool]string{true: " with source " + tc.src, false: ""}[tc.src != ""], ifc)
			}
		}
		if !g[tc.iface][tc.group] {
			fail("not-joined-on-the-named-interface", "JoinOn(%s, %s): the kernel does not list the group on %s (memberships: %v)", tc.group, tc.iface, tc.iface, g)
		}
		p.Close()
	}
	// 1b. a join that names no interface uses the system's choice (here: eth0, the default route) — also on a peer that has joined
	// another group on a named interface before
	for _, first := range []string{"eth1", "eth0", ""} {
		trials++
		p, err := multicast.NewUDPPeer(ioc, "udp", "0.0.0.0:0")
		if err != nil {
			fail("multihome-setup", "NewUDPPeer: %v", err)
			continue
		}
		if first != "" {
			if err := p.JoinOn(multicast.IP("239.2.2.1"), multicast.InterfaceName(first)); err != nil {
				fail("join-on-failed", "join 239.2.2.1 on %s: %v", first, err)
				p.Close()
				continue
			}
		}
		for i, join := range []func() error{
			func() error { return p.Join(multicast.IP("239.2.2.2")) },
			func() error { return p.JoinSource(multicast.IP("239.2.2.3"), multicast.SourceIP("10.9.9.7")) },
		} {
			group := []string{"239.2.2.2", "239.2.2.3"}[i]
			if err := join(); err != nil {
				fail("join-on-failed", "join %s without an interface name (after JoinOn(…, %q)): %v", group, first, err)
				continue
			}
			g := igmpGroups()
			if !g["eth0"][group] {
				fail("joined-on-another-interface", "after JoinOn(239.2.2.1, %q) a join of %s that names no interface did not land on the default interface eth0 (memberships: %v)", first, group, g)
			}
		}
		p.Close()
	}
	// 2. outbound interface: reported value = kernel value after every call, successful or not
	{
		p, err := multicast.NewUDPPeer(ioc, "udp", "0.0.0.0:0")
		if err != nil {
			fail("multihome-setup", "NewUDPPeer: %v", err)
		} else {
			check := func(after string) {
				trials++
				kern, e := syscall.GetsockoptInet4Addr(p.NextLayer().RawFd(), syscall.IPPROTO_IP, syscall.IP_MULTICAST_IF)
				if e != nil {
					return
				}
				iff, ip := p.Outbound()
				kip := netip.AddrFrom4(kern)
				name := "<nil>"
				if iff != nil {
					name = iff.Name
				}
				if kip.IsUnspecified() && iff == nil {
					return
				}
				if !ip.IsValid() || ip.Unmap() != kip {
					fail("getter-outbound", "after %s: Outbound() = (%s, %v) but the kernel's IP_MULTICAST_IF is %v", after, name, ip, kip)
				}
			}
			check("construction")
			for _, ifc := range []string{"eth1", "eth2", "eth0", "nosuchif", "eth2", "eth1"} {
				err := p.SetOutboundIPv4(ifc)
				check(fmt.Sprintf("SetOutboundIPv4(%s) = %v", ifc, err))
			}
			p.Close()
		}
	}
	fmt.Fprintf(w, "DIRECT-STAT {\"mcast_multihome\": \"ran\", \"mcast_multihome_trials\": %d, \"mcast_multihome_failures\": %d}\n", trials, fails)
}

// mcastAddressOwnership (loopback only): a datagram sent to a packet connection's address completes a read of THAT connection,
// also when the application (by mistake, or another component of the program) asks for a second packet connection on the same
// address while the first has a read in flight — whether the library refuses the second one (the kernel's EADDRINUSE) or not.
func mcastAddressOwnership(w *bufio.Writer) {
	fails, trials := 0, 0
	fail := func(format string, a ...any) {
		fails++
		fmt.Fprintf(w, "DIRECT-FAIL key=mcast.not-delivered %s\n", fmt.Sprintf(format, a...))
	}
	ioc, err := sonic.NewIO()
	if err != nil {
		return
	}
	defer ioc.Close()
	sender, err := net.ListenUDP("udp4", &net.UDPAddr{IP: net.IPv4(127, 0, 0, 1)})
	if err != nil {
		return
	}
	defer sender.Close()
	for _, variant := range []string{"same address", "wildcard first", "wildcard second"} {
		trials++
		firstAddr := "127.0.0.1:0"
		if variant == "wildcard first" {
			firstAddr = ":0"
		}
		a, err := sonic.NewPacketConn(ioc, "udp", firstAddr)
		if err != nil {
			continue
		}
		port := a.LocalAddr().(*net.UDPAddr).Port
		if port == 0 {
			if sa, err := syscall.Getsockname(a.RawFd()); err == nil {
				if in4, ok := sa.(*syscall.SockaddrInet4); ok {
					port = in4.Port
				}
			}
		}
		got, gotN := 0, 0
		buf := make([]byte, 32)
		a.AsyncReadFrom(buf, func(err error, n int, _ net.Addr) {
			if err == nil {
				got++
				gotN = n
			}
		})
		secondAddr := fmt.Sprintf("127.0.0.1:%d", port)
		if variant == "wildcard second" {
			secondAddr = fmt.Sprintf(":%d", port)
		}
		b, berr := sonic.NewPacketConn(ioc, "udp", secondAddr)
		if berr == nil {
			bbuf := make([]byte, 32)
			b.AsyncReadFrom(bbuf, func(error, int, net.Addr) {})
		}
		_, _ = sender.WriteToUDP([]byte("datagram-for-a"), &net.UDPAddr{IP: net.IPv4(127, 0, 0, 1), Port: port})
		for i := 0; i < 60 && got == 0; i++ {
			_ = ioc.RunOneFor(5 * time.Millisecond)
		}
		if got != 1 || gotN != len("datagram-for-a") {
			fail("%s: a datagram sent to 127.0.0.1:%d completed %d reads of the packet connection bound there (a second NewPacketConn(%q) on that port returned err=%v)", variant, port, got, secondAddr, berr)
		}
		if b != nil && berr == nil {
			_ = b.Close()
		}
		_ = a.Close()
	}
	fmt.Fprintf(w, "DIRECT-STAT {\"mcast_address_ownership_trials\": %d, \"mcast_address_ownership_failures\": %d}\n", trials, fails)
}

// mcastRetainedAddresses (loopback only): what a read reported about its datagram stays true after later reads. Several
// senders send to one packet connection / multicast peer; every completion's sender address is kept as the value the
// library handed out (net.Addr / netip.AddrPort), together with the datagram bytes seen in the buffer at that moment; once
// all reads have completed, each kept address must still name the socket that sent that datagram.
func mcastRetainedAddresses(w *bufio.Writer) {
	fails, trials := 0, 0
	fail := func(key, format string, a ...any) {
		fails++
		fmt.Fprintf(w, "DIRECT-FAIL key=mcast.%s %s\n", key, fmt.Sprintf(format, a...))
	}
	ioc, err := sonic.NewIO()
	if err != nil {
		return
	}
	defer ioc.Close()
	const nSenders, perSender = 3, 3
	var senders []*net.UDPConn
	for i := 0; i < nSenders; i++ {
		c, err := net.ListenUDP("udp4", &net.UDPAddr{IP: net.IPv4(127, 0, 0, 1)})
		if err != nil {
			return
		}
		defer c.Close()
		senders = append(senders, c)
	}
	type seen struct {
		addr   net.Addr
		ap     netip.AddrPort
		sender int
	}
	run := func(kind string, dst *net.UDPAddr, read func(b []byte, done func(err error, n int, a net.Addr, ap netip.AddrPort))) {
		for round := 0; round < perSender; round++ {
			for i, c := range senders {
				if _, err := c.WriteToUDP([]byte{byte(i), byte(round)}, dst); err != nil {
					return
				}
			}
		}
		var got []seen
		var issue func()
		issue = func() {
			b := make([]byte, 16)
			read(b, func(err error, n int, a net.Addr, ap netip.AddrPort) {
				if err != nil || n != 2 {
					return
				}
				got = append(got, seen{addr: a, ap: ap, sender: int(b[0])})
				if len(got) < nSenders*perSender {
					issue() // the next read is started before the address of this one is used
				}
			})
		}
		issue()
		for i := 0; i < 200 && len(got) < nSenders*perSender; i++ {
			_ = ioc.RunOneFor(5 * time.Millisecond)
		}
		trials += len(got)
		if len(got) < nSenders*perSender {
			fail("read-not-completed", "%s: %d of %d datagrams from %d local senders were read", kind, len(got), nSenders*perSender, nSenders)
			return
		}
		for k, g := range got {
			want := senders[g.sender].LocalAddr().(*net.UDPAddr)
			var have string
			if g.addr != nil {
				have = g.addr.String()
			} else {
				have = g.ap.String()
			}
			if have != want.String() {
				fail("read-sender", "%s: the address handed out by read %d (datagram of sender %d, %s) reads %s after the later reads completed", kind, k, g.sender, want, have)
				return
			}
		}
	}
	if pc, err := sonic.NewPacketConn(ioc, "udp", "127.0.0.1:0"); err == nil {
		if sa, err := syscall.Getsockname(pc.RawFd()); err == nil {
			if s4, ok := sa.(*syscall.SockaddrInet4); ok {
				dst := &net.UDPAddr{IP: net.IPv4(127, 0, 0, 1), Port: s4.Port}
				run("PacketConn.AsyncReadFrom", dst, func(b []byte, done func(error, int, net.Addr, netip.AddrPort)) {
					pc.AsyncReadFrom(b, func(err error, n int, a net.Addr) { done(err, n, a, netip.AddrPort{}) })
				})
				run("PacketConn.AsyncReadAllFrom", dst, func(b []byte, done func(error, int, net.Addr, netip.AddrPort)) {
					pc.AsyncReadAllFrom(b[:2], func(err error, n int, a net.Addr) { done(err, n, a, netip.AddrPort{}) })
				})
				run("PacketConn.ReadFrom", dst, func(b []byte, done func(error, int, net.Addr, netip.AddrPort)) {
					for i := 0; i < 100; i++ {
						n, a, err := pc.ReadFrom(b)
						if err == nil {
							done(nil, n, a, netip.AddrPort{})
							return
						}
						time.Sleep(time.Millisecond)
					}
					done(errNoData, 0, nil, netip.AddrPort{})
				})
			}
		}
		pc.Close()
	}
	if p, err := multicast.NewUDPPeer(ioc, "udp", "127.0.0.1:0"); err == nil {
		dst := &net.UDPAddr{IP: net.IPv4(127, 0, 0, 1), Port: int(p.LocalAddr().Port)}
		run("UDPPeer.AsyncRead", dst, func(b []byte, done func(error, int, net.Addr, netip.AddrPort)) {
			p.AsyncRead(b, func(err error, n int, from netip.AddrPort) { done(err, n, nil, from) })
		})
		p.Close()
	}
	// the IPv6 variant of the peer ("udp6", unicast): senders on ::1 are reported as ::1, with their port and no zone
	if s6, err := net.ListenUDP("udp6", &net.UDPAddr{IP: net.IPv6loopback}); err == nil {
		s6.Close()
		old := senders
		senders = nil
		for i := 0; i < nSenders; i++ {
			c, err := net.ListenUDP("udp6", &net.UDPAddr{IP: net.IPv6loopback})
			if err != nil {
				break
			}
			defer c.Close()
			senders = append(senders, c)
		}
		if len(senders) == nSenders {
			if p, err := multicast.NewUDPPeer(ioc, "udp6", "[::1]:0"); err == nil {
				dst := &net.UDPAddr{IP: net.IPv6loopback, Port: int(p.LocalAddr().Port)}
				run("UDPPeer(udp6).AsyncRead", dst, func(b []byte, done func(error, int, net.Addr, netip.AddrPort)) {
					p.AsyncRead(b, func(err error, n int, from netip.AddrPort) { done(err, n, nil, from) })
				})
				p.Close()
			}
		}
		senders = old
	}
	fmt.Fprintf(w, "DIRECT-STAT {\"mcast_retained_addresses\": %d, \"mcast_retained_address_failures\": %d}\n", trials, fails)
}
