package main

import "github.com/talostrading/sonic"

var _ sonic.Stream = (*memStream)(nil)
