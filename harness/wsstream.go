package main

// Component "wsstream" (properties C08, C15): a real websocket.Stream in the client role, attached by the
// verif hook to the scripted in-memory transport of memstream.go, driven at frame granularity.
//
// Script operations ("!" lines):
//
//	new <max>                                  fresh stream, SetMaxMessageSize(max)
//	peer <fin> <rsv> <op> <masked> <hex>       the server sends one frame (encoded here, bit-exactly; rsv = RSV1*4+RSV2*2+RSV3;
//	                                           with masked=1 a mask key is inserted and <hex> is what follows it on the wire)
//	eof | ioerr                                the transport ends / fails once (after the frames already sent)
//	nextframe sync|async
//	nextmsg sync|async <bufsize>
//	write sync|async <type> <hex>
//	writeframe sync|async <fin> <op> <hex>
//	flush sync|async
//	close sync|async <code> <hexreason>
//	setmax <max>                               SetMaxMessageSize(max) on the live stream (no trace event, "? setmax" line)
//	defer                                      from here on the transport holds asynchronous writes back (no trace event)
//	pump                                       the transport performs the writes it held back; reported as "flush async": its
//	                                           result is the first error of the calls that were in flight, "other" if one of
//	                                           their callbacks did not run exactly once
//
// Between defer and pump only write-type calls are executed (asynchronous ones, and blocking write/close once the stream has
// left the active state: those are refused before the transport is touched); an asynchronous call whose write is held back
// is reported as accepted ("err=nil" = no error so far) and "pending" counts the frames inside the transport as well.
//
// Observations ("<" lines): what the call returned (error class, frame or message), State(), Pending() and the frames the
// client put on the transport during the call, recovered from the raw bytes by the parser below (independent of the
// library's encoder): fin:op:masked:payload, payload unmasked.

import (
	"bufio"
	"encoding/hex"
	"errors"
	"fmt"
	"io"
	"os"
	"strings"
	"time"

	"github.com/talostrading/sonic"
	"github.com/talostrading/sonic/codec/websocket"
	"github.com/talostrading/sonic/sonicerrors"
)

func init() {
	components["wsstream"] = &component{gen: wsGen, enum: wsEnum, run: wsRun, direct: wsDirect}
}

var wsIoc *sonic.IO

var errInjected = errors.New("memstream: injected transport error")

// ---- independent encoder (what the server sends) --------------------------------------------------

func wsEncodePeer(fin bool, rsv, op int, masked bool, payload []byte) []byte {
	b0 := byte(op&0x0f) | byte(rsv&7)<<4
	if fin {
		b0 |= 0x80
	}
	var b1 byte
	if masked {
		b1 = 0x80
	}
	out := []byte{b0}
	n := len(payload)
	switch {
	case n <= 125:
		out = append(out, b1|byte(n))
	case n <= 0xffff:
		out = append(out, b1|126, byte(n>>8), byte(n))
	default:
		out = append(out, b1|127, 0, 0, 0, 0, byte(n>>24), byte(n>>16), byte(n>>8), byte(n))
	}
	if masked {
		out = append(out, 0x37, 0xfa, 0x21, 0x3d)
	}
	return append(out, payload...)
}

// ---- independent parser (what the client sent) ----------------------------------------------------

type wireFrame struct {
	fin     bool
	rsv     int
	op      int
	masked  bool
	payload []byte
}

// wsParseWire parses complete frames from b; rest is what does not form a complete frame.
func wsParseWire(b []byte) (frames []wireFrame, rest []byte) {
	for {
		if len(b) < 2 {
			return frames, b
		}
		f := wireFrame{fin: b[0]&0x80 != 0, rsv: int(b[0]>>4) & 7, op: int(b[0] & 0x0f), masked: b[1]&0x80 != 0}
		n := int(b[1] & 0x7f)
		off := 2
		switch n {
		case 126:
			if len(b) < 4 {
				return frames, b
			}
			n = int(b[2])<<8 | int(b[3])
			off = 4
		case 127:
			if len(b) < 10 {
				return frames, b
			}
			n = 0
			for i := 2; i < 10; i++ {
				if n > 1<<40 {
					return frames, b
				}
				n = n<<8 | int(b[i])
			}
			off = 10
		}
		var key []byte
		if f.masked {
			if len(b) < off+4 {
				return frames, b
			}
			key = b[off : off+4]
			off += 4
		}
		if len(b) < off+n {
			return frames, b
		}
		f.payload = make([]byte, n)
		for i := 0; i < n; i++ {
			f.payload[i] = b[off+i]
			if f.masked {
				f.payload[i] ^= key[i&3]
			}
		}
		frames = append(frames, f)
		b = b[off+n:]
	}
}

func wsHx(b []byte) string {
	if len(b) == 0 {
		return "-"
	}
	return hex.EncodeToString(b)
}

func unhx(s string) []byte {
	if s == "-" {
		return nil
	}
	b, err := hex.DecodeString(s)
	if err != nil {
		panic("bad hex in script: " + s)
	}
	return b
}

func b01(v bool) int {
	if v {
		return 1
	}
	return 0
}

func wsErr(err error) string {
	switch {
	case err == nil:
		return "nil"
	case err == io.EOF:
		return "eof"
	case err == errNoData:
		return "nodata"
	case err == errInjected:
		return "ioerr"
	case errors.Is(err, sonicerrors.ErrCancelled):
		return "cancelled"
	case errors.Is(err, sonicerrors.ErrNeedMore):
		return "needmore"
	case errors.Is(err, websocket.ErrMessageTooBig):
		return "toobig"
	case errors.Is(err, websocket.ErrPayloadOverMaxSize):
		return "overmax"
	case errors.Is(err, websocket.ErrNonZeroReservedBits):
		return "proto-rsv"
	case errors.Is(err, websocket.ErrMaskedFramesFromServer):
		return "proto-masked"
	case errors.Is(err, websocket.ErrInvalidControlFrame):
		return "proto-ctlfin"
	case errors.Is(err, websocket.ErrControlFrameTooBig):
		return "proto-ctlbig"
	case errors.Is(err, websocket.ErrReservedOpcode):
		return "proto-opcode"
	case errors.Is(err, websocket.ErrUnexpectedContinuation):
		return "proto-unexpcont"
	case errors.Is(err, websocket.ErrExpectedContinuation):
		return "proto-expcont"
	default:
		return "other"
	}
}

func wsState(s websocket.StreamState) string {
	switch s {
	case websocket.StateHandshake:
		return "handshake"
	case websocket.StateActive:
		return "active"
	case websocket.StateClosedByUs:
		return "closedbyus"
	case websocket.StateClosedByPeer:
		return "closedbypeer"
	case websocket.StateCloseAcked:
		return "closeacked"
	case websocket.StateTerminated:
		return "terminated"
	}
	return "unknown"
}

func wsFrameStr(f websocket.Frame) string {
	if f == nil {
		return "nil"
	}
	rsv := 0
	if f.IsRSV1() {
		rsv |= 4
	}
	if f.IsRSV2() {
		rsv |= 2
	}
	if f.IsRSV3() {
		rsv |= 1
	}
	return fmt.Sprintf("%d:%d:%d:%d:%s", b01(f.IsFIN()), rsv, int(f.Opcode()), b01(f.IsMasked()), wsHx(f.Payload()))
}

// ---- executing a script -------------------------------------------------------------------------

// wsInflight: the callback of one asynchronous write-type call.
type wsInflight struct {
	calls int
	err   error
}

func wsRun(script []string, w *bufio.Writer) {
	if wsIoc == nil {
		wsIoc = sonic.MustIO()
	}
	// watchdog: a call that never returns (the scripted transport never blocks) ends the run; what was executed so far
	// is flushed so that the orchestrator can name the script
	dog := time.AfterFunc(20*time.Second, func() {
		fmt.Fprintf(w, "< hang\n")
		w.Flush()
		os.Exit(3)
	})
	defer dog.Stop()
	var (
		ws      *websocket.Stream
		ms      *memStream
		parsed  int // bytes of ms.out already reported
		ctl     []string
		garbage bool
		// deferred window (defer ... pump)
		deferred bool
		inflight []*wsInflight
	)
	held := func() int {
		if ms == nil || ms.pendingWrite == nil {
			return 0
		}
		fr, _ := wsParseWire(ms.pendingWrite.b[ms.pendingWrite.done:])
		return len(fr)
	}
	post := func() string {
		frames, rest := wsParseWire(ms.out[parsed:])
		parsed = len(ms.out) - len(rest)
		var parts []string
		for _, f := range frames {
			if f.rsv != 0 {
				garbage = true
			}
			parts = append(parts, fmt.Sprintf("%d:%d:%d:%s", b01(f.fin), f.op, b01(f.masked), wsHx(f.payload)))
		}
		ws_ := "-"
		if len(parts) > 0 {
			ws_ = strings.Join(parts, ",")
		}
		if len(rest) > 0 {
			ws_ += "+partial"
		}
		if garbage {
			ws_ += "+rsv"
		}
		return fmt.Sprintf("state=%s pending=%d wire=%s", wsState(ws.State()), ws.Pending()+held(), ws_)
	}
	// complete an asynchronous read that found nothing on the transport: a script never blocks
	settle := func(done *bool) bool {
		if *done {
			return true
		}
		ms.readErr = errNoData
		ms.pump()
		return *done
	}
	for _, line := range script {
		f := strings.Fields(line)
		if len(f) == 0 || ws == nil && f[0] != "new" {
			continue
		}
		async := len(f) > 1 && f[1] == "async"
		switch {
		case f[0] == "defer":
			if !deferred {
				fmt.Fprintf(w, "? defer\n")
			}
			deferred = true
			ms.deferWrites = true
			continue
		case f[0] == "setmax":
			if deferred {
				continue
			}
			ws.SetMaxMessageSize(atoi(f[1]))
			fmt.Fprintf(w, "? setmax %d\n", atoi(f[1]))
			continue
		case f[0] == "pump":
			if !deferred {
				continue
			}
			fmt.Fprintf(w, "! flush async\n")
		case deferred && f[0] != "new":
			writeType := f[0] == "write" || f[0] == "writeframe" || f[0] == "close" || f[0] == "flush"
			if !writeType || !async && (f[0] == "flush" || ws.State() == websocket.StateActive) {
				continue
			}
			fmt.Fprintf(w, "! %s\n", line)
		default:
			fmt.Fprintf(w, "! %s\n", line)
		}
		var out string
		// result of an asynchronous write-type call
		finish := func(fl *wsInflight) {
			if fl.calls == 0 && deferred {
				inflight = append(inflight, fl)
				out = "call err=nil " + post()
			} else if fl.calls == 0 {
				out = "hang " + post()
			} else {
				out = fmt.Sprintf("call err=%s %s", wsErr(fl.err), post())
			}
		}
		p := guard(func() {
			switch f[0] {
			case "pump":
				deferred = false
				ms.deferWrites = false
				for i := 0; i < 64 && ms.pendingWrite != nil; i++ {
					ms.pump()
				}
				res := "nil"
				for _, fl := range inflight {
					if fl.calls != 1 {
						res = "other"
						break
					}
					if fl.err != nil && res == "nil" {
						res = wsErr(fl.err)
					}
				}
				inflight = nil
				out = fmt.Sprintf("call err=%s %s", res, post())
			case "new":
				var err error
				ws, err = websocket.NewWebsocketStream(wsIoc, nil, websocket.RoleClient)
				if err != nil {
					panic(err)
				}
				ms = newMemStream()
				parsed = 0
				garbage = false
				deferred = false
				inflight = nil
				if err := ws.VerifAttach(ms); err != nil {
					panic(err)
				}
				ws.SetMaxMessageSize(atoi(f[1]))
				ws.SetControlCallback(func(mt websocket.MessageType, payload []byte) {
					ctl = append(ctl, fmt.Sprintf("%d:%s", int(mt), wsHx(payload)))
				})
				out = "ok " + post()
			case "peer":
				ms.feed(wsEncodePeer(f[1] == "1", atoi(f[2]), atoi(f[3]), f[4] == "1", unhx(f[5])))
				out = "ok " + post()
			case "eof":
				ms.eof = true
				out = "ok " + post()
			case "ioerr":
				ms.readErr = errInjected
				out = "ok " + post()
			case "nextframe":
				var (
					fr   websocket.Frame
					err  error
					done bool
				)
				if async {
					ws.AsyncNextFrame(func(e error, g websocket.Frame) { err, fr, done = e, g, true })
					if !settle(&done) {
						out = "hang " + post()
						return
					}
				} else {
					fr, err = ws.NextFrame()
				}
				out = fmt.Sprintf("frame err=%s f=%s %s", wsErr(err), wsFrameStr(fr), post())
			case "nextmsg":
				size := atoi(f[2])
				// sentinel bytes around and inside the caller's buffer: nothing may be written outside b[:n]
				mem := make([]byte, size+16)
				for i := range mem {
					mem[i] = 0xa5
				}
				b := mem[8 : 8+size : 8+size]
				var (
					mt   websocket.MessageType
					n    int
					err  error
					done bool
				)
				ctl = ctl[:0]
				if async {
					ws.AsyncNextMessage(b, func(e error, k int, t websocket.MessageType) { err, n, mt, done = e, k, t, true })
					if !settle(&done) {
						out = "hang " + post()
						return
					}
				} else {
					mt, n, err = ws.NextMessage(b)
				}
				tail := "clean"
				if n < 0 || n > size {
					tail = "range"
					n = 0
				} else {
					for i, v := range mem {
						if (i < 8 || i >= 8+n) && v != 0xa5 {
							tail = "dirty"
						}
					}
				}
				c := "-"
				if len(ctl) > 0 {
					c = strings.Join(ctl, ",")
				}
				out = fmt.Sprintf("msg err=%s type=%d n=%d data=%s tail=%s ctl=%s %s", wsErr(err), int(mt), n, wsHx(b[:n]), tail, c, post())
			case "write":
				var err error
				done := true
				if async {
					fl := &wsInflight{}
					ws.AsyncWrite(unhx(f[3]), websocket.MessageType(atoi(f[2])), func(e error) { fl.err = e; fl.calls++ })
					finish(fl)
					return
				} else {
					err = ws.Write(unhx(f[3]), websocket.MessageType(atoi(f[2])))
				}
				if !done {
					out = "hang " + post()
					return
				}
				out = fmt.Sprintf("call err=%s %s", wsErr(err), post())
			case "writeframe":
				fr := ws.AcquireFrame()
				if f[2] == "1" {
					fr.SetFIN()
				}
				fr.SetOpcode(websocket.Opcode(atoi(f[3])))
				fr.SetPayload(unhx(f[4]))
				var err error
				done := true
				if async {
					fl := &wsInflight{}
					ws.AsyncWriteFrame(fr, func(e error) { fl.err = e; fl.calls++ })
					finish(fl)
					return
				} else {
					err = ws.WriteFrame(fr)
				}
				if !done {
					out = "hang " + post()
					return
				}
				out = fmt.Sprintf("call err=%s %s", wsErr(err), post())
			case "flush":
				var err error
				done := true
				if async {
					fl := &wsInflight{}
					ws.AsyncFlush(func(e error) { fl.err = e; fl.calls++ })
					finish(fl)
					return
				} else {
					err = ws.Flush()
				}
				if !done {
					out = "hang " + post()
					return
				}
				out = fmt.Sprintf("call err=%s %s", wsErr(err), post())
			case "close":
				var err error
				done := true
				code := websocket.CloseCode(atoi(f[2]))
				reason := string(unhx(f[3]))
				if async {
					fl := &wsInflight{}
					ws.AsyncClose(code, reason, func(e error) { fl.err = e; fl.calls++ })
					finish(fl)
					return
				} else {
					err = ws.Close(code, reason)
				}
				if !done {
					out = "hang " + post()
					return
				}
				out = fmt.Sprintf("call err=%s %s", wsErr(err), post())
			default:
				panic("bad op " + f[0])
			}
		})
		if p {
			out = "panic"
		}
		fmt.Fprintf(w, "< %s\n", out)
	}
}

// wsDirect: sessions with ValidateUTF8(true) (off by default; the model of stream.go and the monitor are stated for the
// default). The peer sends text frames with valid and invalid UTF-8 among pings and closes, the application reads, writes
// and closes; the closing-handshake clauses that do not depend on the error class are checked on the wire: never more than
// one Close frame, no data frame after it; an invalid text frame received while open is reported as an error by the read
// that meets it, and from then on writes are refused.
func wsDirect(seed uint64, tier string, args []string, w *bufio.Writer) {
	trials := 1500
	if tier == "thorough" {
		trials = 30000
	}
	if wsIoc == nil {
		wsIoc = sonic.MustIO()
	}
	r := newRng(seed*131 + 3)
	fails := 0
	fail := func(key, format string, a ...any) {
		if fails++; fails <= 3 {
			fmt.Fprintf(w, "DIRECT-FAIL key=wsstream.%s %s\n", key, fmt.Sprintf(format, a...))
		}
	}
	bad := [][]byte{{0xff}, {0x61, 0xc0, 0x80}, {0xe2, 0x82}, {0xed, 0xa0, 0x80}}
	for t := 0; t < trials && fails == 0; t++ {
		func() {
			defer func() {
				if p := recover(); p != nil {
					fail("panic", "a stream with UTF-8 validation panicked: %v", p)
				}
			}()
			ws, err := websocket.NewWebsocketStream(wsIoc, nil, websocket.RoleClient)
			if err != nil {
				return
			}
			ms := newMemStream()
			if err := ws.VerifAttach(ms); err != nil {
				return
			}
			ws.ValidateUTF8(true)
			var trace []string
			sawInvalidWhileOpen := false
			for i, n := 0, 2+r.intn(8); i < n; i++ {
				switch r.intn(8) {
				case 0:
					ms.feed(wsEncodePeer(true, 0, 1, false, bad[r.intn(len(bad))]))
					trace = append(trace, "peer invalid-text")
				case 1:
					ms.feed(wsEncodePeer(true, 0, 1, false, []byte("ok")))
					trace = append(trace, "peer text")
				case 2:
					ms.feed(wsEncodePeer(true, 0, 9, false, []byte{1}))
					trace = append(trace, "peer ping")
				case 3:
					ms.feed(wsEncodePeer(true, 0, 8, false, []byte{0x03, 0xe8}))
					trace = append(trace, "peer close")
				case 4:
					e := ws.Close(websocket.CloseNormal, "bye")
					trace = append(trace, fmt.Sprintf("Close=%v", e != nil))
				case 5:
					e := ws.Write([]byte("data"), websocket.TypeText)
					trace = append(trace, fmt.Sprintf("Write=%v", e != nil))
					if sawInvalidWhileOpen && e == nil {
						fail("write-not-refused", "a write was accepted after an invalid text frame had been reported (%v)", trace)
						return
					}
				default:
					before := ws.State()
					pendingInvalid := len(ms.in) > 0
					var e error
					if r.intn(2) == 0 {
						_, e = ws.NextFrame()
					} else {
						done := false
						ws.AsyncNextFrame(func(err error, _ websocket.Frame) { e, done = err, true })
						if !done {
							ms.readErr = errNoData
							ms.pump()
						}
					}
					trace = append(trace, fmt.Sprintf("read=%s", wsErr(e)))
					if errors.Is(e, websocket.ErrInvalidUTF8) && before == websocket.StateActive {
						sawInvalidWhileOpen = true
					}
					_ = pendingInvalid
				}
			}
			_ = ws.Flush()
			_, _ = ws.NextFrame()
			_ = ws.Flush()
			frames, _ := wsParseWire(ms.out)
			closes, afterClose := 0, false
			for _, f := range frames {
				if f.op == 8 {
					closes++
					afterClose = true
				} else if afterClose && f.op <= 2 {
					fail("frame-after-close", "a data frame follows the Close frame on the wire (%v)", trace)
					return
				}
			}
			if closes > 1 {
				fail("frame-after-close", "%d Close frames on the wire (%v)", closes, trace)
			}
		}()
	}
	fmt.Fprintf(w, "DIRECT-STAT {\"wsstream_utf8_sessions\": %d, \"wsstream_utf8_failures\": %d}\n", trials, fails)
}
