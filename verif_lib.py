#!/usr/bin/env python3
"""Orchestrator library for /verif/check (python3 stdlib only).

Per property it: regenerates Sonic/Gen from /repo (tie T), rebuilds the Lean proofs and audits their
axioms, rebuilds the Go harness against /repo's working tree, runs corpus + generated scripts through
the real implementation and the Lean acceptor (tie D), classifies what it saw (DESIGN.md 2.4/2.5),
writes evidence/<id>.json and prints KNOWN-FINDING / VIOLATION lines.
"""
import fcntl
import hashlib
import json
import os
import re
import shutil
import subprocess
import sys
import time

VERIF = os.path.dirname(os.path.abspath(__file__))
REPO = os.environ.get("VERIF_REPO", "/repo")
LEAN = os.path.join(VERIF, "lean")
WORK = os.path.join(VERIF, "work")
HARNESS = os.path.join(VERIF, "harness")
HBIN = os.path.join(HARNESS, "bin", "harness")
HBIN_RACE = os.path.join(HARNESS, "bin", "harness-race")
G2L = os.path.join(VERIF, "tools", "bin", "go2lean")
RESPATHS = os.path.join(VERIF, "tools", "bin", "respaths")
DRV = os.path.join(LEAN, ".lake", "build", "bin", "sonicdrv")
SPEC = os.path.join(LEAN, ".lake", "build", "bin", "sonicspec")
ALLOWED_AXIOMS = {"propext", "Classical.choice", "Quot.sound"}
FORBIDDEN = re.compile(r"\bsorry\b|\badmit\b|^\s*axiom\s|native_decide|bv_decide|implemented_by|\bunsafe\s|maxHeartbeats\s+0\b")


def goenv():
    e = dict(os.environ)
    e.setdefault("GOFLAGS", "-mod=mod")
    e["GOFLAGS"] = "-mod=mod"
    e["GOPROXY"] = "off"
    e.pop("GOTOOLCHAIN", None)
    e.pop("GOSUMDB", None)
    e.setdefault("GOMEMLIMIT", "4GiB")
    return e


class Lock:
    def __init__(self, name="build"):
        os.makedirs(WORK, exist_ok=True)
        self.path = os.path.join(WORK, "." + name + ".lock")

    def __enter__(self):
        self.f = open(self.path, "w")
        fcntl.flock(self.f, fcntl.LOCK_EX)
        return self

    def __exit__(self, *a):
        fcntl.flock(self.f, fcntl.LOCK_UN)
        self.f.close()


def run(cmd, cwd=None, env=None, timeout=None, stdin=None, input_bytes=None):
    """Run a command; returns (rc, stdout+stderr as str). rc=-9 on timeout."""
    try:
        p = subprocess.run(cmd, cwd=cwd, env=env, timeout=timeout, stdin=stdin, input=input_bytes,
                           stdout=subprocess.PIPE, stderr=subprocess.STDOUT)
        return p.returncode, p.stdout.decode("utf-8", "replace")
    except subprocess.TimeoutExpired as ex:
        out = ex.stdout.decode("utf-8", "replace") if ex.stdout else ""
        return -9, out + "\n[timeout after %ss]" % timeout


# ---- build steps ---------------------------------------------------------------------------------

def build_tools():
    """go2lean binary (rebuilt when its source is newer)."""
    gdir = os.path.join(VERIF, "tools", "go2lean")
    newest = max(os.path.getmtime(os.path.join(gdir, f)) for f in os.listdir(gdir) if f.endswith(".go") or f == "go.mod")
    if not os.path.exists(G2L) or os.path.getmtime(G2L) < newest:
        os.makedirs(os.path.dirname(G2L), exist_ok=True)
        rc, out = run(["go", "build", "-o", G2L, "."], cwd=os.path.join(VERIF, "tools", "go2lean"), env=goenv(), timeout=300)
        if rc != 0:
            raise RuntimeError("cannot build go2lean:\n" + out)
    # respaths: the resource path-table extractor (C13)
    rsrc = os.path.join(VERIF, "tools", "respaths", "main.go")
    if not os.path.exists(RESPATHS) or os.path.getmtime(RESPATHS) < os.path.getmtime(rsrc):
        rc, out = run(["go", "build", "-o", RESPATHS, "."], cwd=os.path.join(VERIF, "tools", "respaths"), env=goenv(), timeout=300)
        if rc != 0:
            raise RuntimeError("cannot build respaths:\n" + out)


def regen():
    """Tie T: regenerate Sonic/Gen/*.lean from /repo. Returns (ok, log)."""
    build_tools()
    rc, out = run([G2L, os.path.join(VERIF, "tools", "go2lean", "spec.json"), REPO, os.path.join(LEAN, "Sonic", "Gen")], timeout=120)
    # resource path table (C13): untranslatable functions are recorded inside the table and judged by the theorems
    rc2, out2 = run([RESPATHS, os.path.join(VERIF, "tools", "respaths", "config.json"), REPO, os.path.join(LEAN, "Sonic", "Gen")], timeout=120)
    return rc == 0 and rc2 == 0, out + out2


def lake_build(targets, timeout=1500):
    rc, out = run(["lake", "build"] + targets, cwd=LEAN, timeout=timeout)
    return rc == 0, out


def build_harness():
    # the harness always links the tree named by VERIF_REPO (default /repo)
    modp = os.path.join(HARNESS, "go.mod")
    mod = open(modp).read()
    new = re.sub(r"(replace github.com/talostrading/sonic => ).*", r"\g<1>" + REPO, mod)
    if new != mod:
        open(modp, "w").write(new)
    sumsrc = os.path.join(REPO, "go.sum")
    sumdst = os.path.join(HARNESS, "go.sum")
    if os.path.exists(sumsrc):
        a = open(sumsrc, "rb").read()
        b = open(sumdst, "rb").read() if os.path.exists(sumdst) else b""
        if not b.startswith(a):
            open(sumdst, "wb").write(a)
    rc, out = run(["go", "build", "-tags", "verif", "-o", HBIN, "."], cwd=HARNESS, env=goenv(), timeout=600)
    return rc == 0, out


def build_harness_race():
    """The harness built with Go's race detector (direct monitors marked "race"). Call after build_harness (go.mod is set).
    checkptr is off: the library's createEvent fails it on the unchanged tree, which is not what these monitors are about."""
    rc, out = run(["go", "build", "-race", "-gcflags=all=-d=checkptr=0", "-tags", "verif", "-o", HBIN_RACE, "."], cwd=HARNESS, env=goenv(), timeout=900)
    return rc == 0, out


def forbidden_tokens():
    """Grep the Lean sources (outside comments) for constructs the trusted base excludes."""
    hits = []
    for root, _, files in os.walk(LEAN):
        if ".lake" in root:
            continue
        for fn in files:
            if not fn.endswith(".lean"):
                continue
            p = os.path.join(root, fn)
            txt = open(p, encoding="utf-8").read()
            txt = re.sub(r"/-.*?-/", lambda m: "\n" * m.group(0).count("\n"), txt, flags=re.S)
            for i, line in enumerate(txt.split("\n"), 1):
                code = line.split("--")[0]
                if FORBIDDEN.search(code):
                    hits.append("%s:%d: %s" % (os.path.relpath(p, VERIF), i, line.strip()))
    return hits


def audit(pid, module, theorems):
    """#print axioms for each theorem; returns (per-theorem dict, log)."""
    os.makedirs(WORK, exist_ok=True)
    path = os.path.join(WORK, "audit_%s.lean" % pid)
    with open(path, "w") as f:
        for mod in ([module] if isinstance(module, str) else module):
            f.write("import %s\n" % mod)
        for t in theorems:
            f.write("#print axioms %s\n" % t)
    rc, out = run(["lake", "env", "lean", path], cwd=LEAN, timeout=600)
    res = {}
    flat = re.sub(r"\s+", " ", out)
    for t in theorems:
        m = re.search(r"'%s' depends on axioms: \[([^\]]*)\]" % re.escape(t), flat)
        if m:
            res[t] = [a.strip() for a in m.group(1).split(",") if a.strip()]
        elif re.search(r"'%s' does not depend on any axioms" % re.escape(t), flat):
            res[t] = []
        else:
            res[t] = None
    return res, out


# ---- traces ---------------------------------------------------------------------------------------

def split_scripts(text):
    """-> list of (id, [lines]) for '# script' separated text."""
    out, cur, cid = [], None, None
    for line in text.split("\n"):
        if line.startswith("# script"):
            if cur is not None:
                out.append((cid, cur))
            cid, cur = line[8:].strip(), []
        elif line.strip():
            if cur is None:
                cid, cur = "0", []
            cur.append(line)
    if cur is not None:
        out.append((cid, cur))
    return out


def join_scripts(scripts):
    parts = []
    for cid, lines in scripts:
        parts.append("# script %s" % cid)
        parts.extend(lines)
    return "\n".join(parts) + "\n"


def harness_gen(component, seed, n, maxops, extra=None):
    rc, out = run([HBIN, component, "gen", str(seed), str(n), str(maxops)] + (extra or []), timeout=600)
    if rc != 0:
        raise RuntimeError("harness gen failed: " + out[-2000:])
    return split_scripts(out)


def harness_enum(component, args):
    rc, out = run([HBIN, component, "enum"] + [str(a) for a in args], timeout=1200)
    if rc != 0:
        raise RuntimeError("harness enum failed: " + out[-2000:])
    return split_scripts(out)


BUDGET_NOTES = []


def harness_run(component, scripts, timeout=900):
    """Execute scripts on the real implementation. Returns (trace_scripts, crashed_script_or_None, log)."""
    inp = join_scripts(scripts).encode()
    env = goenv()
    # quick tier: a changed library can make every script run into a time-out; the harness stops starting scripts after the
    # budget and what it executed is analysed (on the unchanged tree a quick run takes 10-40 s)
    env.setdefault("VERIF_BUDGET_S", "150" if os.environ.get("VERIF_TIER", "quick") == "quick" else "7200")
    rc, out = run([HBIN, component, "run"], env=env, timeout=timeout, input_bytes=inp)
    note = re.search(r"^#budget (.*)$", out, re.M)
    if note:
        BUDGET_NOTES.append("%s: %s" % (component, note.group(1)))
        out = re.sub(r"^#budget .*$", "", out, flags=re.M)
    tr = split_scripts(out)
    if rc == 0:
        return tr, None, ""
    # crashed / hung: the script being executed is the last one that appears in the output
    done = len(tr)
    idx = max(0, done - 1)
    crashed = scripts[idx] if idx < len(scripts) else None
    good = tr[:idx]
    return good, crashed, out[-3000:]


DRV_LINE = re.compile(r"^script (\S+) ops=(\d+) model=(\S+) spec=(\S+) env=(\S+) tags=(.*)$")


def drive(component, trace_scripts, spec_only=False):
    """Run the Lean acceptor over a trace. Returns list of dicts per script."""
    exe = SPEC if spec_only else DRV
    rc, out = run([exe, component], input_bytes=join_scripts(trace_scripts).encode(), timeout=1800)
    if rc != 0:
        raise RuntimeError("%s failed (rc=%s): %s" % (os.path.basename(exe), rc, out[-2000:]))
    res, cur = [], None
    for line in out.split("\n"):
        m = DRV_LINE.match(line)
        if m:
            cur = {"id": m.group(1), "ops": int(m.group(2)), "model": m.group(3), "spec": m.group(4), "env": m.group(5),
                   "tags": [t for t in m.group(6).split(",") if t], "detail": {}, "more": []}
            res.append(cur)
        elif cur is not None and line.startswith("  ") and ": " in line:
            k, v = line.strip().split(": ", 1)
            if k == "spec-more":
                cur["more"] = v.split(" || ")
            else:
                cur["detail"][k] = v
    return res


def finding_key(detail):
    m = re.search(r"key=(\S+)", detail or "")
    return m.group(1) if m else None


def load_known(pid):
    """known_findings.txt -> (set of finding keys for pid, list of raw finding lines)."""
    keys, lines = {}, []
    p = os.path.join(VERIF, "known_findings.txt")
    if os.path.exists(p):
        for line in open(p):
            line = line.strip()
            if line.startswith("finding:") and ("property=%s " % pid) in line + " ":
                m = re.search(r"key=(\S+)", line)
                if m:
                    keys[m.group(1)] = line
                    lines.append(line)
    return keys, lines


def load_known_all():
    """keys of every recorded finding, of any property"""
    keys = set()
    p = os.path.join(VERIF, "known_findings.txt")
    if os.path.exists(p):
        for line in open(p):
            if line.startswith("finding:"):
                m = re.search(r"key=(\S+)", line)
                if m:
                    keys.add(m.group(1))
    return keys


# ---- shrinking ------------------------------------------------------------------------------------

def script_ops(lines):
    return [l for l in lines if l.startswith("! ")]


def still_fails(component, ops, want, key, spec_only):
    tr, crashed, _ = harness_run(component, [("0", ops)], timeout=120)
    if crashed is not None:
        return want == "crash"
    if want == "crash" or not tr:
        return False
    r = drive(component, tr, spec_only=spec_only)
    if not r:
        return False
    r = r[0]
    if want == "spec":
        keys = [finding_key(r["detail"].get("spec-detail"))] + [finding_key(d) for d in r.get("more", [])]
        return r["spec"] != "ok" and (key is None or key in keys)
    if want == "model":
        return r["model"] != "ok"
    return False


def shrink(component, ops, want, key=None, spec_only=False, budget_s=60, keep_first=1):
    """Delta-debugging on the operation list (the first `keep_first` ops, e.g. `new`, are kept)."""
    t0 = time.time()
    head, body = ops[:keep_first], ops[keep_first:]
    n = 2
    while len(body) >= 1 and time.time() - t0 < budget_s:
        chunk = max(1, len(body) // n)
        reduced = False
        i = 0
        while i < len(body) and time.time() - t0 < budget_s:
            cand = body[:i] + body[i + chunk:]
            if still_fails(component, head + cand, want, key, spec_only):
                body = cand
                reduced = True
            else:
                i += chunk
        if not reduced:
            if chunk == 1:
                break
            n = min(len(body), n * 2)
    return head + body


# ---- the generic property check ---------------------------------------------------------------------

class Check:
    def __init__(self, cfg):
        self.cfg = cfg
        self.pid = cfg["id"]
        self.t0 = time.time()
        self.seed = int(os.environ.get("VERIF_SEED", "1") or 1)
        self.tier = os.environ.get("VERIF_TIER", "quick")
        self.violations = []      # (kind, replay_path, text)
        self.known = []
        self.notes = []
        self.cov = {}

    # -- replay files
    def write_replay(self, kind, component, ops, detail, extra=None):
        d = os.path.join(VERIF, "replays")
        os.makedirs(d, exist_ok=True)
        k = len([f for f in os.listdir(d) if f.startswith("%s-%s-%d-" % (self.pid, self.tier, self.seed))])
        path = os.path.join(d, "%s-%s-%d-%d.replay" % (self.pid, self.tier, self.seed, k))
        rc, head = run(["git", "-C", REPO, "rev-parse", "--short", "HEAD"])
        rc2, dirty = run(["git", "-C", REPO, "status", "--porcelain"])
        with open(path, "w") as f:
            f.write("# property: %s\n# component: %s\n# seed: %d\n# tier: %s\n" % (self.pid, component, self.seed, self.tier))
            f.write("# repo: %s%s\n# kind: %s\n" % (head.strip(), " (dirty)" if dirty.strip() else "", kind))
            for line in (detail or "").split("\n"):
                f.write("# %s\n" % line)
            if extra:
                for line in extra.split("\n"):
                    f.write("# %s\n" % line)
            f.write("# re-run: ./check %s --replay %s\n" % (self.pid, path))
            if ops:
                f.write("# script 0\n")
                for o in ops:
                    f.write(o + "\n")
        return path


def sha(lines):
    return hashlib.sha1("\n".join(lines).encode()).hexdigest()
